"""C19 seed corpora: valid encodings per entry point, built once in the parent process (workers fork).

  CLASS_BIN[name]  = [(bytes, parse kwargs)]   serializations of objects built with btclib's own constructors
                                               (the recipes of harness/c05_oracles.GENS) + vendored vectors
  CLASS_JSON[name] = [(dict, kwargs)]          their to_dict() forms
  TEXT[ep]         = [str]                      valid texts per text entry point
  PRED[ep]         = [(args spec, kwargs spec)] valid (accepted) calls of the boolean verifiers
"""
from __future__ import annotations

import base64
import json
import random

from . import c19_gen as G

CLASS_BIN: dict = {}
CLASS_JSON: dict = {}
CLASS_OBJ: dict = {}
TEXT: dict = {}
PRED: dict = {}
SCRIPTS: list = []
MS_SCRIPTS: list = []      # scripts compiled from miniscripts (both contexts)
VALID: dict = {}
DEGENERATE: list = []
NOTES: list = []
_built = False

K1 = 0x4242424242424242424242424242424242424242424242424242424242424242
K2 = 0x0123456789ABCDEF0123456789ABCDEF0123456789ABCDEF0123456789ABCDEF
XPRV = ("xprv9s21ZrQH143K2ZP8tyNiUtgoezZosUkw9hhir2JFzDhcUWKz8qFYk3cxdgSFoCMzt8E2Ubi1nXw71TLhwgCfzqFHfM5Snv4zboSebePRmLS")


def _try(what, fn, default=None):
    try:
        return fn()
    except Exception as e:  # noqa: BLE001 - a seed that cannot be built is reported, not fatal
        NOTES.append(f"seed `{what}` not built: {type(e).__name__}: {str(e)[:100]}")
        return default


def _ser(o):
    from .c19_core import _ser as ser
    return ser(o)


def build(seed=0, per_class=6):
    global _built
    if _built:
        return
    _built = True
    from . import c05_oracles as O
    rng = random.Random(seed ^ 0xC19)
    reg = O._registry()
    # ---- objects from the constructor recipes
    for name, gen in sorted({**O.GENS, **O.GENS_NOCHECK}.items()):
        sp = reg.get(name)
        if sp is None:
            continue
        for _ in range(per_class):
            def one():
                r = gen(rng)
                kw = {}
                if isinstance(r, tuple):
                    r, kw = r
                    kw = dict(kw) if isinstance(kw, dict) else {}
                obj = O._build(r, name not in O.GENS_NOCHECK)
                return obj, kw
            got = _try(f"gen {name}", one)
            if got is None:
                break
            obj, kw = got
            CLASS_OBJ.setdefault(name, []).append(obj)
            if sp.ps and name not in O.TEXT_CLASSES:
                b = _try(f"ser {name}", lambda: _ser(obj))
                if isinstance(b, (bytes, bytearray)) and len(b) < 20000:
                    CLASS_BIN.setdefault(name, []).append((b, kw))
            if sp.js:
                d = _try(f"to_dict {name}", lambda: _to_dict(obj))
                if d is not None:
                    CLASS_JSON.setdefault(name, []).append((d, {}))
    # ---- vendored vectors
    for b in G.psbt_bytes():
        CLASS_BIN.setdefault("Psbt", []).append((b, {}))
    from btclib.psbt import Psbt
    for k, v in G.psbt_vectors():
        try:
            p = Psbt.b64decode(v) if k == "b64" else Psbt.parse(bytes.fromhex(v))
        except Exception:  # noqa: BLE001 - the invalid vectors
            continue
        d = _try("psbt to_dict", lambda: _to_dict(p))
        if d is not None and len(json.dumps(d, default=str)) < 40000:
            CLASS_JSON.setdefault("Psbt", []).append((d, {}))
        for i in p.inputs[:2]:
            di = _try("psbtin to_dict", lambda: _to_dict(i))
            if di is not None:
                CLASS_JSON.setdefault("PsbtIn", []).append((di, {}))
            bi = _try("psbtin ser", lambda: _ser(i))
            if bi is not None:
                CLASS_BIN.setdefault("PsbtIn", []).append((bi, {"psbt_version": p.version}))
        for o in p.outputs[:2]:
            do = _try("psbtout to_dict", lambda: _to_dict(o))
            if do is not None:
                CLASS_JSON.setdefault("PsbtOut", []).append((do, {}))
            bo = _try("psbtout ser", lambda: _ser(o))
            if bo is not None:
                CLASS_BIN.setdefault("PsbtOut", []).append((bo, {"psbt_version": p.version}))
    from btclib.tx import Tx
    for h in G.tx_hexes(120):
        try:
            b = bytes.fromhex(h)
            t = Tx.parse(b, check_validity=False)
        except Exception:  # noqa: BLE001
            continue
        if len(b) < 3000:
            CLASS_BIN.setdefault("Tx", []).append((b, {}))
            for o in t.vout[:2]:
                SCRIPTS.append(o.script_pub_key.script)
            for i in t.vin[:2]:
                SCRIPTS.append(i.script_sig)
                for w in i.script_witness.stack[-1:]:
                    if len(w) > 2:
                        SCRIPTS.append(w)
    for f in ("block_1.bin", "block_170.bin"):
        b = _try(f, lambda: G.load_bin("block", "_data", f))
        if b:
            CLASS_BIN.setdefault("Block", []).append((b, {}))
            CLASS_BIN.setdefault("BlockPayload", []).append((b, {}))
            CLASS_BIN.setdefault("BlockHeader", []).append((b[:80], {}))
    SCRIPTS.extend(bytes.fromhex(h) for h in G.script_hexes())
    SCRIPTS.extend([b"", b"\x51", bytes.fromhex("76a914" + "33" * 20 + "88ac"), bytes.fromhex("6a0548656c6c6f"),
                    bytes.fromhex("5221" + "02" + "11" * 32 + "21" + "03" + "22" * 32 + "52ae"),
                    bytes.fromhex("4c05" + "0102030405"), bytes.fromhex("4d0500" + "0102030405"), bytes.fromhex("4e05000000" + "0102030405"),
                    bytes.fromhex("63516751" + "68"), bytes.fromhex("20" + "aa" * 32 + "ac"), bytes.fromhex("50"), bytes.fromhex("ff")])
    _degenerate_psbts(rng)
    for name in ("Tx", "Psbt"):
        cls = reg[name].cls
        ok = []
        for b, _kw in CLASS_BIN.get(name, []):
            try:
                cls.parse(b, check_validity=False)
                ok.append(b)
            except Exception:  # noqa: BLE001
                continue
        VALID[name] = ok[:60]
    _text_seeds(rng)
    _pred_seeds(rng)


def _degenerate_psbts(rng):
    """valid PSBTs (the BIP375 silent-payment ones first) whose inputs spend scripts of 0, 1 and 2 bytes, and
    whose outputs pay to such scripts: what a consumer indexes into before it has looked at the length"""
    from btclib.psbt import Psbt
    from btclib.tx import TxOut
    made = 0
    tiny = [b"", b"\x00", b"\x51", b"\x60", b"\x6a", b"\xff", b"\x00\x00", b"\x51\x00", b"\x00\x14", b"\x51\x20", b"\x60\x01"]
    seeds = [b for b, _ in CLASS_BIN.get("Psbt", [])]
    with_sp, without = [], []
    for b in seeds:
        try:
            p = Psbt.parse(b, check_validity=False)
        except Exception:  # noqa: BLE001
            continue
        if not p.inputs:
            continue
        (with_sp if any(getattr(o, "sp_v0_info", None) for o in p.outputs) else without).append(b)
    for b in with_sp[:30] + without[:12]:
        for sc in tiny:
            try:
                q = Psbt.parse(b, check_validity=False)
                i = rng.randrange(len(q.inputs))
                q.inputs[i].witness_utxo = TxOut(rng.choice([0, 1, 100_000]), sc, check_validity=False)
                q.inputs[i].non_witness_utxo = None
                out = q.serialize(check_validity=False)
            except Exception:  # noqa: BLE001
                continue
            CLASS_BIN.setdefault("Psbt", []).append((out, {}))
            DEGENERATE.append(out)
            made += 1
    NOTES.append(f"degenerate-script psbt seeds: {made}")


def _to_dict(o):
    try:
        return o.to_dict(check_validity=False)
    except TypeError:
        return o.to_dict()


def _text_seeds(rng):
    from btclib import b32, b58, base58, bech32
    from btclib.bip32 import bip32
    from btclib.ecc import bms, dsa
    from btclib.psbt import Psbt
    from btclib.to_pub_key import pub_keyinfo_from_prv_key
    pub33, _ = pub_keyinfo_from_prv_key(K1, compressed=True)
    pub65, _ = pub_keyinfo_from_prv_key(K1, compressed=False)
    pub33b, _ = pub_keyinfo_from_prv_key(K2, compressed=True)
    xonly = pub33[1:].hex()
    xpub = bip32.xpub_from_xprv(XPRV)
    addrs58 = [b58.p2pkh(pub33), b58.p2pkh(pub33, "testnet"), b58.p2sh(b"\x51"), b58.p2wpkh_p2sh(pub33)]
    addrs32 = [b32.p2wpkh(pub33), b32.p2wpkh(pub33, "testnet"), b32.p2wsh(b"\x51"),
               b32.address_from_witness(1, bytes.fromhex(xonly)), b32.address_from_witness(16, b"\x01\x02")]
    wifs = [b58.wif_from_prv_key(K1), b58.wif_from_prv_key(K1, "testnet", False)]
    keyio = G.key_io_strings()
    TEXT["btclib.base58.decode"] = addrs58 + wifs + [xpub, XPRV, "", "1", "11", "z"] + keyio[:20]
    TEXT["btclib.base58.b58decode"] = TEXT["btclib.base58.decode"]
    TEXT["btclib.bech32.decode"] = addrs32 + ["a12uel5l", "A12UEL5L", "abcdef1qpzry9x8gf2tvdw0s3jn54khce6mua7lmqqqxw", "?1ezyfcl",
                                             "an83characterlonghumanreadablepartthatcontainsthenumber1andtheexcludedcharactersbio1tt5tgs"]
    TEXT["btclib.b32.witness_from_address"] = addrs32 + [s for s in keyio if s.lower().startswith(("bc1", "tb1", "bcrt1"))][:20]
    TEXT["btclib.b32.is_segwit_prefixed"] = addrs32 + addrs58
    TEXT["btclib.b58.h160_from_address"] = addrs58 + addrs32[:1]
    for ep in ("btclib.script.script_pub_key.ScriptPubKey.from_address", "btclib.descriptors.descriptors.from_address",
               "btclib.slip132.address_from_xkey"):
        TEXT[ep] = addrs58 + addrs32 + [xpub]
    TEXT["btclib.bip32.bip32.BIP32KeyData.b58decode"] = [xpub, XPRV] + _try("bip32 vectors", _bip32_vector_keys, [])
    TEXT["btclib.to_prv_key.prv_keyinfo_from_prv_key"] = wifs + [XPRV, "%064x" % K1]
    TEXT["btclib.to_pub_key.pub_keyinfo_from_key"] = wifs + [XPRV, xpub, pub33.hex(), pub65.hex()]
    TEXT["btclib.to_pub_key.point_from_key"] = TEXT["btclib.to_pub_key.pub_keyinfo_from_key"]
    # descriptors / miniscript
    descs = [f"pk({pub33.hex()})", f"pkh({pub33.hex()})", f"wpkh({pub33.hex()})", f"sh(wpkh({pub33.hex()}))",
             f"wsh(multi(1,{pub33.hex()},{pub33b.hex()}))", f"sh(wsh(sortedmulti(2,{pub33.hex()},{pub33b.hex()})))",
             f"tr({xonly})", f"tr({xonly},{{pk({pub33b[1:].hex()}),pk({xonly})}})",
             f"tr({xonly},{{{{pk({xonly}),pk({pub33b[1:].hex()})}},multi_a(1,{xonly},{pub33b[1:].hex()})}})",
             f"wpkh([d34db33f/84h/0h/0h]{xpub}/0/*)", f"wsh(and_v(v:pk({pub33.hex()}),older(144)))",
             f"combo({pub33.hex()})", f"addr({addrs32[0]})", "raw(6a0548656c6c6f)", f"rawtr({xonly})",
             f"wpkh({xpub}/<0;1>/*)", f"tr(musig({pub33.hex()},{pub33b.hex()}))", f"pkh({wifs[0]})",
             f"wsh(or_d(pk({pub33.hex()}),and_v(v:pkh({pub33b.hex()}),after(500000))))"] + G.descriptors_text()[:40]
    from btclib.descriptors import descriptors as DS
    with_sum = []
    for d in descs:
        s = _try("checksum", lambda: DS.add_checksum(DS.strip_checksum(d)) if "#" in d else DS.add_checksum(d))
        if s:
            with_sum.append(s)
    TEXT["btclib.descriptors.descriptors.parse"] = descs + with_sum
    TEXT["btclib.descriptors.descriptors.checksum"] = descs
    TEXT["btclib.descriptors.descriptors.strip_checksum"] = with_sum
    TEXT["btclib.descriptors.descriptors.add_checksum"] = descs
    TEXT["btclib.wallet.descriptor_wallet.DescriptorWallet.from_descriptor"] = with_sum[:8]
    ms = [f"pk({pub33.hex()})", f"and_v(v:pk({pub33.hex()}),older(144))", f"or_d(pk({pub33.hex()}),and_v(v:pkh({pub33b.hex()}),after(500000)))",
          f"thresh(2,pk({pub33.hex()}),s:pk({pub33b.hex()}),sln:older(12960))", f"multi(1,{pub33.hex()},{pub33b.hex()})",
          "and_v(v:sha256(" + "11" * 32 + f"),pk({pub33.hex()}))", f"andor(pk({pub33.hex()}),older(10),pk({pub33b.hex()}))",
          f"t:or_c(pk({pub33.hex()}),v:after(100))", "l:older(9)", "1", "0"] + G.miniscripts_text()[:60]
    TEXT["btclib.descriptors.miniscript.parse"] = ms
    from btclib.descriptors import miniscript as MS
    for text in ms:
        for c in ("P2WSH", "TAPSCRIPT"):
            try:
                b = MS.parse(text, c).script()
            except Exception:  # noqa: BLE001 - not every text is valid in both contexts
                continue
            if isinstance(b, (bytes, bytearray)) and 0 < len(b) < 600 and b not in MS_SCRIPTS:
                MS_SCRIPTS.append(bytes(b))
    # der paths, indexes, key origins
    paths = ["m", "m/0", "m/0h/1'/2H", "m/44h/0h/0h/0/5", "0/1", "m/2147483647h", "m/*", "m/0/*h", "/0", "m/"]
    for ep in ("btclib.bip32.der_path.indexes_from_der_path", "btclib.bip32.der_path.bytes_from_der_path",
               "btclib.bip32.der_path.hardenings_from_der_path", "btclib.bip32.der_path.str_from_der_path"):
        TEXT[ep] = paths
    TEXT["btclib.bip32.der_path.int_from_index_str"] = ["0", "1h", "2147483647'", "5H", "*", "2147483648", "-1", "0x10"]
    TEXT["btclib.bip32.key_origin.BIP32KeyOrigin.from_description"] = ["d34db33f/44h/0h/0h", "d34db33f", "00000000/0/1/2", "[d34db33f/0]"]
    # mnemonics
    m12 = "abandon abandon abandon abandon abandon abandon abandon abandon abandon abandon abandon about"
    m24 = ("legal winner thank year wave sausage worth useful legal winner thank year wave sausage worth useful "
           "legal winner thank year wave sausage worth title")
    for ep in ("btclib.mnemonic.bip39.entropy_from_mnemonic", "btclib.mnemonic.bip39.lang_from_mnemonic",
               "btclib.mnemonic.electrum.entropy_from_mnemonic", "btclib.mnemonic.electrum.version_from_mnemonic",
               "btclib.mnemonic.electrum.lang_from_mnemonic", "btclib.mnemonic.dispatch.seed_type_from_mnemonic",
               "btclib.mnemonic.dispatch.all_seed_types_from_mnemonic", "btclib.mnemonic.slip39.share_from_mnemonic",
               "btclib.mnemonic.electrum.hex_seed_from_old_mnemonic"):
        TEXT[ep] = [m12, m24, "wild father tree among universe such mobile favor target dynamic credit identify",
                    "duckling enlarge academic academic agency result length solution fridge kidney coal piece deal husband erode duke ajar "
                    "critical decision keyboard"]
    # base64 forms
    psbt64 = [v for k, v in G.psbt_vectors() if k == "b64"][:40]
    TEXT["btclib.psbt.psbt.Psbt.b64decode"] = psbt64
    TEXT["btclib.tx_or_psbt.tx_or_psbt_from_any"] = psbt64[:10] + G.tx_hexes(10) + [v for k, v in G.psbt_vectors() if k == "hex"][:5]
    sig = _try("bms sign", lambda: bms.sign(b"hello", wifs[0]))
    if sig is not None:
        TEXT["btclib.ecc.bms.Sig.b64decode"] = [sig.b64encode()]
    from btclib import bip322
    s322 = []
    for a in (addrs32[0], addrs32[3], addrs58[0]):
        s = _try("bip322 sign", lambda: bip322.sign(b"hello", wifs[0], a))
        if s is not None:
            s322.append((a, s.b64encode()))
    TEXT["btclib.bip322.Sig.b64decode"] = [s for _, s in s322] or ["AkcwRAIgM2gBAQqvZX15ZiysmKmQpDrG83avLIT492QBzLnQIxYCIBaTpOaD20qRlEylyxFSeEA2ba9YOixpX8z46TSDtS40ASECx/EgAxlkQpQ9hYjgGu6EBCPMVPwVIVJqO4XCsMvViHI="]
    PRED["__bip322"] = s322
    from btclib.ecc import ecies
    envs = [e.b64encode() for e in CLASS_OBJ.get("Envelope", [])[:4] if hasattr(e, "b64encode")]
    if envs:
        TEXT["btclib.ecc.ecies.Envelope.b64decode"] = envs
    from btclib import bip21
    TEXT["btclib.bip21.Bip21.parse"] = [f"bitcoin:{addrs58[0]}", f"bitcoin:{addrs32[0]}?amount=0.001&label=x%20y&message=hi",
                                       f"BITCOIN:{addrs32[0].upper()}?amount=20.3", f"bitcoin:{addrs58[0]}?req-somethingyoudontunderstand=50",
                                       f"bitcoin:?lightning=lnbc1&sp={addrs32[0]}"]
    TEXT["btclib.amount.sats_from_btc"] = ["0.001", "21000000", "1e-8"]
    TEXT["__generic_str"] = addrs58 + addrs32 + wifs + [xpub, XPRV, m12] + descs[:6] + paths + psbt64[:2]


def _bip32_vector_keys():
    out = []
    d = G.load_json("bip32", "_data", "bip32_test_vectors.json")

    def walk(v):
        if isinstance(v, str) and v[:4] in ("xprv", "xpub"):
            out.append(v)
        elif isinstance(v, dict):
            for x in v.values():
                walk(x)
        elif isinstance(v, list):
            for x in v:
                walk(x)
    walk(d)
    return out[:30]


def _pred_seeds(rng):
    """valid (True-answering) calls of the boolean verifiers, as specs"""
    from btclib import b58
    from btclib.ecc import bms, dleq, dsa, pedersen, ssa
    from btclib.hashes import hash256, sha256, tagged_hash
    from btclib.to_pub_key import pub_keyinfo_from_prv_key
    B, L, T = G.B, G.L, G.T
    pub33, _ = pub_keyinfo_from_prv_key(K1, compressed=True)
    pub65, _ = pub_keyinfo_from_prv_key(K1, compressed=False)
    msg = b"C19 message"
    h = sha256(msg)

    def add(ep, args, kwargs=None):
        PRED.setdefault(ep, []).append((list(args), kwargs or {}))

    s = _try("dsa", lambda: dsa.sign(msg, K1))
    if s is not None:
        for key in (B(pub33), B(pub65), pub33.hex()):
            add("btclib.ecc.dsa.verify", [B(msg), key, B(s.serialize())])
            add("btclib.ecc.dsa.verify_", [B(h), key, B(s.serialize())])
        add("btclib.script.engine.script.dsa_verify", [B(h), B(pub33), B(s.serialize())])
    x = _try("ssa", lambda: ssa.sign(msg, K1))
    if x is not None:
        xq = pub33[1:]
        add("btclib.ecc.ssa.verify", [B(msg), B(xq), B(x.serialize())])
        add("btclib.ecc.ssa.verify_", [B(h), B(xq), B(x.serialize())])
        x2 = _try("ssa_", lambda: ssa.sign_(h, K1))
        if x2 is not None:
            add("btclib.script.engine.tapscript.ssa_verify", [B(h), B(xq), B(x2.serialize())])
    wif = b58.wif_from_prv_key(K1)
    addr = b58.p2pkh(pub33)
    bs = _try("bms", lambda: bms.sign(msg, wif))
    if bs is not None:
        add("btclib.ecc.bms.verify", [B(msg), addr, bs.b64encode()])
        add("btclib.ecc.bms.verify", [B(msg), addr, B(bs.serialize())])
    for a, s64 in PRED.pop("__bip322", []):
        add("btclib.bip322.verify", [B(b"hello"), a, s64])
    pr = _try("dleq", lambda: _dleq(dleq))
    if pr is not None:
        add("btclib.ecc.dleq.verify_proof", pr)
    pc = _try("pedersen", lambda: pedersen.commit(5, 7))
    if pc is not None:
        add("btclib.ecc.pedersen.verify", [5, 7, T([pc[0], pc[1]])])
    # merkle branch
    txids = [hash256(bytes([i])) for i in range(5)]
    mp = _try("merkle", lambda: _merkle(txids))
    if mp is not None:
        add("btclib.block.merkle_proof.verify", mp)
    from btclib.script import taproot
    tp = _try("taproot control", lambda: _control(taproot, pub33))
    if tp is not None:
        add("btclib.script.taproot.check_output_pubkey", tp)
    for n in ("is_p2pkh", "is_p2sh", "is_p2wpkh", "is_p2wsh", "is_p2tr", "is_p2pk", "is_p2ms", "is_nulldata", "is_segwit"):
        for sc in SCRIPTS[-14:]:
            add(f"btclib.script.script_pub_key.{n}", [B(sc)])
    add("btclib.block.proof_of_work.is_negative_bits", [B(bytes.fromhex("1d00ffff"))])
    add("btclib.descriptors.miniscript.reads_back", [B(bytes.fromhex("21" + pub33.hex() + "ac"))])
    add("btclib.script.engine.script.check_pub_key", [B(pub33), False, {"flag": 0}])
    add("btclib.script.engine.script.check_pub_key", [B(pub65), True, {"flag": 0}])
    _try("batch", lambda: _batch_seeds(add))
    _try("musig2", lambda: _musig2_seeds(add))
    _try("borromean", lambda: _borromean_seeds(add))


def _batch_seeds(add):
    from btclib.ecc import ssa
    from btclib.hashes import sha256
    from btclib.to_pub_key import pub_keyinfo_from_prv_key
    msgs, qs, sigs = [], [], []
    for i, k in enumerate((K1, K2, 7)):
        m = b"batch %d" % i
        msgs.append(m)
        qs.append(pub_keyinfo_from_prv_key(k, compressed=True)[0][1:])
        sigs.append(ssa.sign(m, k))
    assert ssa.batch_verify(msgs, qs, sigs)
    sobj = [{"obj": ["btclib.ecc.ssa.Sig", x.serialize().hex()]} for x in sigs]
    add("btclib.ecc.ssa.batch_verify", [G.L(G.B(m) for m in msgs), G.L(G.B(q) for q in qs), G.L(sobj)])
    hs = [sha256(m) for m in msgs]
    sigs_ = [ssa.sign_(h, k) for h, k in zip(hs, (K1, K2, 7))]
    assert ssa.batch_verify_(hs, qs, sigs_)
    add("btclib.ecc.ssa.batch_verify_", [G.L(G.B(h) for h in hs), G.L(G.B(q) for q in qs),
                                        G.L({"obj": ["btclib.ecc.ssa.Sig", x.serialize().hex()]} for x in sigs_)])


def _musig2_seeds(add):
    from btclib.ecc import musig2 as M
    keys = [K1, K2]
    pubs = [M.individual_pub_key(k) for k in keys]
    msg = b"\x07" * 32
    nonces = [M.nonce_gen(k, p, None, msg) for k, p in zip(keys, pubs)]
    pub_nonces = [n[1] for n in nonces]
    agg = M.nonce_agg(pub_nonces)
    ctx = M.SessionContext(agg, pubs, [], [], msg)
    psig = M.sign(nonces[0][0], keys[0], ctx)
    assert M.partial_sig_verify(psig, pub_nonces, pubs, [], [], msg, 0)
    add("btclib.ecc.musig2.partial_sig_verify", [G.B(psig), G.L(G.B(n) for n in pub_nonces), G.L(G.B(p) for p in pubs), G.L([]), G.L([]), G.B(msg), 0])
    cspec = {"call": ["btclib.ecc.musig2.SessionContext", [G.B(agg), G.L(G.B(p) for p in pubs), G.L([]), G.L([]), G.B(msg)], {}]}
    assert M.partial_sig_verify_(psig, pub_nonces[0], pubs[0], ctx)
    add("btclib.ecc.musig2.partial_sig_verify_", [G.B(psig), G.B(pub_nonces[0]), G.B(pubs[0]), cspec])


def _borromean_seeds(add):
    from btclib.curves import mult
    from btclib.ecc import borromean
    msg = b"borromean"
    prv = [[3, 5], [7, 11, 13]]
    rings = [[mult(k) for k in ring] for ring in prv]
    idx = [1, 0]
    sign_keys = [prv[0][1], prv[1][0]]
    sig = borromean.sign(msg, [17, 19], idx, sign_keys, rings)
    assert borromean.verify(msg, sig, rings)
    rspec = G.L(G.L(G.T([p[0], p[1]]) for p in ring) for ring in rings)
    b = sig.serialize()
    add("btclib.ecc.borromean.verify", [G.B(msg), G.B(b), rspec])
    add("btclib.ecc.borromean.verify", [G.B(msg), {"call": ["btclib.ecc.borromean.BorromeanSig.parse", [G.B(b)], {"rsizes": G.L([2, 3])}]}, rspec])


def _dleq(dleq):
    from btclib.curves import mult, secp256k1 as ec
    a, b = K1 % ec.n, K2 % ec.n
    A = mult(a)
    Bp = mult(b)
    C = mult(a, Bp)
    proof = dleq.generate_proof(a, Bp)
    return [G.T(list(A)), G.T(list(Bp)), G.T(list(C)), G.B(proof)]


def _merkle(txids):
    from btclib.block import merkle_proof as mp
    from btclib.hashes import hash256
    lvl = list(txids)
    idx, branch = 3, []
    i = idx
    while len(lvl) > 1:
        if len(lvl) % 2:
            lvl.append(lvl[-1])
        branch.append(lvl[i ^ 1])
        lvl = [hash256(lvl[j] + lvl[j + 1]) for j in range(0, len(lvl), 2)]
        i //= 2
    root = lvl[0]
    if not mp.verify(txids[idx], branch, idx, root):
        # display order convention: try reversed
        branch2 = [b[::-1] for b in branch]
        if mp.verify(txids[idx][::-1], branch2, idx, root[::-1]):
            return [G.B(txids[idx][::-1]), G.L(G.B(b) for b in branch2), idx, G.B(root[::-1])]
        raise ValueError("no convention verifies")
    return [G.B(txids[idx]), G.L(G.B(b) for b in branch), idx, G.B(root)]


def _control(taproot, pub33):
    script = b"\x51"
    xonly = pub33[1:]
    q, _ = taproot.output_pubkey_from_merkle_root(xonly, taproot.leaf_hash(0xC0, script))
    for parity in (0, 1):
        control = bytes([0xC0 | parity]) + xonly
        if taproot.check_output_pubkey(q, script, control):
            return [G.B(q), G.B(script), G.B(control)]
    raise ValueError("no control block verifies")
