"""C01 — curve and field arithmetic compute exactly the group law (DESIGN §3 C01).

Correspondence: the Lean model (Model/C01/*.lean + Model/Common/EC.lean, compiled to drv_c01) against the
real btclib functions, in-process — Jacobian add / add_aff / double op by op (exact triples), every private
ladder by name with hand-picked window widths (exact Jacobian triples), the integer recodings, the public
entry points under BOTH backends, the constructors (which check refuses), number theory.
Property oracles on the real code alone: results against an independent affine chord-and-tangent
double-and-add written here (`_ref_*`), recoding sums, inverse / square-root equations.
"""
from __future__ import annotations

import itertools
from math import isqrt

from btclib import number_theory as NT
from btclib.alias import INF, INFJ
from btclib.curves import curve as C
from btclib.curves import curve_group as CG
from btclib.curves import curve_group_2 as CG2
from btclib.curves.curve import CURVES, Curve, secp256k1
from btclib.curves.curve_group import CurveGroup
from btclib.curves import sec_point as SEC

from . import common

PROP = "C01"
EXE = "drv_c01"
GEN_MODULES = ["Curves", "C01Glv", "C01Ctor"]
RULE = ("op lines come from exhaustive enumeration of toy curves (every (p,a,b) with non-zero discriminant, every "
        "prime-order subgroup, every pair of Jacobian representatives from a scaling orbit) and from one seeded PRNG "
        "for the catalogued curves (boundary scalar classes); non-trivial = the implementation did not refuse; "
        "distinct = distinct (stream, op line)")
TRUSTED = [
    "ladders / entry points / number theory / SEC codec are hand-written models tied by correspondence (Model/C01/*.lean); "
    "the constructors' chains of refusals, _is_prime, the _a_is_zero / _a_is_minus_3 flags, the stand-ins, double_jac / "
    "_double_jac_helper and _multiplier_decomposer are TRANSLATED from the source each run (Generated/C01Ctor.lean, "
    "Generated/C01Glv.lean) and the model is proved equal to them",
    "primality of p and n of EVERY catalogued curve is proved (Pratt certificates, catalogue_ok_all over the regenerated catalogue); for a caller-defined curve it is a hypothesis of new_curve_is_curve_ok (the code itself runs a Fermat base-2 test)",
    "that the Jacobian formulas are the group law is Proofs/C01/JacRefine.lean (T1); the ladder theorems take it as "
    "the named hypothesis JacRel, discharged for btclib's arithmetic by jac_rel_ec",
    "refusal of off-curve points / length mismatch by the entry points holds by construction of the model; the real refusal is "
    "tied by the curve.entry.* streams and the offcurve.refused oracle",
]
ASSUMPTIONS = ["Nat.Prime p, Nat.Prime n only for caller-defined curves (new_curve_is_curve_ok); proved for all 27 catalogued curves",
               "cofactor one (hcof) only in the GENERIC transfer ops_sub_hom_of_cofactor_one; proved for secp256k1 and the toy curve",
               "EndoLaw only in the generic `_given_endo_law` forms (proved for secp256k1, whose <G> is the whole curve)",
               "NoTwoTorsionIn H for the subgroup the operands live in (every subgroup of odd order)",
               "libsecp256k1 is compared, not verified"]


# ------------------------------------------------------------------ deterministic blinds
class _Secrets:
    """stand-in for the `secrets` module inside curve_group / number_theory: the blind is the harness's."""
    blind = 1

    @classmethod
    def randbelow(cls, n):
        return (cls.blind - 1) % n if n > 0 else 0


_REAL_SECRETS = (CG.secrets, NT.secrets)


def _patch_secrets(on):
    CG.secrets, NT.secrets = (_Secrets, _Secrets) if on else _REAL_SECRETS


# ------------------------------------------------------------------ independent reference (affine, None = infinity)
def _ref_add(P, Q, p, a):
    if P is None:
        return Q
    if Q is None:
        return P
    if P[0] == Q[0]:
        if (P[1] + Q[1]) % p == 0:
            return None
        lam = (3 * P[0] * P[0] + a) * pow(2 * P[1], -1, p) % p
    else:
        lam = (Q[1] - P[1]) * pow(Q[0] - P[0], -1, p) % p
    x = (lam * lam - P[0] - Q[0]) % p
    return x, (lam * (P[0] - x) - P[1]) % p


def _ref_mul(m, P, p, a):
    """left-to-right binary double-and-add on |m|, sign applied at the end"""
    neg = m < 0
    m = abs(m)
    R = None
    for bit in bin(m)[2:]:
        R = _ref_add(R, R, p, a)
        if bit == "1":
            R = _ref_add(R, P, p, a)
    if neg and R is not None:
        R = (R[0], (-R[1]) % p)
    return R


def _aff(P):
    """btclib affine -> reference (None = infinity)"""
    return None if P[1] == 0 else (P[0], P[1])


def _ref_of_jac(Q, p):
    if Q[2] % p == 0:
        return None
    zi = pow(Q[2], p - 2, p)
    return Q[0] * zi * zi % p, Q[1] * zi * zi * zi % p


# ------------------------------------------------------------------ toy curves
def _primes(lo, hi):
    return [q for q in range(lo, hi + 1) if q >= 2 and all(q % d for d in range(2, isqrt(q) + 1))]


class SubGroup(CurveGroup):
    """a CurveGroup with a distinguished point of prime order n: what the private ladders read off `ec`
    (scalar_len, _fixed_points) set as `Curve` sets them; equality includes them (the lru_caches key on ec)."""

    def __init__(self, p, a, b, G, n):
        super().__init__(p, a, b)
        self.G = G
        self.GJ = (G[0], G[1], 1)
        self.n = n
        self.scalar_len = n.bit_length()
        self._fixed_points = frozenset({self.GJ, self.negate_jac(self.GJ)})

    def _eq_key(self):
        return (self.p, self._a, self._b, self.G[0], self.G[1], self.n)


_TOY_CACHE: dict = {}


def toy_points(p, a, b):
    """all affine points (x, y), y may be 0 (2-torsion), of y^2 = x^3 + a x + b over F_p"""
    sq = {}
    for y in range(p):
        sq.setdefault(y * y % p, []).append(y)
    return [(x, y) for x in range(p) for y in sq.get((x * x * x + a * x + b) % p, [])]


def toy_curve(p, a, b):
    """-> dict(points, order, subgroups=[(n, G)]) with G of prime order n (one per prime factor of the exponent)"""
    key = (p, a, b)
    if key in _TOY_CACHE:
        return _TOY_CACHE[key]
    pts = toy_points(p, a, b)
    order = len(pts) + 1
    subs = []
    for n in _primes(2, order):
        if order % n:
            continue
        for P in pts:
            if P[1] == 0:
                continue
            # a point of exact order n: (order/n^k) * P for the right k; simply test n*P == inf and P != inf
            Qn = _ref_mul(n, P, p, a)
            if Qn is None:
                subs.append((n, P))
                break
            # try the cofactor multiple
            h = order
            while h % n == 0:
                h //= n
            R = _ref_mul(h, P, p, a)
            while R is not None and _ref_mul(n, R, p, a) is not None:
                R = _ref_mul(n, R, p, a)
            if R is not None and R[1] != 0:
                subs.append((n, R))
                break
    _TOY_CACHE[key] = {"points": pts, "order": order, "subs": subs}
    return _TOY_CACHE[key]


def all_toy_params(pmax, pmin=3):
    for p in _primes(pmin, pmax):
        for a in range(p):
            for b in range(p):
                if (4 * a * a * a + 27 * b * b) % p:
                    yield p, a, b


def tok_group(p, a, b):
    return f"toy:{p}:{a}:{b}:0:0:0:0"


def tok_sub(p, a, b, G, n, h=1):
    return f"toy:{p}:{a}:{b}:{G[0]}:{G[1]}:{n}:{h}"


_EC_CACHE: dict = {}


def ec_of_token(tok):
    """curve token -> the btclib object the private functions are handed"""
    if tok in _EC_CACHE:
        return _EC_CACHE[tok]
    if tok in CURVES:
        ec = CURVES[tok]
    else:
        _, p, a, b, gx, gy, n, h = tok.split(":")
        p, a, b, gx, gy, n, h = map(int, (p, a, b, gx, gy, n, h))
        ec = CurveGroup(p, a, b) if n == 0 else SubGroup(p, a, b, (gx, gy), n)
    if len(_EC_CACHE) > 4000:
        _EC_CACHE.clear()
    _EC_CACHE[tok] = ec
    return ec


_CURVE_CACHE: dict = {}


def curve_of_token(tok):
    """curve token -> a real `Curve` (public entry points insist on the type)"""
    if tok in CURVES:
        return CURVES[tok]
    if tok not in _CURVE_CACHE:
        _, p, a, b, gx, gy, n, h = tok.split(":")
        _CURVE_CACHE[tok] = Curve(int(p), int(a), int(b), (int(gx), int(gy)), int(n), int(h), weakness_check=False)
    return _CURVE_CACHE[tok]


# ------------------------------------------------------------------ rendering / parsing
def jtok(Q):
    return f"{Q[0]}:{Q[1]}:{Q[2]}"


def atok(Q):
    return f"{Q[0]}:{Q[1]}"


def ltok(xs, f=str):
    return ",".join(f(x) for x in xs) if xs else "_"


def pj(s):
    x, y, z = s.split(":")
    return int(x), int(y), int(z)


def pa(s):
    x, y = s.split(":")
    return int(x), int(y)


def pl(s, f=int):
    return [] if s == "_" else [f(x) for x in s.split(",")]


def _rj(fn, *a):
    return common.call_impl(fn, *a, render=lambda Q: f"{Q[0]} {Q[1]} {Q[2]}")


def _ra(fn, *a):
    return common.call_impl(fn, *a, render=lambda Q: f"{Q[0]} {Q[1]}")


def _rl(fn, *a):
    return common.call_impl(fn, *a, render=lambda l: ltok(l))


_NEW_TAGS = [("p is not prime", "pprime"), ("negative a", "aneg"), ("p <= a", "age"), ("negative b", "bneg"),
             ("p <= b", "bge"), ("zero discriminant", "disc"), ("x-coordinate not in", "genx"), ("y-coordinate not in", "geny"),
             ("Generator is not on the curve", "genoff"), ("n is not prime", "nprime"), ("n not in p+1", "hasse"),
             ("INF point cannot be a generator", "infgen"), ("n is not the group order", "order"),
             ("invalid cofactor", "cofactor"), ("n=p weak curve", "neqp"), ("weak curve: the embedding", "mov")]


_SEC_TAGS = [("invalid size: ", "length"), ("invalid size for", "size"), ("invalid x-coordinate", "xinvalid"),
             ("no bytes representation for infinity", "inf"), ("against the hybrid prefix", "parity"),
             ("x-coordinate not in", "range"), ("y-coordinate not in", "range"), ("point not on curve", "offcurve"),
             ("not a point: prefix", "prefix")]


def _sec(fn, *a, **kw):
    try:
        Q = fn(*a, **kw)
    except Exception as e:  # noqa: BLE001
        c = common.err_class(e)
        if c != "value":
            return "err " + ("foreign" if c.startswith("foreign") else c)
        for frag, tag in _SEC_TAGS:
            if frag in str(e):
                return "err value " + tag
        return "err value other:" + str(e)[:40]
    return f"ok {Q[0]} {Q[1]}"


def _new(fn, *a, **kw):
    try:
        fn(*a, **kw)
    except Exception as e:  # noqa: BLE001
        c = common.err_class(e)
        if c != "value":
            return "err " + ("foreign" if c.startswith("foreign") else c)
        for frag, tag in _NEW_TAGS:
            if frag in str(e):
                return "err value " + tag
        return "err value other:" + str(e)[:40]
    return "ok"


_LADDERS = {
    "rec": lambda ec, w, m, Q: CG._mult_recursive_jac_var(m, Q, ec),
    "jacvar": lambda ec, w, m, Q: CG._mult_jac_var(m, Q, ec),
    "mont": lambda ec, w, m, Q: CG._mult_mont_ladder_var(m, Q, ec),
    "base3": lambda ec, w, m, Q: CG._mult_base_3_var(m, Q, ec),
    "fw": lambda ec, w, m, Q: CG._mult_fixed_window_var(m, Q, ec, w, False),
    "fwc": lambda ec, w, m, Q: CG._mult_fixed_window_var(m, Q, ec, w, True),
    "fwpos": lambda ec, w, m, Q: CG._mult_fixed_window_cached_var(m, Q, ec, w),
    "reg": lambda ec, w, m, Q: CG._mult_regular_window(m, Q, ec, w),
    "mult": lambda ec, w, m, Q: CG._mult(m, Q, ec),
    "fb": lambda ec, w, m, Q: CG._mult_fixed_base(m, Q, ec, w),
    "slide": lambda ec, w, m, Q: CG2._mult_sliding_window_var(m, Q, ec, w),
    "wnaf": lambda ec, w, m, Q: CG2._mult_w_NAF_var(m, Q, ec, w),
    "endo": lambda ec, w, m, Q: CG2._mult_endomorphism_secp256k1(m, Q, ec, w),
    "endovar": lambda ec, w, m, Q: CG2._mult_endomorphism_secp256k1_var(m, Q, ec, w),
}


def impl(line: str) -> str:
    t = line.split(" ")
    op = t[0]
    if op == "ec.addjac":
        return _rj(ec_of_token(t[1]).add_jac, tuple(map(int, t[2:5])), tuple(map(int, t[5:8])))
    if op == "ec.addjacaff":
        return _rj(ec_of_token(t[1]).add_jac_aff, tuple(map(int, t[2:5])), tuple(map(int, t[5:7])))
    if op == "ec.dbljac":
        return _rj(ec_of_token(t[1]).double_jac, tuple(map(int, t[2:5])))
    if op == "ec.aff":
        r = _ra(ec_of_token(t[1]).aff_from_jac_var, tuple(map(int, t[2:5])))
        return "inf" if r.startswith("ok ") and r.endswith(" 0") else r
    if op == "ec.addaff":
        r = _ra(ec_of_token(t[1]).add_aff_var, tuple(map(int, t[2:4])), tuple(map(int, t[4:6])))
        return "inf" if r.startswith("ok ") and r.endswith(" 0") else r
    if op == "ec.oncurve":
        return common.call_impl(ec_of_token(t[1]).is_on_curve, (int(t[2]), int(t[3])))
    if op == "lad":
        _, name, c, w, m, q, extra = t
        _Secrets.blind = int(extra)
        return _rj(_LADDERS[name], ec_of_token(c), int(w), int(m), pj(q))
    if op == "lad.dmult":
        return _rj(CG._double_mult_var, int(t[2]), pj(t[3]), int(t[4]), pj(t[5]), ec_of_token(t[1]))
    if op == "lad.dreg":
        return _rj(CG2._double_mult_regular_window, int(t[4]), pj(t[5]), int(t[6]), pj(t[7]), ec_of_token(t[1]),
                   int(t[2]), int(t[3]))
    if op == "lad.dwnaf":
        ec = ec_of_token(t[1])
        return _rj(CG2._double_mult_w_NAF_var, int(t[3]), pj(t[4]), int(t[5]), pj(t[6]), ec, int(t[2]),
                   ec._fixed_points)
    if op == "lad.dendo":
        ec = ec_of_token(t[1])
        return _rj(CG2._double_mult_endomorphism_secp256k1_var, int(t[3]), pj(t[4]), int(t[5]), pj(t[6]), ec,
                   int(t[2]), ec._fixed_points)
    if op == "lad.mwnaf":
        ec = ec_of_token(t[1])
        return _rj(CG._multi_mult_w_NAF_var, pl(t[3]), pl(t[4], pj), ec, int(t[2]), ec._fixed_points)
    if op == "lad.mbc":
        return _rj(CG._multi_mult_bos_coster_var, pl(t[2]), pl(t[3], pj), ec_of_token(t[1]))
    if op == "lad.mmv":
        old = CG.BOS_COSTER_THRESHOLD
        CG.BOS_COSTER_THRESHOLD = int(t[2])
        try:
            return _rj(CG._multi_mult_var, pl(t[3]), pl(t[4], pj), ec_of_token(t[1]))
        finally:
            CG.BOS_COSTER_THRESHOLD = old
    if op == "rec.sod":
        return _rl(CG.signed_odd_digits, int(t[1]), int(t[2]), int(t[3]))
    if op == "rec.wnaf":
        return _rl(CG._wNAF_of_m, int(t[1]), int(t[2]))
    if op == "rec.mods":
        return common.call_impl(CG._mods, int(t[1]), int(t[2]))
    if op == "rec.base":
        return _rl(CG._convert_number_to_base, int(t[1]), int(t[2]))
    if op == "rec.glv":
        return common.call_impl(CG2._multiplier_decomposer, int(t[1]))
    if op == "curve.mult":
        _Secrets.blind = int(t[2])
        return _ra(C.mult, int(t[3]), pa(t[4]), curve_of_token(t[1]))
    if op == "curve.prepared":
        _Secrets.blind = int(t[2])
        return _ra(lambda m, Q, ec: C.PreparedPoint(Q, ec).mult(m), int(t[3]), pa(t[4]), curve_of_token(t[1]))
    if op == "curve.dmult":
        return _ra(C.double_mult_var, int(t[2]), pa(t[3]), int(t[4]), pa(t[5]), curve_of_token(t[1]))
    if op == "curve.mmult":
        return _ra(C.multi_mult_var, pl(t[2]), pl(t[3], pa), curve_of_token(t[1]))
    if op == "curve.sum":
        return _ra(C._sum_var, pl(t[2], pa), curve_of_token(t[1]))
    if op == "curve.tweak":
        _Secrets.blind = int(t[2])
        return _ra(C._tweak_add_var, pa(t[3]), int(t[4]), curve_of_token(t[1]))
    if op == "sec.dec":
        return _sec(SEC.point_from_octets, b"" if t[3] == "_" else bytes.fromhex(t[3]), curve_of_token(t[1]), hybrid=t[2] == "1")
    if op == "sec.enc":
        return common.call_impl(SEC.bytes_from_point, pa(t[3]), curve_of_token(t[1]), t[2] == "1", render=lambda b: b.hex())
    if op == "curve.newgroup":
        return _new(CurveGroup, int(t[1]), int(t[2]), int(t[3]))
    if op == "curve.new":
        p, a, b, gx, gy, n, h = map(int, t[1:8])
        return _new(Curve, p, a, b, (gx, gy), n, h, weakness_check=t[8] == "1", order_check=t[9] == "1")
    if op == "nt.xgcd":
        return common.call_impl(NT.xgcd_var, int(t[1]), int(t[2]))
    if op == "nt.inv":
        return common.call_impl(NT.mod_inv_var, int(t[1]), int(t[2]))
    if op == "nt.invblind":
        _Secrets.blind = int(t[3])
        return common.call_impl(NT.mod_inv, int(t[1]), int(t[2]))
    if op == "nt.invbatch":
        return _rl(NT.mod_inv_batch_var, pl(t[2]), int(t[1]))
    if op == "nt.jacobi":
        return common.call_impl(NT.legendre_symbol_var, int(t[1]), int(t[2]))
    if op == "nt.sqrt":
        return common.call_impl(NT.mod_sqrt_var, int(t[1]), int(t[2]))
    if op == "nt.tonelli":
        return common.call_impl(NT.tonelli_var, int(t[1]), int(t[2]))
    if op == "nt.isprime":
        return "true" if CG._is_prime(int(t[1])) else "false"
    return "bad-op"


# ------------------------------------------------------------------ property oracles (real code only)
def _o_ladder(w):
    """a private ladder (or the public mult) against the independent reference: m·P"""
    ec = ec_of_token(w["curve"])
    p, a = ec.p, ec._a
    Q = tuple(w["Q"])
    _Secrets.blind = w.get("blind", 1)
    try:
        R = _LADDERS[w["name"]](ec, w["w"], w["m"], Q)
    except Exception as e:  # noqa: BLE001
        refused_ok = common.err_class(e) == "value" and (w["m"] < 0 or w["w"] <= 0)
        if w["name"] == "fwpos" and isinstance(e, IndexError) and w["w"] > 0 and w["m"] >= 0:
            # documented precondition of the private _mult_fixed_window_cached_var: m reduced (one table per
            # digit position of a p_size-byte scalar); a longer scalar has no table — the model says the same
            ndig = max(1, -(-w["m"].bit_length() // w["w"]))
            refused_ok = ndig > (ec.p_size * 8) // w["w"] + 1
        if w["name"] == "fb" and w["w"] > 0 and common.err_class(e) == "value":
            # documented precondition of _mult_fixed_base: m below 2^(w * positions), positions = ceil(scalar_len / w)
            refused_ok = refused_ok or (w["m"] | 1) >> (w["w"] * -(-ec.scalar_len // w["w"])) != 0
        return refused_ok, f"{w['name']} raised {type(e).__name__}: {e}"
    want = _ref_mul(w["m"], _ref_of_jac(Q, p), p, a)
    got = _ref_of_jac(R, p)
    return got == want, f"{w['name']}(m={w['m']}, w={w['w']}) on {w['curve']} Q={Q}: got {got}, group law {want}"


def _o_public_mult(w):
    ec = curve_of_token(w["curve"])
    C.set_libsecp256k1_serving(serving=bool(w.get("serving", False)))
    try:
        Q = tuple(w["Q"])
        try:
            R = C.mult(w["m"], Q, ec)
        except Exception as e:  # noqa: BLE001
            return False, f"mult raised {type(e).__name__}: {e}"
        want = _ref_mul(w["m"] % ec.n, _aff(Q), ec.p, ec._a)
        return _aff(R) == want, f"mult({w['m']}, {Q}) on {w['curve']} serving={w.get('serving')}: got {R}, group law {want}"
    finally:
        C.set_libsecp256k1_serving(serving=False)


def _o_public_mmult(w):
    ec = curve_of_token(w["curve"])
    C.set_libsecp256k1_serving(serving=bool(w.get("serving", False)))
    try:
        ss, Ps = w["scalars"], [tuple(P) for P in w["points"]]
        try:
            R = C.multi_mult_var(ss, Ps, ec) if w.get("kind", "mmult") == "mmult" else \
                C.double_mult_var(ss[0], Ps[0], ss[1], Ps[1], ec)
        except Exception as e:  # noqa: BLE001
            ok = common.err_class(e) == "value" and len(ss) < 2
            return ok, f"multi_mult_var raised {type(e).__name__}: {e}"
        want = None
        for s, P in zip(ss, Ps):
            want = _ref_add(want, _ref_mul(s % ec.n, _aff(P), ec.p, ec._a), ec.p, ec._a)
        return _aff(R) == want, f"{w.get('kind', 'mmult')} {len(ss)} terms on {w['curve']} serving={w.get('serving')}: got {R}, group law {want}"
    finally:
        C.set_libsecp256k1_serving(serving=False)


def _o_offcurve(w):
    """a point off the curve is refused by every public entry point"""
    ec = curve_of_token(w["curve"])
    Q = tuple(w["Q"])
    outs = []
    C.set_libsecp256k1_serving(serving=bool(w.get("serving", False)))
    for name, fn in (("mult", lambda: C.mult(3, Q, ec)), ("dmult", lambda: C.double_mult_var(1, ec.G, 2, Q, ec)),
                     ("mmult", lambda: C.multi_mult_var([1, 2], [ec.G, Q], ec)),
                     ("sum", lambda: C._sum_var([ec.G, Q], ec)), ("tweak", lambda: C._tweak_add_var(Q, 5, ec)),
                     ("prepared", lambda: C.PreparedPoint(Q, ec))):
        try:
            fn()
            outs.append(name + ":answered")
        except Exception as e:  # noqa: BLE001
            if common.err_class(e) != "value":
                outs.append(name + ":" + type(e).__name__)
    C.set_libsecp256k1_serving(serving=False)
    return not outs, f"off-curve {Q} on {w['curve']} serving={w.get('serving')}: {outs}"


def _o_sod(w):
    m, wd, size = w["m"], w["w"], w["size"]
    try:
        d = CG.signed_odd_digits(m, wd, size)
    except Exception as e:  # noqa: BLE001
        should = m < 0 or wd <= 0 or m % 2 == 0 or size < 1 or (m >> (wd * size)) != 0
        return common.err_class(e) == "value" and should, f"signed_odd_digits({m},{wd},{size}) raised {e}"
    ok = (len(d) == size and sum(x << (wd * i) for i, x in enumerate(d)) == m
          and all(x % 2 == 1 and abs(x) < (1 << wd) for x in d) and d[-1] > 0)
    return ok, f"signed_odd_digits({m},{wd},{size}) = {d}"


def _o_wnaf(w):
    m, wd = w["m"], w["w"]
    d = CG._wNAF_of_m(m, wd)
    ok = sum(x << i for i, x in enumerate(d)) == m
    bound = 2 if wd == 1 else 1 << (wd - 1)
    ok = ok and all(x == 0 or (x % 2 == 1 and abs(x) < bound) for x in d)
    nz = [i for i, x in enumerate(d) if x]
    ok = ok and all(j - i >= max(wd, 2) for i, j in zip(nz, nz[1:]))
    return ok, f"_wNAF_of_m({m},{wd}) = {d}"


def _o_glv(w):
    m = w["m"]
    m1, m2 = CG2._multiplier_decomposer(m)
    ok = (m1 + m2 * CG2._LAM - m) % CG2._N == 0 and abs(m1) < 2 ** 128 and abs(m2) < 2 ** 128
    return ok, f"_multiplier_decomposer({m}) = {m1}, {m2}"


def _o_inv(w):
    a, m = w["a"], w["m"]
    from math import gcd
    outs = []
    _Secrets.blind = w.get("blind", 1)
    for name, fn in (("mod_inv_var", NT.mod_inv_var), ("mod_inv", NT.mod_inv)):
        try:
            x = fn(a, m)
        except Exception as e:  # noqa: BLE001
            if not (common.err_class(e) == "value" and (m < 1 or gcd(a, m) != 1)):
                outs.append(f"{name} raised {type(e).__name__}")
            continue
        if not (0 <= x < m and (a * x - 1) % m == 0):
            outs.append(f"{name} = {x}")
    return not outs, f"inverse of {a} mod {m}: {outs}"


def _o_invbatch(w):
    a, m = w["a"], w["m"]
    _Secrets.blind = w.get("blind", 1)
    outs = []
    for name, fn in (("mod_inv_batch_var", NT.mod_inv_batch_var), ("mod_inv_batch", NT.mod_inv_batch)):
        try:
            want = [pow(x, -1, m) for x in a]
        except ValueError:
            want = None
        try:
            got = fn(a, m)
        except Exception as e:  # noqa: BLE001
            got = None
            if common.err_class(e) != "value":
                outs.append(f"{name} raised {type(e).__name__}")
        if got != want:
            outs.append(f"{name} = {got}, expected {want}")
    return not outs, f"batch inverse of {a} mod {m}: {outs}"


def _o_sqrt(w):
    a, p = w["a"], w["p"]
    residue = any(r * r % p == a % p for r in range(p)) if p < 5000 else pow(a % p, (p - 1) // 2, p) in (0, 1)
    outs = []
    for name, fn in (("mod_sqrt_var", NT.mod_sqrt_var), ("tonelli_var", NT.tonelli_var)):
        try:
            r = fn(a, p)
        except Exception as e:  # noqa: BLE001
            if not (common.err_class(e) == "value" and not residue):
                outs.append(f"{name} raised {type(e).__name__}: {e}")
            continue
        if not (0 <= r < p and r * r % p == a % p):
            outs.append(f"{name} = {r}")
    return not outs, f"sqrt of {a} mod {p} (residue={residue}): {outs}"


def _o_jacobi(w):
    a, p = w["a"], w["p"]
    got = NT.legendre_symbol_var(a, p)
    # independent: product of Euler-criterion Legendre symbols over the prime factorisation of odd p
    want, q, d = 1, p, 3
    fs = []
    while q > 1 and d * d <= q:
        while q % d == 0:
            fs.append(d)
            q //= d
        d += 2
    if q > 1:
        fs.append(q)
    for f in fs:
        e = pow(a % f, (f - 1) // 2, f)
        want *= -1 if e == f - 1 else e
    return got == want, f"legendre_symbol_var({a},{p}) = {got}, Jacobi symbol {want}"


def _o_pseudoprime(w):
    """a malformed curve (composite p) is refused"""
    p = w["p"]
    try:
        CurveGroup(p, w["a"], w["b"])
    except Exception as e:  # noqa: BLE001
        return common.err_class(e) == "value", f"CurveGroup({p},..) raised {type(e).__name__}"
    return False, f"CurveGroup({p}, {w['a']}, {w['b']}) accepted although {p} is composite"


def _o_malformed(w):
    """a malformed curve is refused (every case other than a base-2 Fermat liar for p or n)"""
    args = w["args"]
    try:
        if len(args) == 3:
            CurveGroup(*args)
        else:
            Curve(args[0], args[1], args[2], (args[3], args[4]), args[5], args[6], weakness_check=bool(w.get("weak", 0)))
    except Exception as e:  # noqa: BLE001
        return common.err_class(e) == "value", f"{w['kind']}: raised {type(e).__name__}: {e}"
    return False, f"curve {args} accepted although malformed ({w['kind']})"


def _o_sec(w):
    """whatever point_from_octets returns is a reduced point of the curve (never infinity) that re-encodes to the
    input in the form the prefix names; whatever bytes_from_point encodes decodes back"""
    ec = curve_of_token(w["curve"])
    b = bytes.fromhex(w["hex"])
    hyb = bool(w["hybrid"])
    C.set_libsecp256k1_serving(serving=bool(w.get("serving", False)))
    try:
        try:
            Q = SEC.point_from_octets(b, ec, hybrid=hyb)
        except Exception as e:  # noqa: BLE001
            ok = common.err_class(e) == "value"
            if ok and w.get("canonical"):
                return False, f"canonical encoding {b.hex()} refused: {e}"
            return ok, f"raised {type(e).__name__}"
        p = ec.p
        if not (isinstance(Q, tuple) and len(Q) == 2 and 0 <= Q[0] < p and 0 < Q[1] < p):
            return False, f"point_from_octets({b.hex()}, hybrid={hyb}) = {Q}: coordinates out of range"
        if (Q[1] * Q[1] - (Q[0] ** 3 + ec._a * Q[0] + ec._b)) % p:
            return False, f"point_from_octets({b.hex()}, hybrid={hyb}) = {Q}: not on the curve"
        pre = b[0]
        if pre in (2, 3):
            want = bytes([2 + (Q[1] & 1)]) + Q[0].to_bytes(ec.p_size, "big")
        else:
            want = bytes([pre]) + Q[0].to_bytes(ec.p_size, "big") + Q[1].to_bytes(ec.p_size, "big")
            if pre in (6, 7) and (not hyb or (Q[1] & 1) != pre - 6):
                return False, f"hybrid prefix {pre} accepted with hybrid={hyb}, y parity {Q[1] & 1}"
            if pre not in (4, 6, 7):
                return False, f"prefix {pre} accepted"
        if want != b:
            return False, f"point_from_octets({b.hex()}) = {Q} re-encodes to {want.hex()}"
        for comp in (True, False):
            enc = SEC.bytes_from_point(Q, ec, comp)
            if SEC.point_from_octets(enc, ec) != Q:
                return False, f"bytes_from_point({Q}, compressed={comp}) does not decode back"
        return True, f"{b.hex()} -> {Q}"
    finally:
        C.set_libsecp256k1_serving(serving=False)


ORACLES = {"sec.codec": _o_sec, "curve.malformed_refused": _o_malformed, "ladder.grouplaw": _o_ladder, "mult.grouplaw": _o_public_mult, "mmult.grouplaw": _o_public_mmult,
           "offcurve.refused": _o_offcurve, "recode.sod": _o_sod, "recode.wnaf": _o_wnaf, "recode.glv": _o_glv,
           "nt.inverse": _o_inv, "nt.batch": _o_invbatch, "nt.sqrt": _o_sqrt, "nt.jacobi": _o_jacobi,
           "curvegroup.composite_refused": _o_pseudoprime}


# ------------------------------------------------------------------ generators
def jac_orbit(P, p, scalings):
    """Jacobian representatives (l^2 x, l^3 y, l) of an affine point (y may be 0: 2-torsion)"""
    return [(P[0] * l * l % p, P[1] * l * l * l % p, l % p) for l in scalings]


INF_REPS = [INFJ, (5, 0, 0), (0, 1, 0), (3, 2, 0)]


def scalar_classes(rng, n, nlen):
    out = [0, 1, 2, 3, n - 2, n - 1, n, n + 1, 2 * n, 2 * n + 1, 3 * n - 1, (1 << nlen) - 1, 1 << (nlen - 1),
           (1 << (nlen - 1)) - 1, (1 << (nlen - 1)) + 1, 1 << (nlen + 9), (1 << (nlen + 9)) + rng.getrandbits(nlen),
           rng.randrange(n), rng.randrange(n), rng.getrandbits(nlen // 2 + 1),
           int("55" * (nlen // 8 + 1), 16) % n, int("aa" * (nlen // 8 + 1), 16) % n]
    k = rng.randrange(1, nlen)
    out += [1 << k, (1 << k) - 1, (1 << k) + 1]
    return out


def _rand_point(rng, ec):
    """a random point of the prime-order subgroup of a real Curve, via a Python-path multiplication"""
    k = rng.randrange(1, ec.n)
    return ec.aff_from_jac_var(CG._mult_jac_var(k, ec.GJ, ec))


def _run_jac(ctx, rng):
    """jac.add / addaff / dbl: all toy curves, all pairs of representatives"""
    full_p = 7 if ctx.tier == "quick" else 11
    pmax = 31 if ctx.tier == "quick" else 101
    lines_add, lines_aff, lines_dbl = [], [], []
    for p, a, b in all_toy_params(pmax):
        if ctx.tier == "quick" and p > 13 and rng.random() < 0.94:
            continue  # quick: every p <= 31, every (a, b) up to 7, and a seeded 6 % of them above 13 (all in thorough)
        if ctx.tier == "quick" and 7 < p <= 13 and a not in (0, p - 3) and rng.random() < 0.5:
            continue  # quick, p = 11, 13: the two special a-classes always, a seeded half of the general ones
        if ctx.tier != "quick" and p > 31 and rng.random() > 40 / (p * p):
            continue  # thorough: every (a, b) up to p = 31, some forty seeded curves for each p up to 101
        pts = toy_points(p, a, b)
        tok = tok_group(p, a, b)
        scal = [1, 2 % p or 1, 3 % p or 1] if p > 3 else [1, 2]
        reps = [r for P in pts for r in jac_orbit(P, p, scal)] + INF_REPS
        if p <= full_p:
            pairs = itertools.product(reps, reps)
        else:
            # every representative against: itself, another representative of the same point, its opposite,
            # two spellings of infinity, and random others
            pairs = []
            budget = 2 if ctx.tier == "quick" else 6
            sample = reps if (p <= 13 or ctx.tier != "quick") else rng.sample(reps, min(len(reps), 24))
            for Q in sample:
                l = rng.choice(scal)
                same = (Q[0] * l * l % p, Q[1] * l * l * l % p, Q[2] * l % p)
                opp = (same[0], (-same[1]) % p, same[2])
                pairs += [(Q, Q), (Q, same), (Q, opp), (Q, INFJ), ((5, 0, 0), Q)]
                pairs += [(Q, rng.choice(reps)) for _ in range(budget)]
        for Q, R in pairs:
            lines_add.append(f"ec.addjac {tok} {Q[0]} {Q[1]} {Q[2]} {R[0]} {R[1]} {R[2]}")
            if R[2] in (0, 1):
                lines_aff.append(f"ec.addjacaff {tok} {Q[0]} {Q[1]} {Q[2]} {R[0]} {R[1] if R[2] else 0}")
        for Q in (reps if p <= 13 or ctx.tier != "quick" else rng.sample(reps, min(len(reps), 24))):
            lines_dbl.append(f"ec.dbljac {tok} {Q[0]} {Q[1]} {Q[2]}")
    ctx.stream("jac.add", lines_add)
    ctx.stream("jac.addaff", lines_aff)
    ctx.stream("jac.dbl", lines_dbl)
    ctx.exhaustive_streams += ["jac.add (p <= %d all pairs of representatives)" % full_p, "jac.dbl"]
    # catalogued curves: generator multiples in random representatives, incl. equal / opposite / infinity
    lines = []
    for name in sorted(CURVES):
        ec = CURVES[name]
        P1 = CG._mult_jac_var(rng.randrange(1, ec.n), ec.GJ, ec)
        P2 = CG._mult_jac_var(rng.randrange(1, ec.n), ec.GJ, ec)
        l = rng.randrange(1, ec.p)
        P1b = (P1[0] * l * l % ec.p, P1[1] * l * l * l % ec.p, P1[2] * l % ec.p)
        for Q, R in ((P1, P2), (P1, P1b), (P1, ec.negate_jac(P1b)), (P1, INFJ), (INFJ, P2), (INFJ, (5, 0, 0)), (ec.GJ, ec.GJ)):
            lines.append(f"ec.addjac {name} {Q[0]} {Q[1]} {Q[2]} {R[0]} {R[1]} {R[2]}")
        A = ec.aff_from_jac_var(P2)
        for Q, R in ((P1, A), (P2, A), (ec.negate_jac(P2), A), (INFJ, A), (P1, INF)):
            lines.append(f"ec.addjacaff {name} {Q[0]} {Q[1]} {Q[2]} {R[0]} {R[1]}")
        lines.append(f"ec.dbljac {name} {P1[0]} {P1[1]} {P1[2]}")
        lines.append(f"ec.aff {name} {P1[0]} {P1[1]} {P1[2]}")
    ctx.stream("jac.catalogue", lines)


SINGLE = ["rec", "jacvar", "mont", "base3", "fw", "fwc", "fwpos", "reg", "mult", "fb", "slide", "wnaf"]


def _widths(name, rng, quick):
    if name in ("rec", "jacvar", "mont", "base3", "mult"):
        return [0]
    if name == "fwc":
        return [1, 2, 3, 4, 5]
    ws = [1, 2, 3, 4, 5, 6, 7]
    return ws


def _run_toy_ladders(ctx, rng):
    """every ladder x every prime-order subgroup of every toy curve x scalars -2n..3n"""
    pmax = 13 if ctx.tier == "quick" else 31
    lines = {k: [] for k in SINGLE}
    dlines, mlines = [], []
    params = list(all_toy_params(pmax))
    if ctx.tier == "quick":
        # all curves with p <= 7 (issue 171), a seeded eighth of the rest
        params = [q for q in params if q[0] <= 7] + [q for q in params if q[0] > 7 and rng.random() < 0.12]
    else:
        params = [q for q in params if q[0] <= 13] + [q for q in params if q[0] > 13 and rng.random() < 0.1]
    n_sub = 0
    for p, a, b in params:
        tc = toy_curve(p, a, b)
        for n, G in tc["subs"]:
            n_sub += 1
            tok = tok_sub(p, a, b, G, n)
            ec = ec_of_token(tok)
            pts = [CG._mult_jac_var(k, ec.GJ, ec) for k in (1, rng.randrange(1, n))]
            l = rng.randrange(1, p)
            pts[1] = (pts[1][0] * l * l % p, pts[1][1] * l * l * l % p, pts[1][2] * l % p)
            pts.append(rng.choice(INF_REPS))
            for name in SINGLE:
                for w in _widths(name, rng, True):
                    scal = range(-2 * n, 3 * n + 1) if (w in (0, 1, 4) or rng.random() < 0.15) else \
                        rng.sample(range(0, 3 * n + 1), min(6, 3 * n))
                    for m in scal:
                        Q = pts[(m + w) % len(pts)]
                        lam = 1 + (m * 7 + w) % (p - 1)
                        ln = f"lad {name} {tok} {w} {m} {jtok(Q)} {lam}"
                        lines[name].append(ln)
                        if m >= 0 and (m + w) % 5 == 0:
                            ctx.check("ladder.grouplaw", {"curve": tok, "name": name, "w": w, "m": m, "Q": list(Q), "blind": lam})
            # double / multi multiplications
            for _ in range(6):
                u, v = rng.randrange(0, 3 * n), rng.randrange(0, 3 * n)
                H, Q = rng.choice(pts), rng.choice(pts)
                w = rng.randrange(1, 7)
                dlines.append(f"lad.dmult {tok} {u} {jtok(H)} {v} {jtok(Q)}")
                dlines.append(f"lad.dreg {tok} {w} {rng.choice([0, 1, 3, 9])} {u} {jtok(H)} {v} {jtok(Q)}")
                dlines.append(f"lad.dwnaf {tok} {w} {u} {jtok(H)} {v} {jtok(Q)}")
            for k in (2, 3, 5):
                ss = [rng.choice([0, 1, n - 1, n, rng.randrange(0, 2 * n)]) for _ in range(k)]
                Ps = [rng.choice(pts) for _ in range(k)]
                w = rng.randrange(1, 7)
                mlines.append(f"lad.mwnaf {tok} {w} {ltok(ss)} {ltok(Ps, jtok)}")
                mlines.append(f"lad.mbc {tok} {ltok(ss)} {ltok(Ps, jtok)}")
                mlines.append(f"lad.mmv {tok} {rng.choice([0, 1, 2, 3, 4, 56])} {ltok(ss)} {ltok(Ps, jtok)}")
    ctx.count("toy", "prime-order subgroups", n_sub)
    for name in SINGLE:
        ctx.stream("ladder." + name, lines[name])
    ctx.stream("ladder.double", dlines)
    ctx.stream("ladder.multi", mlines)


def _run_catalogue_ladders(ctx, rng):
    quick = ctx.tier == "quick"
    names = sorted(CURVES)
    lines = {k: [] for k in SINGLE + ["endo", "endovar"]}
    dlines, mlines = [], []
    for name in names:
        ec = CURVES[name]
        n, nlen = ec.n, ec.nlen
        P = CG._mult_jac_var(rng.randrange(1, n), ec.GJ, ec)
        l = rng.randrange(1, ec.p)
        P = (P[0] * l * l % ec.p, P[1] * l * l * l % ec.p, P[2] * l % ec.p)
        pts = [ec.GJ, P, INFJ]
        scal = scalar_classes(rng, n, nlen)
        big = nlen > 300
        algos = ["mult", "reg", "fb", "jacvar", "wnaf", "mont"] if quick else SINGLE
        if quick and big:
            # quick: on the curves above 300 bits (a fixed-base table there costs the model ~0.1 s a line) `mult` and a
            # seeded half of the other ladders; every ladder on every curve is the thorough tier
            algos = ["mult"] + rng.sample(algos[1:], 2)
        for alg in algos:
            ws = {"reg": [1, 4, 7], "fb": [4, 6], "wnaf": [1, 2, 5], "fw": [1, 4], "fwc": [4, 5], "fwpos": [4],
                  "slide": [1, 4, 5]}.get(alg, [0])
            if quick and alg == "fb":
                ws = [rng.choice(ws)]  # quick: one seeded table width a curve, both in thorough
            for w in ws:
                k = (3 if (big or alg != "mult") else 10) if quick else (len(scal) if not big else 8)
                if quick and alg == "fb":
                    k = 1
                for m in rng.sample(scal, min(k, len(scal))):
                    if alg in ("rec",) and m.bit_length() > 600:
                        continue
                    if alg == "fb" and m.bit_length() > nlen:
                        m %= n
                    Q = pts[rng.randrange(3)] if alg != "fb" else pts[rng.randrange(2)]
                    lam = rng.randrange(1, ec.p)
                    lines[alg].append(f"lad {alg} {name} {w} {m} {jtok(Q)} {lam}")
                    if rng.random() < (0.15 if quick else 0.5):
                        ctx.check("ladder.grouplaw", {"curve": name, "name": alg, "w": w, "m": m, "Q": list(Q), "blind": lam})
        u, v = rng.choice(scal) % (n << 3), rng.choice(scal) % (n << 3)
        H, Q = rng.choice(pts), rng.choice(pts)
        dlines.append(f"lad.dmult {name} {u} {jtok(H)} {v} {jtok(Q)}")
        dlines.append(f"lad.dreg {name} {rng.choice([3, 4, 5])} 0 {u} {jtok(H)} {v} {jtok(Q)}")
        dlines.append(f"lad.dwnaf {name} {rng.choice([2, 4, 5])} {u} {jtok(H)} {v} {jtok(Q)}")
        if not (quick and big):
            k = rng.choice([2, 3, 4])
            ss = [rng.choice(scal) % n for _ in range(k)]
            Ps = [rng.choice(pts) for _ in range(k)]
            mlines.append(f"lad.mwnaf {name} {rng.choice([3, 5])} {ltok(ss)} {ltok(Ps, jtok)}")
            mlines.append(f"lad.mbc {name} {ltok(ss)} {ltok(Ps, jtok)}")
    # secp256k1: GLV
    ec = secp256k1
    scal = scalar_classes(rng, ec.n, ec.nlen)
    for m in scal + [rng.randrange(ec.n) for _ in range(ctx.n(10, 200))]:
        P = CG._mult_jac_var(rng.randrange(1, ec.n), ec.GJ, ec)
        Q = rng.choice([ec.GJ, P, P, INFJ])
        w = rng.choice([1, 3, 4, 5])
        lines["endo"].append(f"lad endo secp256k1 {w} {m} {jtok(Q)} 1")
        lines["endovar"].append(f"lad endovar secp256k1 {w} {m} {jtok(Q)} 1")
        ctx.check("ladder.grouplaw", {"curve": "secp256k1", "name": rng.choice(["endo", "endovar"]), "w": w, "m": m, "Q": list(Q)})
        v = rng.choice(scal)
        dlines.append(f"lad.dendo secp256k1 {w} {m} {jtok(Q)} {v} {jtok(rng.choice([ec.GJ, P, INFJ]))}")
    for k in SINGLE + ["endo", "endovar"]:
        if lines[k]:
            ctx.stream("ladder." + k + ".catalogue", lines[k])
    ctx.stream("ladder.double.catalogue", dlines)
    ctx.stream("ladder.multi.catalogue", mlines)


def _run_multi(ctx, rng):
    """multi-mult term counts on both sides of the threshold, with zero / infinite / cancelling members"""
    counts = [2, 3, 55, 56, 57, 70] if ctx.tier == "quick" else list(range(2, 131, 3)) + [55, 56, 57]
    lines, pub = [], []
    toks = []
    for p, a, b in [(13, 0, 2), (23, 1, 1), (31, 2, 3)]:
        tc = toy_curve(p, a, b)
        if tc["subs"]:
            n, G = tc["subs"][-1]
            toks.append((tok_sub(p, a, b, G, n), n))
    curves = [(t, n) for t, n in toks] + [("secp256k1", secp256k1.n), ("secp256r1", CURVES["secp256r1"].n)]
    for tok, n in curves:
        ec = ec_of_token(tok)
        for k in counts:
            if tok == "secp256r1" and ctx.tier == "quick" and k not in (2, 56):
                continue
            base = [CG._mult_jac_var(rng.randrange(1, n), ec.GJ, ec) for _ in range(4)] + [INFJ, ec.GJ]
            ss = [rng.choice([0, 1, n - 1, rng.randrange(n), rng.randrange(n)]) for _ in range(k)]
            Ps = [rng.choice(base) for _ in range(k)]
            if k >= 2 and rng.random() < 0.5:  # a cancelling pair
                ss[1], Ps[1] = ss[0], ec.negate_jac(Ps[0])
            if rng.random() < 0.3:  # all non-zero, so the count of non-zero scalars is k exactly
                ss = [s or 1 for s in ss]
            lines.append(f"lad.mmv {tok} {CG.BOS_COSTER_THRESHOLD} {ltok(ss)} {ltok(Ps, jtok)}")
            lines.append(f"lad.mmv {tok} {rng.choice([0, 1, k, k + 1, 1000])} {ltok(ss)} {ltok(Ps, jtok)}")
            if tok in CURVES:
                aff = [ec.aff_from_jac_var(P) for P in Ps]
                pub.append((tok, ss, aff))
    ctx.stream("ladder.dispatch", lines)
    return pub


def _run_entry(ctx, rng, pub):
    """public entry points: model vs real code on the Python path AND the same lines with the bindings serving"""
    lines = []
    real_curves = []
    for p, a, b in [(7, 0, 3), (7, 6, 1), (5, 2, 1), (13, 7, 6), (17, 6, 8), (19, 14, 10), (23, 1, 1), (29, 4, 9), (31, 2, 3)]:
        tc = toy_curve(p, a, b)
        for n, G in tc["subs"]:
            delta = isqrt(4 * p)
            h = (1 + delta + p) // n
            tok = tok_sub(p, a, b, G, n, h)
            try:
                curve_of_token(tok)
            except Exception:  # noqa: BLE001 - the constructor refuses this subgroup (cofactor/Hasse): not a Curve
                continue
            real_curves.append((tok, n, p, a, b))
    ctx.count("entry", "toy Curve objects", len(real_curves))
    for tok, n, p, a, b in real_curves:
        ec = curve_of_token(tok)
        pts = [ec.aff_from_jac_var(CG._mult_jac_var(k, ec.GJ, ec)) for k in range(n)]
        allpts = [P for P in toy_points(p, a, b) if P[1]]
        off = [(x, y) for x in range(p) for y in range(1, p) if (x, y) not in allpts][:3] + [(0, p), (1, -1)]
        off += [(pts[1][0] + p, pts[1][1]), (pts[1][0] - p, pts[1][1])]  # x outside 0..p-1 (congruent to a point)
        for m in range(-2 * n, 3 * n + 1):
            Q = pts[m % n]
            lam = 1 + (m % (p - 1))
            lines.append(f"curve.mult {tok} {lam} {m} {atok(Q)}")
            if m % 3 == 0:
                lines.append(f"curve.prepared {tok} {lam} {m} {atok(Q)}")
                lines.append(f"curve.tweak {tok} {lam} {atok(Q)} {m}")
                ctx.check("mult.grouplaw", {"curve": tok, "m": m, "Q": list(Q)})
        for Q in off:
            lines.append(f"curve.mult {tok} 1 3 {atok(Q)}")
            lines.append(f"curve.dmult {tok} 1 {atok(ec.G)} 2 {atok(Q)}")
            lines.append(f"curve.sum {tok} {atok(ec.G)},{atok(Q)}")
            lines.append(f"curve.tweak {tok} 1 {atok(Q)} 2")
            lines.append(f"curve.prepared {tok} 1 2 {atok(Q)}")
            if 0 < Q[1] < p:
                ctx.check("offcurve.refused", {"curve": tok, "Q": list(Q)},
                          key="curve.x_out_of_range" if not 0 <= Q[0] < p else None)
        for _ in range(20):
            u, v = rng.randrange(-n, 2 * n), rng.randrange(-n, 2 * n)
            H, Q = rng.choice(pts), rng.choice(pts)
            lines.append(f"curve.dmult {tok} {u} {atok(H)} {v} {atok(Q)}")
            k = rng.choice([0, 1, 2, 3, 5])
            ss = [rng.randrange(-n, 2 * n) for _ in range(k)]
            Ps = [rng.choice(pts) for _ in range(k)]
            lines.append(f"curve.mmult {tok} {ltok(ss)} {ltok(Ps, atok)}")
            lines.append(f"curve.sum {tok} {ltok(Ps, atok)}")
            if k >= 2:
                ctx.check("mmult.grouplaw", {"curve": tok, "scalars": ss, "points": [list(P) for P in Ps]})
        lines.append(f"curve.mmult {tok} 1,2 {atok(ec.G)}")
    ctx.stream("curve.entry.toy", lines)
    # catalogued curves, Python path and bindings
    lines = []
    for name in sorted(CURVES):
        ec = CURVES[name]
        n = ec.n
        scal = scalar_classes(rng, n, ec.nlen) + [-1, -n, -n - 5]
        big = ec.nlen > 300
        P = _rand_point(rng, ec)
        k = (1 if big else 3) if ctx.tier == "quick" else len(scal)
        for m in rng.sample(scal, min(k, len(scal))):
            Q = rng.choice([ec.G, P, P, INF])
            lam = rng.randrange(1, ec.p)
            lines.append(f"curve.mult {name} {lam} {m} {atok(Q)}")
            ctx.check("mult.grouplaw", {"curve": name, "m": m, "Q": list(Q)})
        m, v = rng.choice(scal), rng.choice(scal)
        lines.append(f"curve.dmult {name} {m} {atok(rng.choice([ec.G, P, INF]))} {v} {atok(rng.choice([ec.G, P, INF]))}")
        if not (big and ctx.tier == "quick") or rng.random() < 0.3:  # quick: a seeded third of the curves above 300 bits
            lines.append(f"curve.prepared {name} 1 {m} {atok(P)}")
        if not (big and ctx.tier == "quick"):
            lines.append(f"curve.tweak {name} 1 {atok(rng.choice([P, INF]))} {v}")
        lines.append(f"curve.sum {name} {atok(P)},{atok(ec.G)},{atok(ec.negate(P))},{atok(INF)}")
        lines.append(f"curve.mult {name} 1 5 {P[0]}:{(P[1] + 1) % ec.p or 1}")
        ctx.check("offcurve.refused", {"curve": name, "Q": [P[0], (P[1] + 1) % ec.p or 1]})
    ctx.stream("curve.entry.catalogue", lines)
    # secp256k1 under both backends: the same op lines, the model is the Python-path model, so agreement of the
    # bindings with it is agreement with m•P
    ec = secp256k1
    lines = []
    scal = scalar_classes(rng, ec.n, ec.nlen) + [-1, -ec.n]
    for _ in range(ctx.n(12, 300)):
        P = _rand_point(rng, ec)
        m, v = rng.choice(scal), rng.choice(scal)
        Q = rng.choice([ec.G, P, INF])
        lines.append(f"curve.mult secp256k1 1 {m} {atok(Q)}")
        lines.append(f"curve.dmult secp256k1 {m} {atok(Q)} {v} {atok(rng.choice([ec.G, P, INF, ec.negate(P)]))}")
        if ctx.tier != "quick" or rng.random() < 0.5:  # mult(t, G) is a fixed-base table in the model: sampled in quick
            lines.append(f"curve.tweak secp256k1 1 {atok(rng.choice([P, INF, ec.negate(ec.G)]))} {rng.choice([m, 1, 0, ec.n - 1])}")
        lines.append(f"curve.sum secp256k1 {atok(P)},{atok(Q)},{atok(ec.negate(P))}")
        if ctx.tier != "quick" or rng.random() < 0.4:  # a fixed-base table per fresh point: sampled in quick
            lines.append(f"curve.prepared secp256k1 1 {m} {atok(P)}")
    for sv in (False, True) if C._bindings_installed else (False,):  # x outside 0..p-1: refused by both backends
        P = _rand_point(rng, ec)
        for Q in ((P[0] + ec.p, P[1]), (P[0] - ec.p, P[1]), (ec.G[0] + ec.p, ec.G[1])):
            ctx.check("offcurve.refused", {"curve": "secp256k1", "Q": list(Q), "serving": sv},
                      key="curve.x_out_of_range_backend_divergence")
            if not sv:
                lines.append(f"curve.mult secp256k1 1 7 {atok(Q)}")
                lines.append(f"curve.dmult secp256k1 2 {atok(ec.G)} 3 {atok(Q)}")
    # scalars that are non-zero multiples of n reduce to 0: the term drops out, under both backends
    for _ in range(ctx.n(4, 40)):
        P, P2 = _rand_point(rng, ec), _rand_point(rng, ec)
        for ss in ([ec.n, 5], [3, 2 * ec.n], [-ec.n, ec.n], [ec.n, rng.randrange(1, ec.n), 7 * ec.n]):
            Ps = [P, P2, ec.G][: len(ss)]
            lines.append(f"curve.mmult secp256k1 {ltok(ss)} {ltok(Ps, atok)}")
            for sv in (False, True) if C._bindings_installed else (False,):
                ctx.check("mmult.grouplaw", {"curve": "secp256k1", "scalars": ss, "points": [list(Q) for Q in Ps],
                                             "serving": sv}, key="mmult.multiple_of_n")
            if len(ss) == 2:
                lines.append(f"curve.dmult secp256k1 {ss[0]} {atok(Ps[0])} {ss[1]} {atok(Ps[1])}")
                ctx.check("mmult.grouplaw", {"curve": "secp256k1", "scalars": ss, "points": [list(Q) for Q in Ps],
                                             "serving": True, "kind": "dmult"}, key="dmult.multiple_of_n")
    for tok, ss, aff in pub:
        if tok == "secp256k1":
            lines.append(f"curve.mmult secp256k1 {ltok(ss)} {ltok(aff, atok)}")
            ctx.check("mmult.grouplaw", {"curve": tok, "scalars": ss, "points": [list(P) for P in aff], "serving": True})
        elif len(ss) in (2, 56):
            ctx.check("mmult.grouplaw", {"curve": tok, "scalars": ss, "points": [list(P) for P in aff]})
    outs = ctx.stream("curve.entry.secp256k1.python", lines)
    if C._bindings_installed:
        C.set_libsecp256k1_serving(serving=True)
        try:
            # the same op lines with the bindings serving, against the model outputs already computed
            _correspond_cached(ctx, "curve.entry.secp256k1.libsecp256k1", lines, outs)
            for _ in range(ctx.n(20, 200)):
                P = _rand_point(rng, ec)
                ctx.check("mult.grouplaw", {"curve": "secp256k1", "m": rng.choice(scal), "Q": list(rng.choice([ec.G, P])), "serving": True})
        finally:
            C.set_libsecp256k1_serving(serving=False)
    else:
        ctx.note("btclib_secp256k1 bindings not installed: libsecp256k1 backend not exercised")
    # delegation guards: model of the routing condition vs what the code does (observed by making the bindings raise)
    glines = []
    for sv in (0, 1):
        for m in (0, 1, 5):
            for isg in (0, 1):
                for isinf in (0, 1):
                    glines.append(f"curve.delegates mult {sv} {m} {isg},{isinf}")
    ctx.correspond("curve.guards", EXE, [(ln, _guard_impl(ln)) for ln in glines])


def _correspond_cached(ctx, stream, lines, outs):
    """ctx.correspond with model outputs computed earlier for the same op lines (the model has no backend)"""
    st = ctx.streams.setdefault(stream, {"cases": 0, "mismatches": 0, "model": EXE if outs is not None else None})
    st["cases"] += len(lines)
    for i, ln in enumerate(lines):
        got = impl(ln)
        ctx.seen(stream, ln, not got.startswith("err"))
        ctx.count(stream, got.split(" ")[0])
        if outs is None:
            continue
        ctx.traces += 1
        if outs[i] != got:
            st["mismatches"] += 1
            ctx.fail("correspondence", stream, f"model and implementation (bindings serving) differ on `{ln[:300]}`",
                     key=stream, op_line=ln, impl=got[:2000], model=outs[i][:2000])


def _guard_impl(line):
    """observe whether `mult` reaches the bindings: replace them by a probe"""
    _, kind, sv, ms, infs = line.split(" ")
    ec = secp256k1
    hit = []
    old = (C.libsecp256k1_pubkey_from_prvkey, C._libsecp256k1_multi_mult, C._libsecp256k1_available)
    C.libsecp256k1_pubkey_from_prvkey = lambda m, compressed=False: (hit.append(1), C._sec_from_point(ec.G))[1]
    C._libsecp256k1_multi_mult = lambda s, p: (hit.append(1), ec.G)[1]
    C._libsecp256k1_available = sv == "1"
    try:
        m = int(ms)
        isg, isinf = (int(x) for x in infs.split(","))
        if isg and isinf:
            return "false" if not (m and sv == "1") else "true"  # G is never infinity: the model's isG wins
        Q = ec.G if isg else (INF if isinf else ec.negate(ec.G))
        C.mult(m, Q, ec)
    finally:
        C.libsecp256k1_pubkey_from_prvkey, C._libsecp256k1_multi_mult, C._libsecp256k1_available = old
    return "true" if hit else "false"


def _run_recodings(ctx, rng):
    sod, wn, md, base, glv = [], [], [], [], []
    ms = list(range(0, 70)) + [rng.getrandbits(b) for b in (8, 16, 31, 64, 128, 255, 256, 257, 521) for _ in range(3)]
    for m in ms:
        for w in range(1, 8):
            for size in {1, 2, 3, (m.bit_length() + w - 1) // w or 1, (m.bit_length() + w - 1) // w + 2}:
                sod.append(f"rec.sod {m} {w} {size}")
                ctx.check("recode.sod", {"m": m, "w": w, "size": size}, nontrivial=m % 2 == 1)
                sod.append(f"rec.sod {m | 1} {w} {size}")
                ctx.check("recode.sod", {"m": m | 1, "w": w, "size": size})
            wn.append(f"rec.wnaf {m} {w}")
            ctx.check("recode.wnaf", {"m": m, "w": w})
            md.append(f"rec.mods {m} {w}")
            md.append(f"rec.mods {-m} {w}")
        for b in (2, 3, 4, 16, 32, 7):
            base.append(f"rec.base {m} {b}")
    sod += ["rec.sod -3 4 2", "rec.sod 5 0 2", "rec.sod 5 -1 2", "rec.sod 5 2 0", "rec.sod 255 4 1"]
    N = CG2._N
    gl = [0, 1, 2, N - 1, N, N + 1, -1, -N, 2 * N + 3, 1 << 127, 1 << 128, (1 << 128) - 1, (1 << 256) - 1, 1 << 300]
    gl += [rng.randrange(N) for _ in range(ctx.n(300, 5000))]
    for m in gl:
        glv.append(f"rec.glv {m}")
        ctx.check("recode.glv", {"m": m})
    ctx.stream("recode.sod", sod)
    ctx.stream("recode.wnaf", wn)
    ctx.stream("recode.mods", md)
    ctx.stream("recode.base", base)
    ctx.stream("recode.glv", glv)


def _run_nt(ctx, rng):
    inv, blind, batch, jac, sq, xg = [], [], [], [], [], []
    mmax = 60 if ctx.tier == "quick" else 300
    for m in range(-1, mmax + 1):
        for a in range(-m - 1, 2 * m + 2) if m > 0 else (0, 1, 5):
            inv.append(f"nt.inv {a} {m}")
            if m >= 1:
                b = 1 + (a * 3 + m) % max(m - 1, 1) if m > 1 else 1
                blind.append(f"nt.invblind {a} {m} {b}")
                if (a + m) % 7 == 0:
                    ctx.check("nt.inverse", {"a": a, "m": m, "blind": b})
                jac.append(f"nt.jacobi {a} {m}")
                if m % 2 == 1 and a % 3 == 0:
                    ctx.check("nt.jacobi", {"a": a, "p": m})
            xg.append(f"nt.xgcd {a} {m}")
    cat_p = sorted({CURVES[c].p for c in CURVES} | {CURVES[c].n for c in CURVES})
    sp = _primes(2, 200 if ctx.tier == "quick" else 1000) + [65537, 2**61 - 1, 2**89 - 1, 8191 * 4 + 1 if False else 40961, 12289, 2**127 - 1]
    for p in sp + cat_p:
        small = p < 200
        rs = range(p) if small else [0, 1, 2, 3, 4, p - 1, p - 2] + [rng.randrange(p) for _ in range(6)] + [rng.randrange(p) ** 2 % p for _ in range(6)]
        rs = list(rs) + [p, 2 * p, -p, p + 4, -1, p * p + 1 if small else 9 * p]
        for a in rs:
            sq.append(f"nt.sqrt {a} {p}")
            sq.append(f"nt.tonelli {a} {p}")
            jac.append(f"nt.jacobi {a} {p}")
            inv.append(f"nt.inv {a} {p}")
            if small or rng.random() < 0.4:
                ctx.check("nt.sqrt", {"a": a, "p": p})
                ctx.check("nt.inverse", {"a": a, "m": p, "blind": 1 + rng.randrange(p - 1) if p > 1 else 1})
    for _ in range(ctx.n(300, 3000)):
        m = rng.choice([1, 2, 7, 12, 35, 97, 341, 2**16, secp256k1.p, secp256k1.n, rng.getrandbits(40) + 1])
        k = rng.choice([0, 1, 2, 3, 8])
        a = [rng.randrange(-5, 3 * m) if rng.random() < 0.8 else rng.choice([0, m, 2 * m]) for _ in range(k)]
        batch.append(f"nt.invbatch {m} {ltok(a)}")
        ctx.check("nt.batch", {"a": a, "m": m, "blind": 1 + rng.randrange(max(m - 1, 1))})
    for x in list(range(-2, 600)) + [341, 561, 645, 1105, 1387, 1729, 1905, 2047, 2465, 2701, 2821, 3277, 4033,
                                    secp256k1.p, secp256k1.n, secp256k1.p + 2]:
        xg.append(f"nt.isprime {x}")
    ctx.stream("nt.inv", inv)
    ctx.stream("nt.invblind", blind)
    ctx.stream("nt.invbatch", batch)
    ctx.stream("nt.jacobi", jac)
    ctx.stream("nt.sqrt", sq)
    ctx.stream("nt.misc", xg)


def _run_constructors(ctx, rng):
    lines = []
    for p in list(range(-1, 40)) + [341, 561, 1105]:
        for a, b in [(0, 7), (1, 1), (-1, 2), (p, 1), (1, -1), (1, p), (0, 0), (p - 3, 5), (3, 5)]:
            lines.append(f"curve.newgroup {p} {a} {b}")
    pmax = 13 if ctx.tier == "quick" else 23
    for p, a, b in all_toy_params(pmax):
        if ctx.tier == "quick" and p > 7 and rng.random() < 0.8:
            continue
        tc = toy_curve(p, a, b)
        pts = [P for P in tc["points"] if P[1]]
        cand_G = rng.sample(pts, min(3, len(pts))) + [(pts[0][0] + p, pts[0][1]), (pts[0][0] - p, 0)] if pts else []
        cand_G += [(0, 0), (1, p), (pts[0][0], (pts[0][1] + 1) % p) if pts else (1, 1)]
        for G in cand_G:
            for n in sorted({tc["order"], *[s[0] for s in tc["subs"]], p, 4, 9, 2}):
                for h in {1, 2, max(1, tc["order"] // n), (1 + isqrt(4 * p) + p) // n if n else 1}:
                    lines.append(f"curve.new {p} {a} {b} {G[0]} {G[1]} {n} {h} {rng.choice([0, 1])} {rng.choice([0, 1, 1])}")
    for name in sorted(CURVES):
        ec = CURVES[name]
        if ctx.tier == "quick" and ec.nlen > 260:
            continue
        lines.append(f"curve.new {ec.p} {ec._a} {ec._b} {ec.G[0]} {ec.G[1]} {ec.n} {ec.cofactor} 1 1")
        lines.append(f"curve.new {ec.p} {ec._a} {ec._b} {ec.G[0]} {ec.G[1]} {ec.n} {ec.cofactor + 1} 0 0")
        lines.append(f"curve.new {ec.p} {ec._a} {ec._b} {ec.G[0]} {ec.p - ec.G[1]} {ec.n} {ec.cofactor} 0 1")
        lines.append(f"curve.new {ec.p} {ec._a} {(ec._b + 1) % ec.p} {ec.G[0]} {ec.G[1]} {ec.n} {ec.cofactor} 0 1")
    ctx.stream("curve.new", lines, nontrivial=lambda ln, out: "pprime" not in out)
    # a malformed curve is refused: composite p must not get through (candidate finding: Fermat base-2 liars)
    liars = [x for x in range(3, 3000 if ctx.tier == "quick" else 100000, 2)
             if pow(2, x - 1, x) == 1 and any(x % d == 0 for d in range(3, isqrt(x) + 1, 2))]
    ctx.count("constructor", "base-2 pseudoprimes tried", len(liars))
    for x in liars:
        ctx.check("curvegroup.composite_refused", {"p": x, "a": 1, "b": 1}, key="curvegroup.fermat_pseudoprime")
    for x in (9, 15, 21, 25, 33, 35, 49, 91):
        ctx.check("curvegroup.composite_refused", {"p": x, "a": 1, "b": 1})
    # every other malformed-curve case must be refused, each under its own key
    goods = []
    for p, a, b in all_toy_params(23, 5):
        tc = toy_curve(p, a, b)
        for n, G in tc["subs"]:
            h = (1 + isqrt(4 * p) + p) // n
            try:
                Curve(p, a, b, G, n, h, weakness_check=False)
            except Exception:  # noqa: BLE001
                continue
            goods.append((p, a, b, G[0], G[1], n, h, tc))
    goods = rng.sample(goods, min(len(goods), 25 if ctx.tier == "quick" else 200))
    k1 = secp256k1
    goods.append((k1.p, 0, 7, k1.G[0], k1.G[1], k1.n, 1, None))
    for p, a, b, gx, gy, n, h, tc in goods:
        cases = [("zero_discriminant", (p, 0, 0, gx, gy, n, h)), ("a_equals_p", (p, p, b, gx, gy, n, h)),
                 ("a_negative", (p, -1, b, gx, gy, n, h)), ("b_equals_p", (p, a, p, gx, gy, n, h)),
                 ("b_negative", (p, a, -2, gx, gy, n, h)), ("p_even", (p + 1, a, b, gx, gy, n, h)),
                 ("p_two", (2, 1, 1, 1, 1, 3, 1)), ("p_composite", (p * 3, a, b, gx, gy, n, h)),
                 ("n_even", (p, a, b, gx, gy, n + 1 if n % 2 else 4, h)), ("n_composite", (p, a, b, gx, gy, 9 * n, h)),
                 ("generator_off_curve", (p, a, b, gx, next(y for y in range(1, 50) if (y * y - gy * gy) % p), n, h)),
                 ("generator_y_out_of_range", (p, a, b, gx, gy + p, n, h)),
                 ("generator_infinity", (p, a, b, gx, 0, n, h)), ("wrong_cofactor", (p, a, b, gx, gy, n, h + 1)),
                 ("zero_cofactor", (p, a, b, gx, gy, n, 0)),
                 ("b_changed", (p, a, (b + 1) % p, gx, gy, n, h))]
        # a prime that is not the order of G (inside the Hasse window when one exists)
        for q in _primes(max(3, p + 1 - isqrt(4 * p)), p + 1 + isqrt(4 * p)) if p < 1000 else [k1.n + 2 * 2**128 + 1]:
            if q != n and q % 2 and (tc is None or tc["order"] % q):
                cases.append(("n_not_the_order", (p, a, b, gx, gy, q, (1 + isqrt(4 * p) + p) // q)))
                break
        if tc is not None and tc["order"] == p == n:
            cases.append(("n_equals_p", (p, a, b, gx, gy, n, h)))
        for kind, args in cases:
            if kind == "b_changed" and tc is not None and (args[3] ** 3 + a * args[3] + args[2] - args[4] ** 2) % p == 0:
                continue
            ctx.check("curve.malformed_refused", {"kind": kind, "args": list(args)}, key="curve.malformed." + kind)
            ctx.count("malformed", kind)
    # a generator whose true order is 2n (n odd prime): n*G is the 2-torsion point (x, 0), which is NOT infinity,
    # so "n is not the group order" must refuse it (found by c02's brute-force group tables)
    tried = 0
    for p, a, b in all_toy_params(47 if ctx.tier == "quick" else 101, 5):
        if tried >= (12 if ctx.tier == "quick" else 150):
            break
        pts = toy_points(p, a, b)
        order = len(pts) + 1
        if order % 2 or not any(P[1] == 0 for P in pts):
            continue
        for n in _primes(3, order // 2):
            if order % (2 * n):
                continue
            h = (1 + isqrt(4 * p) + p) // n
            G = next((P for P in pts if P[1] and _ref_mul(n, P, p, a) is not None
                      and _ref_mul(n, P, p, a)[1] == 0), None)
            if G is None or h < 2:
                continue
            tried += 1
            ctx.check("curve.malformed_refused", {"kind": "generator_of_order_2n", "args": [p, a, b, G[0], G[1], n, h]},
                      key="curve.order_check.two_torsion")
            ctx.count("malformed", "generator_of_order_2n")
            break
    for p in (5, 7, 11, 13):  # anomalous toy curves (n = p) exist for small p: they must be refused
        for a in range(p):
            for b in range(p):
                if (4 * a ** 3 + 27 * b * b) % p and toy_curve(p, a, b)["order"] == p:
                    G = toy_curve(p, a, b)["subs"][0][1]
                    ctx.check("curve.malformed_refused", {"kind": "n_equals_p", "args": [p, a, b, G[0], G[1], p, 1]},
                              key="curve.malformed.n_equals_p")
                    ctx.count("malformed", "n_equals_p")


def _run_sec(ctx, rng):
    """SEC 1 codec: every prefix byte x {hybrid on/off} x {on-curve, off-curve, x >= p, y >= p, wrong parity,
    wrong length, y = 0}, on secp256k1 and two toy curves"""
    lines, enc = [], []
    toks = ["secp256k1"]
    for p, a, b in [(23, 1, 1), (251, 0, 7), (263, 2, 3)]:
        tc = toy_curve(p, a, b)
        for n, G in tc["subs"][-1:]:
            tok = tok_sub(p, a, b, G, n, (1 + isqrt(4 * p) + p) // n)
            try:
                curve_of_token(tok)
                toks.append(tok)
            except Exception:  # noqa: BLE001
                pass
    ctx.count("sec", "curves", len(toks))
    for tok in toks:
        ec = curve_of_token(tok)
        p, sz = ec.p, ec.p_size
        top = 256 ** sz
        P = _rand_point(rng, ec)
        pts = [P, ec.G, ec.negate(P)]
        for Q in pts:
            x, y = Q
            yoff = next(v for v in range(1, 60) if (v * v - y * y) % p)  # (x, yoff) is off the curve
            bodies = {"on": (x, y), "neg": (x, p - y), "off": (x, yoff), "off2": ((x + 1) % p, y)}
            if x + p < top:
                bodies["x>=p"] = (x + p, y)
            if y + p < top:
                bodies["y>=p"] = (x, y + p)
            bodies["y=0"] = (x, 0)
            bodies["x=p"] = (p, y) if p < top else (x, y)
            prefixes = range(256) if Q is P else (0, 1, 2, 3, 4, 5, 6, 7, 8, 0xFF)
            for kind, (bx, by) in bodies.items():
                xb, yb = bx.to_bytes(sz, "big"), by.to_bytes(sz, "big")
                for pre in prefixes:
                    if pre > 8 and kind not in ("on", "off", "x>=p"):
                        continue
                    for hyb in (0, 1):
                        for body in ((xb + yb), xb) if (pre <= 8 or kind == "on") else ((xb + yb),):
                            raw = bytes([pre]) + body
                            lines.append(f"sec.dec {tok} {hyb} {raw.hex()}")
                            canonical = (kind in ("on", "neg") and (
                                (pre in (2, 3) and len(body) == sz and pre - 2 == (by & 1)) or
                                (len(body) == 2 * sz and (pre == 4 or (hyb and pre in (6, 7) and pre - 6 == (by & 1))))))
                            ctx.check("sec.codec", {"curve": tok, "hex": raw.hex(), "hybrid": hyb, "canonical": canonical},
                                      nontrivial=canonical)
            # wrong lengths
            for pre in (2, 3, 4, 6, 7):
                for ln in (0, 1, sz - 1, sz + 1, 2 * sz - 1, 2 * sz + 1):
                    raw = bytes([pre]) + (x.to_bytes(sz, "big") + y.to_bytes(sz, "big") + b"\x00")[:ln]
                    for hyb in (0, 1):
                        lines.append(f"sec.dec {tok} {hyb} {raw.hex()}")
            for comp in (0, 1):
                for R in (Q, (x, yoff), (x, 0), (x + p, y), (x, y + p), (-1, y)):
                    enc.append(f"sec.enc {tok} {comp} {atok(R)}")
        lines.append(f"sec.dec {tok} 0 _")
        # compressed forms of x that are no x-coordinate / x >= p
        for _ in range(ctx.n(20, 200)):
            xr = rng.randrange(top)
            for pre in (2, 3):
                raw = bytes([pre]) + xr.to_bytes(sz, "big")
                lines.append(f"sec.dec {tok} {rng.randrange(2)} {raw.hex()}")
                ctx.check("sec.codec", {"curve": tok, "hex": raw.hex(), "hybrid": 0})
    # compressed encodings of the x of a point of order two (y = 0): on a curve of even order the lift finds the
    # root 0, and the answer must still be a point of the curve, never (x, 0) (the spelling of infinity) or (x, p)
    for tok in toks[1:]:
        ec = curve_of_token(tok)
        for T in [P for P in toy_points(ec.p, ec._a, ec._b) if P[1] == 0]:
            for pre in (2, 3):
                raw = bytes([pre]) + T[0].to_bytes(ec.p_size, "big")
                lines.append(f"sec.dec {tok} 0 {raw.hex()}")
                ctx.check("sec.codec", {"curve": tok, "hex": raw.hex(), "hybrid": 0}, key="sec.compressed_two_torsion")
                ctx.count("sec", "two-torsion x")
    ctx.stream("sec.dec", lines)
    ctx.stream("sec.enc", enc)
    if C._bindings_installed:  # the same property with the bindings serving (compressed lift goes through them)
        ec = secp256k1
        for _ in range(ctx.n(30, 300)):
            Q = _rand_point(rng, ec)
            for raw in (SEC.bytes_from_point(Q, ec, True), SEC.bytes_from_point(Q, ec, False),
                        bytes([6 + (Q[1] & 1)]) + Q[0].to_bytes(32, "big") + Q[1].to_bytes(32, "big"),
                        bytes([7 - (Q[1] & 1)]) + Q[0].to_bytes(32, "big") + Q[1].to_bytes(32, "big"),
                        bytes([6 + (Q[1] & 1)]) + Q[0].to_bytes(32, "big") + ((Q[1] + 2) % ec.p).to_bytes(32, "big")):
                for hyb in (0, 1):
                    ctx.check("sec.codec", {"curve": "secp256k1", "hex": raw.hex(), "hybrid": hyb, "serving": True})


def run(ctx):
    rng = ctx.rng
    _patch_secrets(True)
    try:
        _run_recodings(ctx, rng)
        _run_nt(ctx, rng)
        _run_jac(ctx, rng)
        _run_toy_ladders(ctx, rng)
        _run_catalogue_ladders(ctx, rng)
        pub = _run_multi(ctx, rng)
        _run_entry(ctx, rng, pub)
        _run_constructors(ctx, rng)
        _run_sec(ctx, rng)
    finally:
        _patch_secrets(False)
        C.set_libsecp256k1_serving(serving=False)
