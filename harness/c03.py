"""C03 — BIP340 Schnorr: sign, verify and batch-verify agree with the BIP (DESIGN §3 C03).

Correspondence: every op line is answered by the real btclib (in-process; Python arm with the
bindings switched off, and again with libsecp256k1 serving) and by the compiled Lean model
(lean/Driver/C03Main.lean); outputs must be equal.  Oracles evaluate the property itself on the
real code alone.
"""
from __future__ import annotations

import contextlib
import csv
import hashlib
import itertools
import os
from unittest import mock

from btclib.curves import Curve, mult, secp256k1
from btclib.curves import curve as _curve
from btclib.curves.curve import CURVES, _y_even_var
from btclib.ecc import bip340_nonce, commit_nonce, ssa

from . import common, shared
from .common import hx, unhx

PROP = "C03"
EXE = "drv_c03"
GEN_MODULES = ["Schnorr"]
RULE = ("op lines come from one seeded PRNG: valid signatures made by the real signer then mutated field by field "
        "(bit flips, +n, +p, 0, p, n, 2^256, off-curve x, foreign key), message lengths 0..200, boundary keys; toy curves "
        "(p ≡ 3 mod 4, found by brute force) are enumerated exhaustively over (q,k,e) and (e,x,r,s); batches of size "
        "0..8 and 55..57 with one bad member at every position, duplicates, permutations, and on toy curves every "
        "coefficient for the bad member; non-trivial = the implementation did not refuse the line at its first check")
TRUSTED = [
    "Model/C03/*.lean is a hand transcription of ssa.py / bip340_nonce.py / commit_nonce.py, tied by correspondence only",
    "C01 proves Lawful (opsSub K) (EC.ops C on the reduced pairs of the n-torsion, lift_x filtered); the generic E2E theorems about the "
    "executed EC.ops C (T2-T4, `_cofactor_one`) carry the explicit hypothesis hcof; for secp256k1 hcof is PROVED (Btc.E2E.secpCofactorOne) and the "
    "`_secp256k1` theorems carry no hypothesis about the curve; T1 and sign totality need none on any curve with CurveOk and p = 3 mod 4",
    "sign totality (sign_total*) is conditional on two facts about the hash alone: a nonce candidate in 1..n-1 within the budget, a non-zero challenge",
    "retry loops of nonce / tweak derivation are modelled with fuel 10000 (error class `fuel` never observed)",
    "secrets.randbelow is replaced by a stub replaying listed coefficients inside the harness process, for ssa.batch lines only",
    "forgery resistance is not addressed; the batch soundness error is proved only as a count (at most one of the n-1 values of one coefficient passes)",
]
ASSUMPTIONS = ["none about secp256k1 (primality of p and n, Δ ≠ 0, CurveOk, cofactor one: all proved); for another curve the generic `_cofactor_one` "
               "theorems take hcof (every point has order dividing n) as an explicit hypothesis",
               "sign_total: the nonce loop finds a candidate in 1..n-1 within its budget and the challenge is not 0 mod n (facts about the hash function)"]

P = secp256k1.p
N = secp256k1.n

_HF = {"sha256": hashlib.sha256, "sha1": hashlib.sha1, "sha512": hashlib.sha512}
try:
    hashlib.new("ripemd160")

    def _ripemd160(data: bytes = b""):
        return hashlib.new("ripemd160", data)
    _HF["ripemd160"] = _ripemd160
except Exception:  # pragma: no cover  (OpenSSL without the legacy provider)
    pass

_EC: dict[str, Curve] = {"secp256k1": secp256k1}
for _name in ("secp192k1", "secp224k1", "nistp256", "secp160r1", "secp160k1", "secp160r2", "bpp256r1"):
    if _name in CURVES and (CURVES[_name].p % 4 == 3 or CURVES[_name].p % 8 == 5):
        _EC[_name] = CURVES[_name]


# ------------------------------------------------------------------ toy curves (brute force)
def _is_prime(n):
    if n < 2:
        return False
    return all(n % d for d in range(2, int(n ** 0.5) + 1))


def _aff_add(Pt, Q, p, a):
    if Pt is None:
        return Q
    if Q is None:
        return Pt
    if Pt[0] == Q[0]:
        if (Pt[1] + Q[1]) % p == 0:
            return None
        lam = (3 * Pt[0] * Pt[0] + a) * pow(2 * Pt[1], -1, p) % p
    else:
        lam = (Q[1] - Pt[1]) * pow(Q[0] - Pt[0], -1, p) % p
    x = (lam * lam - Pt[0] - Q[0]) % p
    return x, (lam * (Pt[0] - x) - Pt[1]) % p


def _aff_mul(m, Pt, p, a):
    R = None
    while m:
        if m & 1:
            R = _aff_add(R, Pt, p, a)
        Pt = _aff_add(Pt, Pt, p, a)
        m >>= 1
    return R


_TOYS: dict[int, list[tuple[str, Curve]]] = {}


def toy_curves(pmax, per_prime=3, cof_per_prime=1):
    """[(token, Curve)]: curves over F_p, p ≡ 3 (mod 4), 11 ≤ p ≤ pmax, subgroup order n ≥ 7 prime;
    `per_prime` of cofactor 1 and `cof_per_prime` of cofactor > 1 per prime."""
    key = (pmax, per_prime, cof_per_prime)
    if key in _TOYS:
        return _TOYS[key]
    out = []
    for p in range(11, pmax + 1):
        if not _is_prime(p) or p % 4 != 3:
            continue
        got1 = gotc = 0
        sq = {}
        for y in range(p):
            sq.setdefault(y * y % p, []).append(y)
        for a, b in itertools.product(range(p), range(1, p)):
            if got1 >= per_prime and gotc >= cof_per_prime:
                break
            if (4 * a ** 3 + 27 * b * b) % p == 0:
                continue
            pts = [(x, y) for x in range(p) for y in sq.get((x ** 3 + a * x + b) % p, [])]
            order = len(pts) + 1
            n = max(d for d in range(1, order + 1) if order % d == 0 and _is_prime(d))
            h = order // n
            if n < 7 or n == p or h % 2 == 0:
                continue  # even cofactor: a 2-torsion point (x, 0) is spelled like INF by btclib's affine arithmetic
            if (h == 1 and got1 >= per_prime) or (h > 1 and gotc >= cof_per_prime):
                continue
            G = None
            for Pt in pts:
                Q = _aff_mul(h, Pt, p, a)
                if Q is not None and Q[1] != 0:
                    G = Q
                    break
            if G is None:
                continue
            try:
                ec = Curve(p, a, b, G, n, h, weakness_check=False)
            except Exception:  # noqa: BLE001 - btclib refuses this parameter set (cofactor formula, …)
                continue
            tok = f"toy:{p}:{a}:{b}:{G[0]}:{G[1]}:{n}:{h}"
            _EC[tok] = ec
            out.append((tok, ec))
            if h == 1:
                got1 += 1
            else:
                gotc += 1
    _TOYS[key] = out
    return out


def _ec(tok):
    if tok not in _EC and tok in CURVES:
        return CURVES[tok]  # catalogue curves the driver is not asked about (oracles on the real code alone)
    if tok not in _EC and tok.startswith("toy:"):
        p, a, b, gx, gy, n, h = (int(v) for v in tok.split(":")[1:])
        _EC[tok] = Curve(p, a, b, (gx, gy), n, h, weakness_check=False)
    return _EC[tok]


@contextlib.contextmanager
def backend(serving: bool):
    prev = _curve.is_libsecp256k1_serving()
    _curve.set_libsecp256k1_serving(serving=serving)
    try:
        yield
    finally:
        _curve.set_libsecp256k1_serving(serving=prev)


# ------------------------------------------------------------------ implementation side
def _cls(e):
    c = common.err_class(e)
    return c if not c.startswith("foreign") else "foreign"


def _unit(fn, *a, **kw):
    try:
        fn(*a, **kw)
    except Exception as e:  # noqa: BLE001 - the class is the observation
        return "err " + _cls(e)
    return "ok"


def _sig(r, s, ec):
    return ssa.Sig(r, s, ec, check_validity=False)


def _item(tok):
    m, x, r, s = tok.split(":")
    return unhx(m), int(x), int(r), int(s)


def _batch_call(ec, hf, coefs, items, fn=None):
    """assert_batch_as_valid_ with secrets.randbelow replaying `coefs` (members 1..k-1)."""
    pending = list(coefs)

    def stub(bound):
        if bound != ec.n - 1:
            raise AssertionError(f"randbelow({bound}) instead of n-1")
        return pending.pop(0) - 1
    msgs = [i[0] for i in items]
    qs = [i[1] for i in items]
    sigs = [_sig(i[2], i[3], ec) for i in items]
    shim = mock.Mock(spec=["randbelow", "token_bytes"])
    shim.randbelow = stub
    shim.token_bytes = ssa.secrets.token_bytes
    # only ssa.py's own reference to `secrets` is replaced: the blinding in curve_group keeps the real module
    with mock.patch.object(ssa, "secrets", shim):
        return (fn or ssa.assert_batch_as_valid_)(msgs, qs, sigs, hf)


def impl(line: str) -> str:  # noqa: C901, PLR0911, PLR0912
    t = line.split(" ")
    op = t[0]
    if op in ("ssa.sign", "ssa.sign0"):
        ec, hf = _ec(t[1]), _HF[t[2]]
        try:
            sg = ssa.sign_(unhx(t[3]), int(t[4]), unhx(t[5]), ec, hf, verify=(op == "ssa.sign"))
        except Exception as e:  # noqa: BLE001
            return "err " + _cls(e)
        return f"ok {sg.r} {sg.s}"
    if op == "ssa.verify":
        ec, hf = _ec(t[1]), _HF[t[2]]
        msg, x, sg = unhx(t[3]), int(t[4]), _sig(int(t[5]), int(t[6]), ec)
        out = _unit(ssa.assert_as_valid_, msg, x, sg, hf)
        try:
            b = ssa.verify_(msg, x, sg, hf)
        except Exception as e:  # noqa: BLE001
            return f"err verify_-raised-{type(e).__name__}"
        if b is not (out == "ok"):
            return f"err verify_-says-{b}-assert-says-{out}"
        return out
    if op == "ssa.verifyc":  # verdict only (the bindings arm does not say why)
        ec, hf = _ec(t[1]), _HF[t[2]]
        return common.call_impl(ssa.verify_, unhx(t[3]), int(t[4]), _sig(int(t[5]), int(t[6]), ec), hf)
    if op == "ssa.nonce":
        ec, hf = _ec(t[1]), _HF[t[2]]
        return common.call_impl(bip340_nonce.bip340_nonce_, unhx(t[3]), int(t[4]), unhx(t[5]), ec, hf)
    if op == "ssa.challenge":
        ec, hf = _ec(t[1]), _HF[t[2]]
        return common.call_impl(ssa.challenge_, unhx(t[3]), int(t[4]), int(t[5]), ec, hf)
    if op == "ssa.genkeys":
        return common.call_impl(ssa.gen_keys, int(t[2]), _ec(t[1]))
    if op == "ssa.lift":
        return common.call_impl(ssa.point_from_bip340pub_key, int(t[2]), _ec(t[1]))
    if op == "ssa.qke":
        ec = _ec(t[1])
        q, k, e = int(t[2]), int(t[3]), int(t[4])
        xq, yq = mult(q, ec=ec)
        q1 = ec.n - q if yq % 2 else q
        xk, yk = mult(k, ec=ec)
        k1 = ec.n - k if yk % 2 else k
        try:
            sg = ssa._sign_(e, q1, k1, xk, ec)
        except Exception as ex:  # noqa: BLE001
            return "err " + _cls(ex)
        try:
            qj = xq, _y_even_var(xq, ec), 1
        except Exception:  # noqa: BLE001
            return "err lift"
        return f"ok {sg.r} {sg.s} " + _unit(ssa._assert_as_valid_, e, qj, sg.r, sg.s, ec, ec._fixed_points)
    if op == "ssa.core":
        ec = _ec(t[1])
        e, x, r, s = (int(v) for v in t[2:6])
        try:
            qj = x, _y_even_var(x, ec), 1
        except Exception:  # noqa: BLE001
            return "err lift"
        return _unit(ssa._assert_as_valid_, e, qj, r, s, ec, ec._fixed_points)
    if op == "ssa.ser":
        ec = _ec(t[1])
        return common.call_impl(lambda: _sig(int(t[2]), int(t[3]), ec).serialize())
    if op == "ssa.parse":
        return common.call_impl(lambda: ssa.Sig.parse(unhx(t[1])), render=lambda sg: f"{sg.r} {sg.s}")
    if op == "ssa.batch":
        ec, hf = _ec(t[1]), _HF[t[2]]
        coefs = [] if t[3] == "-" else [int(v) for v in t[3].split(",")]
        return _unit(_batch_call, ec, hf, coefs, [_item(v) for v in t[4:]])
    if op == "ssa.s2c":
        ec, hf = _ec(t[1]), _HF[t[2]]
        try:
            sg, rec = ssa.sign_(unhx(t[3]), int(t[4]), unhx(t[5]), ec, hf, verify=False, commit_hash=unhx(t[6]))
        except Exception as e:  # noqa: BLE001
            return "err " + _cls(e)
        return f"ok {sg.r} {sg.s} {rec[0]} {rec[1]}"
    if op == "ssa.s2cv":
        ec, hf = _ec(t[1]), _HF[t[2]]
        return common.call_impl(ssa.verify_, unhx(t[3]), int(t[4]), _sig(int(t[5]), int(t[6]), ec), hf,
                                commit_hash=unhx(t[7]), receipt=(int(t[8]), int(t[9])))
    if op in ("ssa.signopt", "ssa.signh"):
        ec, hf = _ec(t[1]), _HF[t[2]]
        commit = None if t[6] == "None" else unhx(t[6])
        try:
            if op == "ssa.signopt":
                res = ssa.sign_(unhx(t[3]), int(t[4]), unhx(t[5]), ec, hf, verify=False, commit_hash=commit)
            else:
                res = ssa.sign(unhx(t[3]), int(t[4]), unhx(t[5]), ec, hf, verify=False, commit=commit)
        except Exception as e:  # noqa: BLE001
            return "err " + _cls(e)
        if isinstance(res, tuple):
            sg, rec = res
            return f"ok {sg.r} {sg.s} {rec[0]} {rec[1]}"
        return f"ok {res.r} {res.s}"
    if op in ("ssa.verifyopt", "ssa.verifyh"):
        ec, hf = _ec(t[1]), _HF[t[2]]
        commit = None if t[7] == "None" else unhx(t[7])
        rec = None if t[8] == "None" else (int(t[8]), int(t[9]))
        sg = _sig(int(t[5]), int(t[6]), ec)
        if op == "ssa.verifyopt":
            return common.call_impl(ssa.verify_, unhx(t[3]), int(t[4]), sg, hf, commit_hash=commit, receipt=rec)
        return common.call_impl(ssa.verify, unhx(t[3]), int(t[4]), sg, hf, commit=commit, receipt=rec)
    if op == "ssa.commitnonce":
        ec, hf = _ec(t[1]), _HF[t[2]]
        return common.call_impl(commit_nonce.commit_nonce_, unhx(t[3]), int(t[4]), ssa._S2C_POINT_TAG, ec, hf,
                                render=lambda v: f"{v[0]} {v[1][0]} {v[1][1]}")
    return "bad-op"


# ------------------------------------------------------------------ independent reference signer (written from the BIP)
def _ref_tagged(tag, m, hf):
    t = hf(tag).digest()
    return hf(t + t + m).digest()


def _ref_bits(b, nlen):
    i = int.from_bytes(b, "big")
    return i >> max(0, 8 * len(b) - nlen)


def ref_sign(ec, hf, msg, d0, aux):
    """BIP340 Default Signing, generalised the way the BIP's structure dictates: field elements on p_size octets,
    the masked key on max(n_size, hash size) octets, hash outputs cut to the leftmost nlen bits; own affine arithmetic."""
    p, a, n = ec.p, ec._a, ec.n
    psz = (p.bit_length() + 7) // 8
    nlen = n.bit_length()
    nsz = (nlen + 7) // 8
    hlen = hf().digest_size
    Pt = _aff_mul(d0, ec.G, p, a)
    d = d0 if Pt[1] % 2 == 0 else n - d0
    t = d ^ int.from_bytes(_ref_tagged(b"BIP0340/aux", aux, hf), "big")
    buf = t.to_bytes(max(nsz, hlen), "big") + Pt[0].to_bytes(psz, "big") + msg
    while True:
        buf = _ref_tagged(b"BIP0340/nonce", buf, hf)
        k0 = _ref_bits(buf, nlen)
        if 0 < k0 < n:
            break
    R = _aff_mul(k0, ec.G, p, a)
    k = k0 if R[1] % 2 == 0 else n - k0
    e = _ref_bits(_ref_tagged(b"BIP0340/challenge", R[0].to_bytes(psz, "big") + Pt[0].to_bytes(psz, "big") + msg, hf), nlen) % n
    return R[0], (k + e * d) % n, Pt[0]


def _o_sign_reference(w):
    ec, hf = _ec(w["curve"]), _HF[w["hf"]]
    msg, q, aux = bytes.fromhex(w["msg"]), w["q"], bytes.fromhex(w["aux"])
    r, sv, x = ref_sign(ec, hf, msg, q, aux)
    for lib in (False, True):
        with backend(lib):
            try:
                sg = ssa.sign_(msg, q, aux, ec, hf)
            except Exception as e:  # noqa: BLE001 - zero challenge on a toy curve
                return _cls(e) == "runtime" and ec.n < 2 ** 32, f"sign_ raised {type(e).__name__}: {e}"
            if (sg.r, sg.s) != (r, sv):
                return False, (f"{w['curve']}/{w['hf']} p_size={ec.p_size} n_size={ec.n_size}: btclib signs (r={sg.r}, s={sg.s}), "
                               f"the BIP340 reference signs (r={r}, s={sv}) for q={q} msg={msg.hex()} aux={aux.hex()}")
            if ssa.gen_keys(q, ec)[1] != x:
                return False, "x-only public key differs from the reference"
    return True, "ok"


def _o_empty_commit(w):
    """a present-but-empty commitment (b"") behaves like any other commitment, in every public spelling"""
    ec, hf = _ec(w["curve"]), _HF[w["hf"]]
    msg, q, aux, commit = bytes.fromhex(w["msg"]), w["q"], bytes.fromhex(w["aux"]), bytes.fromhex(w["commit"])
    from btclib.exceptions import BTClibTypeError
    with backend(w.get("lib", False)):
        x = ssa.gen_keys(q, ec)[1]
        for hashed in (False, True):
            sign_f, ver_f, ass_f, kw = ((ssa.sign, ssa.verify, ssa.assert_as_valid, "commit") if hashed else
                                        (ssa.sign_, ssa.verify_, ssa.assert_as_valid_, "commit_hash"))
            name = "sign/verify" if hashed else "sign_/verify_"
            try:
                res = sign_f(msg, q, aux, ec, hf, **{kw: commit})
            except Exception as e:  # noqa: BLE001
                return _cls(e) == "runtime" and ec.n < 2 ** 32, f"{name}: signing raised {type(e).__name__}: {e}"
            if not isinstance(res, tuple):
                return False, f"{name}({kw}={commit!r}) returned a bare signature: the commitment was dropped"
            sg, rec = res
            plain = sign_f(msg, q, aux, ec, hf)
            if (plain.r, plain.s) == (sg.r, sg.s):
                return False, f"{name}: the committed signature equals the uncommitted one"
            try:
                opened = ver_f(msg, x, sg, hf, **{kw: commit}, receipt=rec)
            except Exception as e:  # noqa: BLE001
                return False, (f"{name}: verifying {kw}={commit!r} with its own receipt raised {type(e).__name__}: {e} "
                               f"(q={q} msg={msg.hex()} aux={aux.hex()})")
            if opened is not True:
                return False, f"{name}: {kw}={commit!r} does not open with its own receipt"
            try:
                ass_f(msg, x, sg, hf, **{kw: commit}, receipt=rec)
            except Exception as e:  # noqa: BLE001
                return False, f"{name}: assert spelling raised {type(e).__name__}: {e} for {kw}={commit!r}"
            for what, kwargs in (("commitment without receipt", {kw: commit}), ("receipt without commitment", {"receipt": rec})):
                try:
                    b = ver_f(msg, x, sg, hf, **kwargs)
                except BTClibTypeError:
                    continue
                except Exception as e:  # noqa: BLE001
                    return False, f"{name}: {what} raised {type(e).__name__}"
                return False, f"{name}: {what} ({kw}={commit!r}) answered {b} instead of raising BTClibTypeError"
            if ec.n > 2 ** 32 and ver_f(msg, x, sg, hf, **{kw: commit + b"x"}, receipt=rec):
                return False, f"{name}: opens for another value"
    return True, "ok"


# ------------------------------------------------------------------ property oracles (real code only)
def _o_sign_verifies(w):
    ec, hf = _ec(w["curve"]), _HF[w["hf"]]
    msg, q, aux = bytes.fromhex(w["msg"]), w["q"], bytes.fromhex(w["aux"])
    with backend(w.get("lib", False)):
        sg = ssa.sign_(msg, q, aux, ec, hf)
        _, x = ssa.gen_keys(q, ec)
        if not ssa.verify_(msg, x, sg, hf):
            return False, f"sign_ then verify_ is False: r={sg.r} s={sg.s}"
        if ssa.verify_(msg + b"\x00", x, sg, hf) and ec is secp256k1:
            return False, "verifies for a longer message"
        sg2 = ssa.sign(msg, q, aux, ec, hf)
        if not ssa.verify(msg, x, sg2, hf):
            return False, "sign then verify (hashed spellings) is False"
        with ssa.Signer(q, ec, hf) as signer:
            raw = signer.sign_(msg, aux)
        if raw != sg.serialize():
            return False, "Signer.sign_ differs from sign_"
        if ec is secp256k1:
            if not ssa.verify_(msg, x.to_bytes(32, "big"), raw, hf):
                return False, "octets spellings of key and signature refused"
            if ssa.Sig.parse(raw) != sg:
                return False, "parse(serialize) differs"
    return True, "ok"


def _o_backend_agree(w):
    msg, q, aux = bytes.fromhex(w["msg"]), w["q"], bytes.fromhex(w["aux"])
    res = []
    for lib in (False, True):
        with backend(lib):
            sg = ssa.sign_(msg, q, aux)
            x = ssa.gen_keys(q)[1]
            res.append((sg.r, sg.s, x, ssa.verify_(msg, x, sg), ssa.verify_(msg, x, _sig(sg.r, (sg.s + 1) % N, secp256k1))))
    return res[0] == res[1] and res[0][3] and not res[0][4], f"python arm {res[0]} bindings arm {res[1]}"


def _o_verify_total(w):
    ec, hf = _ec(w["curve"]), _HF[w["hf"]]
    msg = bytes.fromhex(w["msg"])
    sig = bytes.fromhex(w["sigbytes"]) if "sigbytes" in w else _sig(w["r"], w["s"], ec)
    key = bytes.fromhex(w["xbytes"]) if "xbytes" in w else w["x"]
    for lib in (False, True):
        with backend(lib):
            try:
                b = ssa.verify_(msg, key, sig, hf)
            except Exception as e:  # noqa: BLE001
                return False, f"verify_ raised {type(e).__name__}: {e} (bindings serving={lib})"
            if not isinstance(b, bool):
                return False, f"verify_ returned {b!r}"
            if not isinstance(sig, bytes):
                try:
                    b2 = ssa.batch_verify_([msg, msg], [key, key], [sig, sig], hf)
                except Exception as e:  # noqa: BLE001
                    return False, f"batch_verify_ raised {type(e).__name__}: {e} (bindings serving={lib})"
                if b2 is not b:
                    return False, f"batch of the same member twice says {b2}, single says {b} (bindings serving={lib})"
    return True, "ok"


def _mk_batch(w):
    ec, hf = _ec(w["curve"]), _HF[w["hf"]]
    items = []
    for m, q, aux in w["members"]:
        msg = bytes.fromhex(m)
        sg = ssa.sign_(msg, q, bytes.fromhex(aux), ec, hf)
        items.append((msg, ssa.gen_keys(q, ec)[1], sg.r, sg.s))
    return ec, hf, items


def _o_batch_all_valid(w):
    with backend(w.get("lib", False)):
        ec, hf, items = _mk_batch(w)
        items = [items[i] for i in w.get("order", range(len(items)))]
        ok = ssa.batch_verify_([i[0] for i in items], [i[1] for i in items], [_sig(i[2], i[3], ec) for i in items], hf)
        singles = all(ssa.verify_(i[0], i[1], _sig(i[2], i[3], ec), hf) for i in items)
    return ok is True and singles, f"batch={ok} all singles={singles} size={len(items)}"


def _tamper(item, how, ec):
    msg, x, r, s = item
    if how == "s":
        return msg, x, r, (s + 1) % ec.n
    if how == "msg":
        return msg + b"\x01", x, r, s
    if how == "r":
        return msg, x, mult(2 + r % (ec.n - 2), ec=ec)[0], s
    if how == "x":
        return msg, mult(3 + x % (ec.n - 3), ec=ec)[0], r, s
    if how == "s+n":
        return msg, x, r, s + ec.n
    if how == "negs":
        return msg, x, r, (ec.n - s) % ec.n
    raise ValueError(how)


def _o_batch_one_tampered(w):
    """secp256k1 only: a batch with one tampered member is False (error 2^-256 ignored)."""
    with backend(w.get("lib", False)):
        ec, hf, items = _mk_batch(w)
        j = w["pos"]
        items[j] = _tamper(items[j], w["how"], ec)
        if ssa.verify_(items[j][0], items[j][1], _sig(items[j][2], items[j][3], ec), hf):
            return True, "tampering left the member valid"
        ok = ssa.batch_verify_([i[0] for i in items], [i[1] for i in items], [_sig(i[2], i[3], ec) for i in items], hf)
    return ok is False, f"batch={ok} size={len(items)} bad member at {j} ({w['how']})"


def _o_batch_at_most_one_coeff(w):
    """toy curves: with one bad member j, enumerate every coefficient a_j (others fixed): a bad first member
    never passes, a bad later member passes for at most one a_j."""
    try:
        ec, hf, items = _mk_batch(w)
    except Exception as e:  # noqa: BLE001
        # on a toy curve one challenge in n is zero and challenge_ refuses it (RuntimeError): no batch to speak of
        small = _ec(w["curve"]).n < 2 ** 32
        return small and _cls(e) == "runtime", f"signing a member refused: {type(e).__name__}: {e}"
    j = w["pos"]
    items[j] = _tamper(items[j], w["how"], ec)
    if ssa.verify_(items[j][0], items[j][1], _sig(items[j][2], items[j][3], ec), hf):
        return True, "tampering left the member valid"
    if len(items) < 2:
        return True, "size 1"
    base = w["coefs"]
    passing = []
    for a in (range(1, ec.n) if j >= 1 else [1]):
        coefs = list(base)
        if j >= 1:
            coefs[j - 1] = a
        try:
            _batch_call(ec, hf, coefs, items)
            passing.append(a)
        except Exception:  # noqa: BLE001
            pass
    limit = 0 if j == 0 else 1
    return len(passing) <= limit, f"bad member {j} ({w['how']}), coefficients that pass: {passing} of {ec.n - 1}"


def _o_batch_cancelling_pair(w):
    """secp256k1: two tampered members whose defects cancel (s_i + 1, s_j - 1) — the attack the random
    coefficients exist to stop: the batch must be False (it would pass iff a_i == a_j, probability 2^-256)."""
    with backend(w.get("lib", False)):
        ec, hf, items = _mk_batch(w)
        i, j = w["pair"]
        m, x, r, sv = items[i]
        items[i] = (m, x, r, (sv + 1) % ec.n)
        m, x, r, sv = items[j]
        items[j] = (m, x, r, (sv - 1) % ec.n)
        ok = ssa.batch_verify_([t[0] for t in items], [t[1] for t in items], [_sig(t[2], t[3], ec) for t in items], hf)
    return ok is False, f"batch={ok} size={len(items)} cancelling pair at {i},{j}"


def _o_batch_single_equiv(w):
    """a batch of ONE is the single verification: same verdict and same refusal class, under every hash function"""
    ec, hf = _ec(w["curve"]), _HF[w["hf"]]
    msg, q, aux = bytes.fromhex(w["msg"]), w["q"], bytes.fromhex(w["aux"])
    with backend(w.get("lib", False)):
        sg = ssa.sign_(msg, q, aux, ec, hf)
        item = (msg, ssa.gen_keys(q, ec)[1], sg.r, sg.s)
        if w["how"] != "valid":
            item = _tamper(item, w["how"], ec)
        m, x, r, sv = item
        single = ssa.verify_(m, x, _sig(r, sv, ec), hf)
        batch = ssa.batch_verify_([m], [x], [_sig(r, sv, ec)], hf)
        c1 = _unit(ssa.assert_as_valid_, m, x, _sig(r, sv, ec), hf)
        c2 = _unit(ssa.assert_batch_as_valid_, [m], [x], [_sig(r, sv, ec)], hf)
        hashed = ssa.batch_verify([m], [x], [ssa.sign(m, q, aux, ec, hf)], hf) if w["how"] == "valid" else True
    ok = single is batch and c1 == c2 and single is (w["how"] == "valid") and hashed is True
    return ok, (f"{w['curve']}/{w['hf']} member {w['how']}: verify_={single} ({c1}), batch_verify_ of that one member={batch} ({c2}), "
                f"hashed spelling={hashed}; q={q} msg={msg.hex()} aux={aux.hex()} bindings serving={w.get('lib', False)}")


def _o_codec(w):
    r, s = w["r"], w["s"]
    try:
        b = _sig(r, s, secp256k1).serialize()
    except Exception as e:  # noqa: BLE001
        valid = 0 <= r < P and 0 <= s < N and _curve._is_x_coordinate_var(r, secp256k1)
        return (not valid) and _cls(e) == "value", f"serialize refused r={r} s={s}: {type(e).__name__}"
    if len(b) != 64 or not (0 <= r < P and 0 <= s < N):
        return False, f"serialize accepted r={r} s={s}"
    back = ssa.Sig.parse(b)
    return (back.r, back.s) == (r, s) and back.serialize() == b, "roundtrip"


def _o_parse_canonical(w):
    b = bytes.fromhex(w["b"])
    try:
        sg = ssa.Sig.parse(b)
    except Exception as e:  # noqa: BLE001
        return _cls(e) == "value", f"parse raised {type(e).__name__}"
    return len(b) == 64 and sg.r < P and sg.s < N and sg.serialize() == b, f"accepted {b.hex()}"


def _o_s2c(w):
    ec, hf = _ec(w["curve"]), _HF[w["hf"]]
    msg, q, aux, commit = bytes.fromhex(w["msg"]), w["q"], bytes.fromhex(w["aux"]), bytes.fromhex(w["commit"])
    with backend(w.get("lib", False)):
        try:
            sg, rec = ssa.sign_(msg, q, aux, ec, hf, commit_hash=commit)
        except Exception as e:  # noqa: BLE001 - zero challenge / zero tweaked nonce on toy curves
            return _cls(e) == "runtime" and ec is not secp256k1, f"sign_ raised {type(e).__name__}: {e}"
        x = ssa.gen_keys(q, ec)[1]
        if not ssa.verify_(msg, x, sg, hf):
            return False, "committed signature does not verify as a plain one"
        if not ssa.verify_(msg, x, sg, hf, commit_hash=commit, receipt=rec):
            return False, "commitment does not open"
        if rec[1] % 2:
            return False, "receipt has odd y"
        if ec is secp256k1:
            if ssa.verify_(msg, x, sg, hf, commit_hash=commit + b"\x00", receipt=rec):
                return False, "opens for another value"
            if ssa.verify_(msg, x, sg, hf, commit_hash=commit, receipt=(rec[0], ec.p - rec[1])):
                return False, "opens with the negated receipt"
    return True, "ok"


def x0_toy_curves(pmax, per_prime=2):
    """[(token, Curve)]: toy curves that HAVE a point of x = 0 (b a non-zero square), any p ≥ 11 (both residues mod 4),
    prime subgroup order n ≥ 7, odd cofactor; `per_prime` of cofactor 1 and one of cofactor > 1 per prime.  On these
    r = p reads as the x-coordinate 0 once reduced, so a range check on r that lets p through accepts it."""
    key = ("x0", pmax, per_prime)
    if key in _TOYS:
        return _TOYS[key]
    out = []
    for p in range(11, pmax + 1):
        if not _is_prime(p):
            continue
        sq = {}
        for y in range(p):
            sq.setdefault(y * y % p, []).append(y)
        got1 = gotc = 0
        for a, b in itertools.product(range(p), range(1, p)):
            if got1 >= per_prime and gotc >= 1:
                break
            if b not in sq or (4 * a ** 3 + 27 * b * b) % p == 0:
                continue
            pts = [(x, y) for x in range(p) for y in sq.get((x ** 3 + a * x + b) % p, [])]
            order = len(pts) + 1
            n = max(d for d in range(1, order + 1) if order % d == 0 and _is_prime(d))
            h = order // n
            if n < 7 or n == p or h % 2 == 0 or (h == 1 and got1 >= per_prime) or (h > 1 and gotc >= 1):
                continue
            G = next((Q for Q in (_aff_mul(h, Pt, p, a) for Pt in pts) if Q is not None and Q[1] != 0), None)
            if G is None:
                continue
            try:
                ec = Curve(p, a, b, G, n, h, weakness_check=False)
            except Exception:  # noqa: BLE001 - btclib refuses this parameter set
                continue
            tok = f"toy:{p}:{a}:{b}:{G[0]}:{G[1]}:{n}:{h}"
            _EC[tok] = ec
            out.append((tok, ec))
            if h == 1:
                got1 += 1
            else:
                gotc += 1
    _TOYS[key] = out
    return out


def _o_r_ge_p(w):  # noqa: C901, PLR0911, PLR0912
    """r ≥ p never passes — with s and the key chosen so that BIP340's equation WOULD hold for r mod p.

    k•G = K (even y after normalisation), r = x(K) + j·p with j ≥ 1 (r = p itself when x(K) = 0), e the challenge the
    verifier computes for that r (over the octets of r where they fit in p_size, else over r mod p), s = k + e·q:
    then s•G − e•Q = K, so a verifier whose range check lets r through reads r mod p = x(K) and accepts.  `k` absent:
    the bare r = j·p with the listed s.  Every public way of asking must refuse: Sig(…) / assert_valid / serialize raise
    BTClibValueError, verify_ / verify / batch_verify_ answer False, assert_as_valid_ raises ValueError."""
    from btclib.exceptions import BTClibRuntimeError, BTClibValueError
    ec, hf = _ec(w["curve"]), _HF[w["hf"]]
    msg, q, k, j = bytes.fromhex(w["msg"]), w["q"], w.get("k"), w["j"]
    with backend(w.get("lib", False)):
        q1, x_Q = ssa.gen_keys(q, ec)
        if k is None:
            r, s, how = j * ec.p, w["s"] % ec.n, "bare multiple of p"
        else:
            xk, yk = mult(k, ec=ec)
            k1 = ec.n - k if yk % 2 else k
            r = xk + j * ec.p
            fits = r < 256 ** ec.p_size
            try:
                e = ssa.challenge_(msg, x_Q, r if fits else xk, ec, hf)
            except BTClibRuntimeError as ex:  # zero challenge on a toy curve: nothing to construct
                return True, f"no construction: {ex}"
            s = (k1 + e * q1) % ec.n
            how = f"s = k + e·q for k={k}, e={e}: s•G − e•Q has x = {xk} = r mod p"
            # the construction is what it claims: the private core (which reads r mod p) accepts it
            try:
                ssa._assert_as_valid_(e, (x_Q, _y_even_var(x_Q, ec), 1), r, s, ec, ec._fixed_points)
            except Exception as ex:  # noqa: BLE001
                return False, f"harness construction wrong ({type(ex).__name__}: {ex}) for {w}"
        where = f"{w['curve']}/{w['hf']} r={r} (p={ec.p}, r mod p={r % ec.p}) s={s} x_Q={x_Q} msg={msg.hex()} [{how}]"
        if ssa.verify_(msg, x_Q, _sig(r, s, ec), hf) is True:
            return False, f"verify_ answers True for r >= p: {where}"
        try:
            ssa.Sig(r, s, ec)
        except BTClibValueError:
            pass
        except Exception as ex:  # noqa: BLE001
            return False, f"Sig(r >= p) left through {type(ex).__name__}: {where}"
        else:
            return False, f"Sig(r >= p) accepted as well formed: {where}"
        sg = _sig(r, s, ec)
        for name, f in (("assert_valid", sg.assert_valid), ("serialize", sg.serialize),
                        ("assert_as_valid_", lambda: ssa.assert_as_valid_(msg, x_Q, sg, hf))):
            try:
                f()
            except ValueError:
                continue
            except Exception as ex:  # noqa: BLE001
                return False, f"{name} refuses r >= p with {type(ex).__name__} instead of a ValueError: {where}"
            return False, f"{name} accepts r >= p: {where}"
        for name, f in (("verify_", lambda: ssa.verify_(msg, x_Q, sg, hf)), ("verify", lambda: ssa.verify(msg, x_Q, sg, hf)),
                        ("batch_verify_ (twice the member)", lambda: ssa.batch_verify_([msg, msg], [x_Q, x_Q], [sg, sg], hf)),
                        ("batch_verify_ (one member)", lambda: ssa.batch_verify_([msg], [x_Q], [sg], hf))):
            try:
                b = f()
            except Exception as ex:  # noqa: BLE001
                return False, f"{name} raised {type(ex).__name__} for r >= p: {where}"
            if b is not False:
                return False, f"{name} answers {b} for r >= p: {where}"
    return True, "refused everywhere"


_VECTORS = None


def bip340_vectors():
    global _VECTORS  # noqa: PLW0603
    if _VECTORS is None:
        path = "/repo/tests/ecc/_data/bip340_test_vectors.csv"
        rows = []
        if os.path.exists(path):
            with open(path, newline="") as f:
                rd = csv.reader(f)
                next(rd)
                rows = [r for r in rd if r]
        _VECTORS = rows
    return _VECTORS


def _o_vector(w):
    idx, sk, pk, aux, msg, sig, res = w["row"][:7]
    msg_b, sig_b = bytes.fromhex(msg), bytes.fromhex(sig)
    for lib in (False, True):
        with backend(lib):
            if sk:
                got = ssa.sign_(msg_b, int(sk, 16), bytes.fromhex(aux)).serialize()
                if got != sig_b:
                    return False, f"vector {idx}: signature differs (bindings serving={lib})"
                if ssa.gen_keys(int(sk, 16))[1] != int(pk, 16):
                    return False, f"vector {idx}: public key differs"
            try:
                b = ssa.verify_(msg_b, bytes.fromhex(pk), sig_b)
            except Exception as e:  # noqa: BLE001
                return False, f"vector {idx}: verify_ raised {type(e).__name__}"
            if b is not (res == "TRUE"):
                return False, f"vector {idx}: verify_ says {b}, BIP340 says {res} (bindings serving={lib})"
    return True, f"vector {idx}"


ORACLES = {
    "sign.verifies": _o_sign_verifies,
    "backend.agree": _o_backend_agree,
    "verify.total": _o_verify_total,
    "verify.r_ge_p": _o_r_ge_p,
    "batch.all_valid": _o_batch_all_valid,
    "batch.one_tampered": _o_batch_one_tampered,
    "batch.at_most_one_coeff": _o_batch_at_most_one_coeff,
    "batch.cancelling_pair": _o_batch_cancelling_pair,
    "batch.single_equiv": _o_batch_single_equiv,
    "codec.roundtrip": _o_codec,
    "codec.canonical": _o_parse_canonical,
    "s2c.opens": _o_s2c,
    "s2c.falsy_commit": _o_empty_commit,
    "sign.reference": _o_sign_reference,
    "bip340.vector": _o_vector,
}


# ------------------------------------------------------------------ generators
MSG_LENS_QUICK = [0, 1, 2, 31, 32, 33, 54, 55, 56, 57, 63, 64, 65, 100, 118, 119, 120, 121, 128, 183, 184, 199, 200]
KEYS_EDGE = [1, 2, 3, N - 1, N - 2, (N - 1) // 2, (N + 1) // 2]


def _rb(rng, n):
    return bytes(rng.getrandbits(8) for _ in range(n))


def _aux(rng, n):
    r = rng.random()
    return bytes(n) if r < 0.15 else b"\xff" * n if r < 0.25 else _rb(rng, n)


def _key(rng, n=N):
    return rng.choice(KEYS_EDGE) % n or 1 if rng.random() < 0.2 and n == N else rng.randrange(1, n)


def _hflen(hf):
    return _HF[hf]().digest_size


def _valid(rng, tok, hf, mlen=None, q=None):
    """(msg, q, aux, xQ, r, s) signed by the real code in the current backend state; None when signing refuses
    (zero challenge on a toy curve)."""
    ec = _ec(tok)
    q = q or _key(rng, ec.n)
    msg = _rb(rng, rng.choice(MSG_LENS_QUICK) if mlen is None else mlen)
    aux = _aux(rng, _hflen(hf))
    try:
        sg = ssa.sign_(msg, q, aux, ec, _HF[hf])
    except Exception:  # noqa: BLE001
        return None
    return msg, q, aux, ssa.gen_keys(q, ec)[1], sg.r, sg.s


def _off_curve_x(rng, ec):
    while True:
        x = rng.randrange(ec.p)
        if not _curve._is_x_coordinate_var(x, ec):
            return x


def _mutate(rng, ec, v):
    """one structure-aware mutation of a valid (msg, x, r, s); returns (class, msg, x, r, s)."""
    msg, _, _, x, r, s = v
    p, n = ec.p, ec.n
    big = 1 << (8 * ec.p_size)
    muts = [
        ("valid", lambda: (msg, x, r, s)),
        ("s+1", lambda: (msg, x, r, (s + 1) % n)),
        ("s-bit", lambda: (msg, x, r, s ^ (1 << rng.randrange(max(1, n.bit_length() - 1))))),
        ("r-bit", lambda: (msg, x, r ^ (1 << rng.randrange(max(1, p.bit_length() - 1))), s)),
        ("x-bit", lambda: (msg, x ^ (1 << rng.randrange(max(1, p.bit_length() - 1))), r, s)),
        ("msg-bit", lambda: (bytes([msg[0] ^ 1]) + msg[1:] if msg else b"\x00", x, r, s)),
        ("msg-trunc", lambda: (msg[:-1] if msg else b"\x01", x, r, s)),
        ("s+n", lambda: (msg, x, r, s + n)),
        ("s=n", lambda: (msg, x, r, n)),
        ("s=0", lambda: (msg, x, r, 0)),
        ("n-s", lambda: (msg, x, r, (n - s) % n)),
        ("r+p", lambda: (msg, x, r + p, s)),
        ("r=p", lambda: (msg, x, p, s)),
        ("r=0", lambda: (msg, x, 0, s)),
        ("r>=big", lambda: (msg, x, big + r, s)),
        ("s>=big", lambda: (msg, x, r, big + s)),
        ("x>=big", lambda: (msg, big + x, r, s)),
        ("x+p", lambda: (msg, x + p, r, s)),
        ("x=0", lambda: (msg, 0, r, s)),
        ("x=p", lambda: (msg, p, r, s)),
        ("x-off", lambda: (msg, _off_curve_x(rng, ec), r, s)),
        ("r-off", lambda: (msg, x, _off_curve_x(rng, ec), s)),
        ("x-other", lambda: (msg, mult(rng.randrange(1, n), ec=ec)[0], r, s)),
        ("r-other", lambda: (msg, x, mult(rng.randrange(1, n), ec=ec)[0], s)),
        ("swap", lambda: (msg, r, x, s)),
    ]
    name, f = rng.choice(muts)
    return (name, *f())


def _vline(tok, hf, msg, x, r, s, op="ssa.verify"):
    return f"{op} {tok} {hf} {hx(msg)} {x} {r} {s}"


def _bline(tok, hf, coefs, items):
    c = ",".join(str(a) for a in coefs) if coefs else "-"
    return (f"ssa.batch {tok} {hf} {c} " + " ".join(f"{hx(m)}:{x}:{r}:{s}" for m, x, r, s in items)).strip()


def _sign_lines(ctx, rng, tok, hf, count, lens):
    ec = _ec(tok)
    lines = []
    for i in range(count):
        mlen = lens[i % len(lens)]
        q = _key(rng, ec.n)
        lines.append(f"ssa.sign {tok} {hf} {hx(_rb(rng, mlen))} {q} {hx(_aux(rng, _hflen(hf)))}")
    # refusals: key out of range, aux of the wrong size
    for q in (0, ec.n, ec.n + 1):
        lines.append(f"ssa.sign {tok} {hf} {hx(_rb(rng, 32))} {q} {hx(_rb(rng, _hflen(hf)))}")
    for k in (0, _hflen(hf) - 1, _hflen(hf) + 1):
        lines.append(f"ssa.sign {tok} {hf} {hx(_rb(rng, 32))} {_key(rng, ec.n)} {hx(_rb(rng, k))}")
    lines.append(f"ssa.sign0 {tok} {hf} {hx(_rb(rng, 32))} {_key(rng, ec.n)} {hx(_rb(rng, _hflen(hf)))}")
    lines.append(f"ssa.nonce {tok} {hf} {hx(_rb(rng, 7))} {_key(rng, ec.n)} {hx(_rb(rng, _hflen(hf)))}")
    lines.append(f"ssa.genkeys {tok} {_key(rng, ec.n)}")
    return lines


def _verify_lines(ctx, rng, tok, hf, count, stream, op="ssa.verify"):
    ec = _ec(tok)
    lines = []
    for _ in range(count):
        v = _valid(rng, tok, hf)
        if v is None:
            continue
        name, msg, x, r, s = _mutate(rng, ec, v)
        ctx.count(stream + "#mutation", name)
        lines.append(_vline(tok, hf, msg, x, r, s, op))
    return lines


def _batch_lines(ctx, rng, tok, hf, sizes, stream, bad_every_position=True):
    ec = _ec(tok)
    lines = []
    for size in sizes:
        items = []
        while len(items) < size:
            v = _valid(rng, tok, hf, mlen=rng.choice([0, 32, 32, 33, 64, 100]))
            if v is not None:
                items.append((v[0], v[3], v[4], v[5]))
        coefs = [rng.randrange(1, ec.n) for _ in range(max(0, size - 1))]
        lines.append(_bline(tok, hf, coefs, items))
        ctx.count(stream + "#shape", f"valid/{size}")
        if size == 0:
            continue
        # permutation and duplicates of a valid batch
        perm = items[:]
        rng.shuffle(perm)
        lines.append(_bline(tok, hf, coefs, perm))
        dup = [items[rng.randrange(size)] for _ in range(size)]
        lines.append(_bline(tok, hf, coefs, dup))
        ctx.count(stream + "#shape", f"perm+dup/{size}")
        positions = range(size) if bad_every_position and size <= 8 else sorted({0, size // 2, size - 1})
        for j in positions:
            how = rng.choice(["s", "msg", "r", "x", "s+n", "negs", "x-off", "r-off", "s=n", "x>=p"])
            it = items[j]
            if how in ("s", "msg", "r", "x", "s+n", "negs"):
                bad = _tamper(it, how, ec)
            elif how == "x-off":
                bad = (it[0], _off_curve_x(rng, ec), it[2], it[3])
            elif how == "r-off":
                bad = (it[0], it[1], _off_curve_x(rng, ec), it[3])
            elif how == "s=n":
                bad = (it[0], it[1], it[2], ec.n)
            else:
                bad = (it[0], it[1] + ec.p, it[2], it[3])
            b = items[:j] + [bad] + items[j + 1:]
            lines.append(_bline(tok, hf, coefs, b))
            ctx.count(stream + "#shape", f"bad@{j}/{size}:{how}")
    return lines


def _s2c_lines(ctx, rng, tok, hf, count):
    ec = _ec(tok)
    sign, ver = [], []
    for _ in range(count):
        msg, q, aux, commit = _rb(rng, rng.choice([0, 32, 45])), _key(rng, ec.n), _aux(rng, _hflen(hf)), _rb(rng, rng.choice([0, 1, 32, 64]))
        sign.append(f"ssa.s2c {tok} {hf} {hx(msg)} {q} {hx(aux)} {hx(commit)}")
        try:
            sg, rec = ssa.sign_(msg, q, aux, ec, _HF[hf], verify=False, commit_hash=commit)
        except Exception:  # noqa: BLE001
            continue
        x = ssa.gen_keys(q, ec)[1]
        other = mult(rng.randrange(1, ec.n), ec=ec)
        variants = [
            ("honest", msg, x, sg.r, sg.s, commit, rec),
            ("commit", msg, x, sg.r, sg.s, commit + b"\x01", rec),
            ("receipt-neg", msg, x, sg.r, sg.s, commit, (rec[0], ec.p - rec[1])),
            ("receipt-other", msg, x, sg.r, sg.s, commit, other),
            ("receipt-off", msg, x, sg.r, sg.s, commit, (rec[0], (rec[1] + 1) % ec.p or 1)),
            ("receipt-inf", msg, x, sg.r, sg.s, commit, (rec[0], 0)),
            ("sig", msg, x, sg.r, (sg.s + 1) % ec.n, commit, rec),
            ("msg", msg + b"\x00", x, sg.r, sg.s, commit, rec),
        ]
        for name, m, xx, r, s, c, rc in ([variants[0]] + [rng.choice(variants[1:])] + [rng.choice(variants[1:])]):
            ctx.count("ssa.s2cv#variant", name)
            ver.append(f"ssa.s2cv {tok} {hf} {hx(m)} {xx} {r} {s} {hx(c)} {rc[0]} {rc[1]}")
    return sign, ver


FALSY_COMMITS = [None, b"", b"\x00", b"0"]


def _opt_lines(ctx, rng, tok, hf, count):
    """optional arguments present-but-falsy: commit None / b"" / b"\x00" / random, through sign_, sign, verify_, verify;
    every (commit, receipt) presence combination on the verifying side; nonce 0 / n to commit_nonce_."""
    ec = _ec(tok)
    lines = []
    for i in range(count):
        msg = rng.choice([b"", b"\x00", _rb(rng, 32), _rb(rng, rng.choice([1, 33, 70]))])
        q, aux = _key(rng, ec.n), _aux(rng, _hflen(hf))
        commit = FALSY_COMMITS[i % len(FALSY_COMMITS)] if i < 2 * len(FALSY_COMMITS) else _rb(rng, rng.choice([1, 32, 40]))
        ctok = "None" if commit is None else hx(commit)
        for sop, vop, hashed in (("ssa.signopt", "ssa.verifyopt", False), ("ssa.signh", "ssa.verifyh", True)):
            lines.append(f"{sop} {tok} {hf} {hx(msg)} {q} {hx(aux)} {ctok}")
            try:
                kw = {"commit": commit} if hashed else {"commit_hash": commit}
                res = (ssa.sign if hashed else ssa.sign_)(msg, q, aux, ec, _HF[hf], verify=False, **kw)
            except Exception:  # noqa: BLE001
                continue
            sg, rec = res if isinstance(res, tuple) else (res, None)
            x = ssa.gen_keys(q, ec)[1]
            other = mult(rng.randrange(1, ec.n), ec=ec)
            rtok = "None None" if rec is None else f"{rec[0]} {rec[1]}"
            combos = [(ctok, rtok), (ctok, "None None"), ("None", rtok), ("_", rtok), ("_", "None None"), ("None", "None None"),
                      (ctok, f"{other[0]} {other[1]}"), ("00", rtok)]
            for c2, r2 in combos:
                ctx.count("ssa.opt#combo", ("commit=" + ("None" if c2 == "None" else "empty" if c2 == "_" else "bytes"))
                          + ",receipt=" + ("None" if r2.startswith("None") else "point"))
                lines.append(f"{vop} {tok} {hf} {hx(msg)} {x} {sg.r} {sg.s} {c2} {r2}")
            # what is no signature is False before the TypeError
            lines.append(f"{vop} {tok} {hf} {hx(msg)} {x} {sg.r} {sg.s + ec.n} {ctok} None None")
            lines.append(f"{vop} {tok} {hf} {hx(msg)} {x} {ec.p} {sg.s} None {other[0]} {other[1]}")
    for k in (0, ec.n, ec.n + 1, 1, ec.n - 1, rng.randrange(1, ec.n)):
        for c in (b"", _rb(rng, 32)):
            lines.append(f"ssa.commitnonce {tok} {hf} {hx(c)} {k}")
    return lines


def _codec_lines(ctx, rng, count):
    ser, par = [], []
    for _ in range(count):
        v = _valid(rng, "secp256k1", "sha256", mlen=32)
        r, s = v[4], v[5]
        r2, s2 = rng.choice([(r, s), (r, s), (r + P, s), (P, s), (r, N), (r, s + N), (_off_curve_x(rng, secp256k1), s), (0, 0),
                             (r, 0), (r, N - 1), (P - 1, s), (1 << 256, s), (r, 1 << 256), (rng.getrandbits(256), rng.getrandbits(256))])
        ser.append(f"ssa.ser secp256k1 {r2} {s2}")
        ctx.check("codec.roundtrip", {"r": r2, "s": s2}, nontrivial=r2 < P and s2 < N)
        b = (r2 % (1 << 256)).to_bytes(32, "big") + (s2 % (1 << 256)).to_bytes(32, "big")
        b = rng.choice([b, b, b, b[:-1], b + b"\x00", b"", b[:32], _rb(rng, 64), b"\xff" * 64, bytes(64)])
        par.append(f"ssa.parse {hx(b)}")
        ctx.check("codec.canonical", {"b": b.hex()})
    return ser, par


def _toy_exhaustive(ctx, rng, toys, cap, emin=0):
    """every (q,k,e), every (e,x,r,s), every (x,r,s) per message on toy curves; sampled beyond `cap` lines per stream."""
    qke, core, ver, misc = [], [], [], []
    for tok, ec in toys:
        n, p = ec.n, ec.p
        for q, k, e in itertools.product(range(1, n), range(1, n), range(n)):
            qke.append(f"ssa.qke {tok} {q} {k} {e}")
        # emin=1 on cofactor>1 curves: `_assert_as_valid_(0, Q, …)` multiplies a point outside the order-n subgroup by
        # n itself, which the model's `mult` reduces to 0; unreachable from the API (challenge_ refuses zero)
        # r runs to 2p+1: the private `_assert_as_valid_` compares x(K) with r mod p (`KJ[0] != Z²·r % p`), so r + p passes
        # where r does; only `Sig.assert_valid` in front of it (every public caller) insists on r < p
        for e, x, r, s in itertools.product(range(emin, n), range(p), range(2 * p + 2), range(n + 1)):
            core.append(f"ssa.core {tok} {e} {x} {r} {s}")
        for hf in ("sha256", "sha1"):
            for mi in range(2):
                msg = _rb(rng, rng.choice([0, 1, 32, 40]))
                for x, r, s in itertools.product(range(p + 1), range(p + 1), range(n + 1)):
                    ver.append(_vline(tok, hf, msg, x, r, s))
                for q in range(n + 1):
                    aux = _aux(rng, _hflen(hf))
                    misc.append(f"ssa.sign {tok} {hf} {hx(msg)} {q} {hx(aux)}")
                    misc.append(f"ssa.nonce {tok} {hf} {hx(msg)} {q} {hx(aux)}")
                for x, xk in itertools.product(range(p), range(0, p, 3)):
                    misc.append(f"ssa.challenge {tok} {hf} {hx(msg)} {x} {xk}")
        for q in range(n + 2):
            misc.append(f"ssa.genkeys {tok} {q}")
        for x in range(p + 2):
            misc.append(f"ssa.lift {tok} {x}")
    out = {}
    for name, lines in (("ssa.qke.toy", qke), ("ssa.core.toy", core), ("ssa.verify.toy", ver), ("ssa.misc.toy", misc)):
        full = len(lines) <= cap
        if not full:
            lines = rng.sample(lines, cap)
        out[name] = (lines, full)
    return out


# ------------------------------------------------------------------ run
def run(ctx):  # noqa: C901, PLR0912, PLR0915
    rng = ctx.rng
    thorough = ctx.tier == "thorough"
    shared.validate_hashes(ctx, EXE)
    ctx.note("secrets.randbelow is replaced by a stub replaying the listed coefficients, inside the harness process and "
             "for the duration of each ssa.batch call only; every other stream runs the unmodified library")
    initial = _curve.is_libsecp256k1_serving()
    try:
        _run(ctx, rng, thorough)
    finally:
        _curve.set_libsecp256k1_serving(serving=initial)


def _run(ctx, rng, thorough):  # noqa: C901, PLR0912, PLR0915
    K1 = "secp256k1"
    lens = list(range(201)) if thorough else MSG_LENS_QUICK

    # ---- BIP340 official vectors (corpus): correspondence lines + oracle, both arms
    rows = bip340_vectors()
    if not rows:
        ctx.note("BIP340 vector file not found under /repo/tests/ecc/_data")
    vec_lines = []
    for row in rows:
        ctx.check("bip340.vector", {"row": row})
        _, sk, pk, aux, msg, sig, _res = row[:7]
        if sk:
            vec_lines.append(f"ssa.sign {K1} sha256 {hx(bytes.fromhex(msg))} {int(sk, 16)} {hx(bytes.fromhex(aux))}")
        if len(sig) == 128:
            vec_lines.append(_vline(K1, "sha256", bytes.fromhex(msg), int(pk, 16), int(sig[:64], 16), int(sig[64:], 16)))

    # ---- secp256k1, both arms
    for lib, arm in ((False, "py"), (True, "lib")):
        with backend(lib):
            vop = "ssa.verifyc" if lib else "ssa.verify"
            ctx.stream(f"ssa.vectors.{arm}", [ln.replace("ssa.verify ", vop + " ") for ln in vec_lines])
            ctx.stream(f"ssa.sign.{arm}", _sign_lines(ctx, rng, K1, "sha256", ctx.n(len(MSG_LENS_QUICK) + 12, 402), lens))
            ctx.stream(f"ssa.verify.{arm}", _verify_lines(ctx, rng, K1, "sha256", ctx.n(120, 1500), f"ssa.verify.{arm}", vop))
            sizes = [0, 1, 2, 3, 4, 5, 6, 7, 8] + ([55, 56, 57] if (lib or thorough) else [56])
            ctx.stream(f"ssa.batch.{arm}", _batch_lines(ctx, rng, K1, "sha256", sizes, f"ssa.batch.{arm}",
                                                         bad_every_position=True))
            sgn, ver = _s2c_lines(ctx, rng, K1, "sha256", ctx.n(12, 150))
            ctx.stream(f"ssa.s2c.{arm}", sgn)
            ctx.stream(f"ssa.s2cv.{arm}", ver)
            ctx.stream(f"ssa.opt.{arm}", _opt_lines(ctx, rng, K1, "sha256", ctx.n(10, 80)))
            for commit in (b"", b"\x00", _rb(rng, 32)):
                ctx.check("s2c.falsy_commit", {"curve": K1, "hf": "sha256", "msg": _rb(rng, rng.choice([0, 32])).hex(),
                                               "q": _key(rng), "aux": _aux(rng, 32).hex(), "commit": commit.hex(), "lib": lib})
            for _ in range(ctx.n(12, 150)):
                w = {"curve": K1, "hf": "sha256", "msg": _rb(rng, rng.choice(lens)).hex(), "q": _key(rng),
                     "aux": _aux(rng, 32).hex(), "lib": lib}
                ctx.check("sign.verifies", w)
                ctx.check("s2c.opens", dict(w, commit=_rb(rng, rng.choice([0, 32, 33])).hex()))
            for size in ([1, 2, 3, 5, 8] + ([55, 56, 57] if (lib or thorough) else [])):
                members = [[_rb(rng, rng.choice([0, 32, 70])).hex(), _key(rng), _aux(rng, 32).hex()] for _ in range(size)]
                order = list(range(size))
                rng.shuffle(order)
                ctx.check("batch.all_valid", {"curve": K1, "hf": "sha256", "members": members, "lib": lib,
                                              "order": order + [rng.randrange(size)]})
                if size >= 2:
                    pr = sorted(rng.sample(range(size), 2))
                    for pair in ([0, 1], pr):
                        ctx.check("batch.cancelling_pair", {"curve": K1, "hf": "sha256", "members": members, "lib": lib,
                                                            "pair": pair})
                for pos in (range(size) if size <= 8 else [0, 27, size - 1]):
                    ctx.check("batch.one_tampered", {"curve": K1, "hf": "sha256", "members": members, "lib": lib,
                                                     "pos": pos, "how": rng.choice(["s", "msg", "r", "x", "s+n", "negs"])})
    # batch of one ≡ single verify: every hash function offered × valid / invalid member × both arms (+ other curves)
    for lib in (False, True):
        for hf in _HF:
            for tok in [K1] + ([rng.choice([t for t in _EC if t != K1 and not t.startswith("toy:")])] if not lib else []):
                for how in ["valid"] + rng.sample(["s", "msg", "r", "x", "s+n", "negs"], ctx.n(2, 6)):
                    ctx.check("batch.single_equiv", {"curve": tok, "hf": hf, "msg": _rb(rng, rng.choice([0, 32, 45])).hex(),
                                                     "q": rng.randrange(1, _ec(tok).n), "aux": _aux(rng, _hflen(hf)).hex(),
                                                     "how": how, "lib": lib})
    ser, par = _codec_lines(ctx, rng, ctx.n(60, 800))
    ctx.stream("ssa.ser", ser)
    ctx.stream("ssa.parse", par)
    for _ in range(ctx.n(10, 100)):
        ctx.check("backend.agree", {"msg": _rb(rng, rng.choice(lens)).hex(), "q": _key(rng), "aux": _aux(rng, 32).hex()})

    # ---- verify is total: arbitrary integers and octets, both arms (inside the oracle)
    for _ in range(ctx.n(60, 1500)):
        v = _valid(rng, K1, "sha256")
        name, msg, x, r, s = _mutate(rng, secp256k1, v)
        ctx.check("verify.total", {"curve": K1, "hf": "sha256", "msg": msg.hex(), "x": x, "r": r, "s": s})
        sb = (r % (1 << 256)).to_bytes(32, "big") + (s % (1 << 256)).to_bytes(32, "big")
        sb = rng.choice([sb, sb[:-1], sb + b"\x01", b"", _rb(rng, rng.randrange(130))])
        xb = rng.choice([(x % (1 << 256)).to_bytes(32, "big"), _rb(rng, 32), b"\x02" + _rb(rng, 32), b"\xff" * 32, bytes(32)])
        ctx.check("verify.total", {"curve": K1, "hf": "sha256", "msg": msg.hex(), "xbytes": xb.hex(), "sigbytes": sb.hex()},
                  nontrivial=len(sb) == 64)


    # ---- r >= p is never a signature: every catalogue curve (both arms where the bindings serve), and toy curves that have
    # a point of x = 0 enumerated over every nonce point K and every r = x(K) + j·p one octet more than p_size can carry
    for name, ec in CURVES.items():
        for lib in ((False, True) if ec is secp256k1 else (False,)):
            for hf in (rng.choice(["sha256", "sha256", "sha1", "sha512"]),):
                q, msg = rng.randrange(1, ec.n), _rb(rng, rng.choice([0, 32, 33]))
                for j in (1, 2):
                    ctx.check("verify.r_ge_p", {"curve": name, "hf": hf, "msg": msg.hex(), "q": q, "k": rng.randrange(1, ec.n),
                                                "j": j, "lib": lib})
                for sv in (0, 1, rng.randrange(ec.n)):
                    ctx.check("verify.r_ge_p", {"curve": name, "hf": hf, "msg": msg.hex(), "q": q, "j": 1, "s": sv, "lib": lib})
        ctx.count("verify.r_ge_p#curves", "catalogue, has a point of x = 0" if _curve._is_x_coordinate_var(0, ec)
                  else "catalogue, no point of x = 0")
    with backend(False):
        x0 = x0_toy_curves(43 if thorough else 23, per_prime=3 if thorough else 2)
        for tok, ec in x0:
            ctx.count("verify.r_ge_p#curves", f"toy with a point of x = 0, p % 4 = {ec.p % 4}, cofactor {'1' if ec.cofactor == 1 else '> 1'}")
            hits = 0
            for q, msg in [(rng.randrange(1, ec.n), _rb(rng, rng.choice([0, 1, 32]))) for _ in range(ctx.n(2, 6))]:
                hf = rng.choice(["sha256", "sha1"])
                for k in range(1, ec.n):
                    xk = mult(k, ec=ec)[0]
                    hits += xk == 0
                    for j in range(1, (256 + ec.p) // ec.p + 1):
                        ctx.check("verify.r_ge_p", {"curve": tok, "hf": hf, "msg": msg.hex(), "q": q, "k": k, "j": j},
                                  nontrivial=j == 1)
                for sv in range(ec.n):
                    ctx.check("verify.r_ge_p", {"curve": tok, "hf": hf, "msg": msg.hex(), "q": q, "j": 1, "s": sv})
            ctx.count("verify.r_ge_p#curves", "toy: r = p exactly with the equation holding mod p", hits)

    # ---- other hash functions / other catalogued curves (Python arm by construction)
    with backend(True):  # serving, yet not served: hf is not sha256 / the curve is not secp256k1
        other = []
        for hf in [h for h in _HF if h != "sha256"]:
            other += _sign_lines(ctx, rng, K1, hf, ctx.n(6, 60), lens)
            other += _verify_lines(ctx, rng, K1, hf, ctx.n(10, 100), "ssa.other")
            other += _batch_lines(ctx, rng, K1, hf, [2, 3], "ssa.other", bad_every_position=True)
        for tok in [t for t in _EC if t != K1 and not t.startswith("toy:")]:
            for hf in ("sha256", "sha1", "sha512"):
                other += _sign_lines(ctx, rng, tok, hf, ctx.n(2, 20), lens)[: ctx.n(6, 40)]
                other += _verify_lines(ctx, rng, tok, hf, ctx.n(4, 40), "ssa.other")
            other += _batch_lines(ctx, rng, tok, "sha256", [3], "ssa.other", bad_every_position=False)
        other += _opt_lines(ctx, rng, K1, "sha1", 4)
        ctx.stream("ssa.other", other)
        # an independent reference signer written from the BIP: names the failing input when a field is serialized on the
        # wrong number of octets (visible only where p_size != n_size) or a tag / mask / parity step changes
        for tok in [t for t in _EC if not t.startswith("toy:")]:
            ec = _ec(tok)
            ctx.count("sign.reference#sizes", "p_size!=n_size" if ec.p_size != ec.n_size else "p_size==n_size")
            for hf in ("sha256", "sha1", "sha512"):
                for _ in range(ctx.n(2, 12)):
                    ctx.check("sign.reference", {"curve": tok, "hf": hf, "msg": _rb(rng, rng.choice([0, 1, 32, 57])).hex(),
                                                 "q": rng.randrange(1, ec.n), "aux": _aux(rng, _hflen(hf)).hex()})
            ctx.check("s2c.falsy_commit", {"curve": tok, "hf": "sha256", "msg": "", "q": rng.randrange(1, ec.n),
                                           "aux": _aux(rng, 32).hex(), "commit": ""})
        for hf in [h for h in _HF if h != "sha256"]:
            ctx.check("sign.verifies", {"curve": K1, "hf": hf, "msg": _rb(rng, 33).hex(), "q": _key(rng),
                                        "aux": _aux(rng, _hflen(hf)).hex(), "lib": True})

    # ---- toy curves
    with backend(False):
        toys = toy_curves(131 if thorough else 31, per_prime=3 if thorough else 2, cof_per_prime=1)
        prime = [(t, e) for t, e in toys if e.cofactor == 1]
        cof = [(t, e) for t, e in toys if e.cofactor != 1]
        ctx.count("toy.curves", "cofactor-1", len(prime))
        ctx.count("toy.curves", "cofactor>1", len(cof))
        small = [(t, e) for t, e in prime if e.p <= (31 if thorough else 19)]
        for name, (lines, full) in _toy_exhaustive(ctx, rng, small, ctx.n(12000, 400000)).items():
            ctx.stream(name, lines)
            if full:
                ctx.exhaustive_streams.append(name)
        for name, (lines, full) in _toy_exhaustive(ctx, rng, cof[: (6 if thorough else 2)], ctx.n(3000, 100000), emin=1).items():
            ctx.stream(name.replace(".toy", ".cof"), lines)
        # batches on toy curves: every position, every size, and EVERY coefficient for the bad member
        bl = []
        for tok, ec in prime[:: (1 if thorough else 3)]:
            for hf in ("sha256", "sha1"):
                bl += _batch_lines(ctx, rng, tok, hf, [0, 1, 2, 3, 4, 5, 8] + ([55, 56, 57] if tok == prime[0][0] else []),
                                   "ssa.batch.toy")
            for _ in range(ctx.n(3, 12)):
                size = rng.choice([2, 3, 4, 6])
                members = [[_rb(rng, rng.choice([0, 5, 32])).hex(), rng.randrange(1, ec.n), _aux(rng, 32).hex()] for _ in range(size)]
                pos = rng.randrange(size)
                how = rng.choice(["s", "msg", "r", "x", "negs"])
                coefs = [rng.randrange(1, ec.n) for _ in range(size - 1)]
                w = {"curve": tok, "hf": "sha256", "members": members, "pos": pos, "how": how, "coefs": coefs}
                try:
                    ec_, hf_, items = _mk_batch(w)
                except Exception:  # noqa: BLE001 - signing refused (zero challenge): not a batch
                    ctx.count("ssa.batch.toy#shape", "skipped: zero challenge while signing")
                    continue
                ctx.check("batch.at_most_one_coeff", w)
                items[pos] = _tamper(items[pos], how, ec_)
                for a in range(1, ec.n):
                    cs = list(coefs)
                    if pos >= 1:
                        cs[pos - 1] = a
                    bl.append(_bline(tok, "sha256", cs, items))
                    if pos == 0:
                        break
        # two bad members: the batch passes for exactly the coefficients solving a_i·D_i + a_j·D_j = 0 — model and code
        # must agree line by line, which pins down WHICH coefficient multiplies WHICH member
        for tok, ec in prime[:: (1 if thorough else 3)]:
            for _ in range(ctx.n(2, 10)):
                size = rng.choice([2, 3, 5])
                members = [[_rb(rng, rng.choice([0, 5, 32])).hex(), rng.randrange(1, ec.n), _aux(rng, 32).hex()] for _ in range(size)]
                try:
                    ec_, hf_, items = _mk_batch({"curve": tok, "hf": "sha256", "members": members})
                except Exception:  # noqa: BLE001
                    continue
                i, j = sorted(rng.sample(range(size), 2))
                items[i] = _tamper(items[i], "s", ec_)
                items[j] = _tamper(items[j], rng.choice(["s", "negs", "msg"]), ec_)
                coefs = [rng.randrange(1, ec.n) for _ in range(size - 1)]
                passing = 0
                for a in range(1, ec.n):
                    cs = list(coefs)
                    cs[j - 1] = a
                    line = _bline(tok, "sha256", cs, items)
                    bl.append(line)
                    passing += impl(line) == "ok"
                ctx.count("ssa.batch.toy#two-bad", f"{passing} of {ec.n - 1} coefficients pass")
        ctx.stream("ssa.batch.toy", bl)
        s2 = [], []
        for tok, ec in prime[:: (1 if thorough else 3)]:
            a, b = _s2c_lines(ctx, rng, tok, rng.choice(["sha256", "sha1"]), ctx.n(6, 40))
            s2[0].extend(a)
            s2[1].extend(b)
            ctx.check("s2c.opens", {"curve": tok, "hf": "sha256", "msg": _rb(rng, 9).hex(), "q": rng.randrange(1, ec.n),
                                    "aux": _aux(rng, 32).hex(), "commit": _rb(rng, 32).hex()})
        ol = []
        for tok, ec in prime[:: (1 if thorough else 3)]:
            ol += _opt_lines(ctx, rng, tok, rng.choice(["sha256", "sha1"]), ctx.n(8, 40))
            ctx.check("sign.reference", {"curve": tok, "hf": "sha256", "msg": _rb(rng, 5).hex(), "q": rng.randrange(1, ec.n),
                                         "aux": _aux(rng, 32).hex()})
        ctx.stream("ssa.opt.toy", ol)
        ctx.stream("ssa.s2c.toy", s2[0])
        ctx.stream("ssa.s2cv.toy", s2[1])


def replay(ctx, rec):
    """Re-execute a recorded op line / oracle witness; `.py` streams run with the bindings switched off."""
    res = {"still_fails": False}
    if rec.get("property_oracle"):
        w = rec["property_oracle"]
        ok, detail = ORACLES[w["oracle"]](w["witness"])
        res.update(oracle=w["oracle"], ok=ok, detail=detail, still_fails=not ok)
    elif rec.get("op_line"):
        lib = not (rec.get("stream") or "").endswith((".py", ".toy", ".cof"))
        with backend(lib):
            out_impl = impl(rec["op_line"])
        out = ctx.model(EXE, [rec["op_line"]])
        res.update(op_line=rec["op_line"], impl=out_impl, model=out[0] if out else None, bindings_serving=lib,
                   still_fails=out is None or out[0] != out_impl)
    else:
        res["note"] = "record names obligations/streams only; re-run the check itself"
        res["still_fails"] = bool(ctx.broken)
    return res
