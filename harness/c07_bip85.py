"""C07 — the BIP85 applications that derive from a BIP32 path (bip85.py): op lines for the model
(`bip85.app`, Model/C07/Bip85.lean + the Lean SHAKE256), and a REFERENCE written from the text of BIP85
(hashlib.shake_256, hmac, own base64 / base85 / Base58Check / dice reader; btclib is used only for the BIP32 child
key, which the other streams of C07 tie) for the oracle `bip85.apps.reference` on the real code alone.
"""
from __future__ import annotations

import contextlib
import hashlib
import hmac as _hmac
import json

from btclib import base58, bip85
from btclib.bip32 import bip32
from btclib.bip32.bip32 import BIP32KeyData
from btclib.mnemonic import bip39 as _bip39

from . import common
from .common import hx

H = 2**31
PURPOSE = 83696968          # BIP85: "SEED" as decimal ASCII
SIDES = [2, 6, 10, 255, 256, 257, 1000, 65536, 65537, 2**31 - 1, 2**31, 2**32 - 1]
LANGS = {0: "en", 1: "ja", 2: "ko", 3: "es", 4: "zh", 5: "zh_tw", 6: "fr", 7: "it", 8: "cs", 9: "pt"}   # BIP85's Language Table
WORDS = {12: 16, 15: 20, 18: 24, 21: 28, 24: 32}                                                           # BIP85's Words Table
VECTORS = "/repo/tests/_data/bip85_test_vectors.json"


# ------------------------------------------------------------------ forcing BIP85's own HMAC
class _FakeHmac:
    def __init__(self, digest: bytes):
        self.forced = digest

    def new(self, key, msg=None, digestmod=""):
        forced = self.forced

        class _D:
            def digest(self_inner):
                return forced
        return _D()


@contextlib.contextmanager
def forced_entropy(tok: str):
    if tok == "none":
        yield
        return
    old = bip85.hmac
    bip85.hmac = _FakeHmac(bytes.fromhex(tok))
    try:
        yield
    finally:
        bip85.hmac = old


# ------------------------------------------------------------------ implementation side of the op lines
def _kind(e, kind):
    m = str(e)
    for sub in ("invalid number of rolls", "invalid number of sides", "invalid number of bytes", "invalid password length",
                "invalid number of words", "unnumbered bip85 language"):
        if sub in m:
            return "arg"
    if "private key not in 1..n-1" in m:      # b58.wif_from_prv_key on the leading 32 bytes
        return "bad-key"
    return kind(e)


def impl(line: str, xof, xtok, kind) -> str:
    t = line.split(" ")
    if t[0] == "shake256":
        return "ok " + (hashlib.shake_256(b"" if t[1] == "_" else bytes.fromhex(t[1])).digest(int(t[2])).hex() or "_")
    forced, x, app = t[1], xof(t[2:8]), t[8]
    a = [None if v == "none" else int(v) for v in t[9:]]
    try:
        with forced_entropy(forced):
            if app == "bip39":
                lang = LANGS.get(a[1], "ru")
                m = bip85.mnemonic_from_root_key(x, a[0], lang, a[2])
                bits = _bip39.entropy_from_mnemonic(m, lang)
                return "ok " + int(bits, 2).to_bytes(len(bits) // 8, "big").hex()
            if app == "hex":
                return "ok " + bip85.bytes_entropy_from_root_key(x, a[0], a[1]).hex()
            if app == "wif":
                # the Base58Check layer is C06's: the payload btclib's own decoder reads back
                return "ok " + base58.decode(bip85.wif_from_root_key(x, a[0])).hex()
            if app == "xprv":
                return "ok " + xtok(BIP32KeyData.b58decode(bip85.xprv_from_root_key(x, a[0])))
            if app == "pwd64":
                return "ok " + bip85.base64_password_from_root_key(x, a[0], a[1])
            if app == "pwd85":
                return "ok " + bip85.base85_password_from_root_key(x, a[0], a[1])
            if app == "rolls":
                return "ok " + ",".join(str(r) for r in bip85.rolls_from_root_key(x, a[0], a[1], a[2]))
            if app == "rsa":
                return "ok " + (bip85.rsa_drng_from_root_key(x, a[0], a[1], a[2]).read(a[3]).hex() or "_")
    except Exception as e:  # noqa: BLE001
        return "err " + _kind(e, kind)
    return "bad-op"


# ------------------------------------------------------------------ the reference, from the text of BIP85
def ref_entropy(x, levels):
    """k = the BIP32 child private key at m/83696968'/…  (all hardened); entropy = HMAC-SHA512("bip-entropy-from-k", k)."""
    k = bip32.derive_(x, [PURPOSE + H] + [lv + H for lv in levels]).key[1:]
    return _hmac.new(b"bip-entropy-from-k", k, hashlib.sha512).digest()


def ref_bits_per_roll(sides):
    """ceil(log2(sides)) without floats: the least b with 2^b >= sides."""
    b = 0
    while (1 << b) < sides:
        b += 1
    return b


def ref_rolls(entropy, sides, rolls):
    """BIP85 DICE: BIP85-DRNG-SHAKE256 seeded with the entropy, bytes_per_roll = ceil(bits_per_roll / 8) bytes per trial
    read as one BIG-endian integer, its excess low bits shifted out, a trial >= sides skipped."""
    bits = ref_bits_per_roll(sides)
    nbytes = (bits + 7) // 8
    excess = 8 * nbytes - bits
    want = (64 * rolls + 256) * nbytes
    stream = hashlib.shake_256(entropy).digest(want)
    out, pos = [], 0
    while len(out) < rolls:
        chunk = stream[pos:pos + nbytes]
        if len(chunk) < nbytes:
            raise RuntimeError("reference stream budget exhausted")
        pos += nbytes
        v = 0
        for byte in chunk:              # big-endian, spelled out
            v = v * 256 + byte
        v >>= excess
        if v < sides:
            out.append(v)
    return out


_B64 = "ABCDEFGHIJKLMNOPQRSTUVWXYZabcdefghijklmnopqrstuvwxyz0123456789+/"
_B85 = "0123456789ABCDEFGHIJKLMNOPQRSTUVWXYZabcdefghijklmnopqrstuvwxyz!#$%&()*+-;<=>?@^_`{|}~"
_B58 = "123456789ABCDEFGHJKLMNPQRSTUVWXYZabcdefghijkmnopqrstuvwxyz"


def ref_b64(data):
    out = ""
    for i in range(0, len(data), 3):
        g = data[i:i + 3]
        v = int.from_bytes(g + b"\x00" * (3 - len(g)), "big")
        cs = [_B64[(v >> s) & 63] for s in (18, 12, 6, 0)]
        out += "".join(cs[:len(g) + 1]) + "=" * (3 - len(g))
    return out


def ref_b85(data):
    out = ""
    for i in range(0, len(data), 4):
        g = data[i:i + 4]
        v = int.from_bytes(g + b"\x00" * (4 - len(g)), "big")
        cs = []
        for _ in range(5):
            v, r = divmod(v, 85)
            cs.append(_B85[r])
        out += "".join(reversed(cs))[:len(g) + 1]
    return out


def ref_b58check(payload):
    data = payload + hashlib.sha256(hashlib.sha256(payload).digest()).digest()[:4]
    v, out = int.from_bytes(data, "big"), ""
    while v:
        v, r = divmod(v, 58)
        out = _B58[r] + out
    return "1" * (len(data) - len(data.lstrip(b"\x00"))) + out


def _mainnet(x):
    from btclib import network
    return network.network_type_from_xkeyversion(x.version) == "main"


def reference(x, app, a):
    """What BIP85's text gives for application `app` (or "refuse" where the text leaves no answer)."""
    if app == "rolls":
        rolls, sides, index = a
        if rolls < 1 or sides < 2 or max(rolls, sides, index) >= H:
            return "refuse"
        return ref_rolls(ref_entropy(x, [89101, sides, rolls, index]), sides, rolls)
    if app == "hex":
        n, index = a
        if not 16 <= n <= 64 or index >= H:
            return "refuse"
        return ref_entropy(x, [128169, n, index])[:n]
    if app == "pwd64":
        n, index = a
        if not 20 <= n <= 86 or index >= H:
            return "refuse"
        return ref_b64(ref_entropy(x, [707764, n, index]))[:n]
    if app == "pwd85":
        n, index = a
        if not 10 <= n <= 80 or index >= H:
            return "refuse"
        return ref_b85(ref_entropy(x, [707785, n, index]))[:n]
    if app == "wif":
        (index,) = a
        if index >= H:
            return "refuse"
        e = ref_entropy(x, [2, index])
        return ref_b58check((b"\x80" if _mainnet(x) else b"\xef") + e[:32] + b"\x01")
    if app == "xprv":
        (index,) = a
        if index >= H:
            return "refuse"
        e = ref_entropy(x, [32, index])
        ver = bytes.fromhex("0488ade4" if _mainnet(x) else "04358394")
        return ref_b58check(ver + b"\x00" + b"\x00" * 4 + b"\x00" * 4 + e[:32] + b"\x00" + e[32:])
    if app == "bip39":
        words, lang, index = a
        if words not in WORDS or lang not in LANGS or index >= H:
            return "refuse"
        return ref_entropy(x, [39, lang, words, index])[: WORDS[words]]
    if app == "rsa":
        bits, index, sub, n = a
        if max(bits, index, sub or 0) >= H:
            return "refuse"
        e = ref_entropy(x, [828365, bits, index] + ([] if sub is None else [sub]))
        return hashlib.shake_256(e).digest(n)
    raise ValueError(app)


def real(x, app, a):
    if app == "rolls":
        return bip85.rolls_from_root_key(x, a[0], a[1], a[2])
    if app == "hex":
        return bip85.bytes_entropy_from_root_key(x, a[0], a[1])
    if app == "pwd64":
        return bip85.base64_password_from_root_key(x, a[0], a[1])
    if app == "pwd85":
        return bip85.base85_password_from_root_key(x, a[0], a[1])
    if app == "wif":
        return bip85.wif_from_root_key(x, a[0])
    if app == "xprv":
        return bip85.xprv_from_root_key(x, a[0])
    if app == "bip39":
        lang = LANGS.get(a[1], "ru")
        m = bip85.mnemonic_from_root_key(x, a[0], lang, a[2])
        # the sentence is BIP39 of the truncated entropy: checksum and word lookup are C13's; here the entropy
        bits = _bip39.entropy_from_mnemonic(m, lang)
        return int(bits, 2).to_bytes(len(bits) // 8, "big")
    if app == "rsa":
        d = bip85.rsa_drng_from_root_key(x, a[0], a[1], a[2])
        # read in pieces: a read is a squeeze of a prefix
        n = a[3]
        return d.read(n // 3) + d.read(0) + d.read(n - n // 3)
    raise ValueError(app)


def oracle_apps(w, xof, backend):
    """btclib's BIP85 application = the formula of BIP85's text (reference in this file), refusals where the text has no
    answer (a level that cannot be written hardened, a length out of the BIP's bounds)."""
    from btclib.exceptions import BTClibValueError
    x, app, a = xof(w["x"].split(" ")), w["app"], w["args"]
    with backend(w["serving"]):
        try:
            want = reference(x, app, a)
        except BTClibValueError:        # the BIP32 child itself does not exist (public root, invalid key)
            want = "refuse"
        try:
            got = real(x, app, a)
        except BTClibValueError as e:
            return want == "refuse", f"{app}{a}: refused ({str(e)[:50]}), reference {str(want)[:60]}"
    if want == "refuse":
        return False, f"{app}{a}: answered {str(got)[:60]} where BIP85 has no answer"
    if got != want:
        if app == "rolls":
            k = next((i for i, (g, r) in enumerate(zip(got, want)) if g != r), None)
            return False, f"rolls sides={a[1]} index={a[2]}: btclib {got[:6]}… BIP85 {want[:6]}… (first difference at roll {k})"
        return False, f"{app}{a}: btclib {str(got)[:50]} BIP85 {str(want)[:50]}"
    return True, f"{app}{a}"


def oracle_vectors(w, xof, backend):
    """BIP85's published vectors through the REFERENCE of this file (so the reference is anchored in the BIP) and through btclib."""
    v = json.load(open(VECTORS))
    root = BIP32KeyData.b58decode(v["master_bip32_root_key"])
    bad = []

    def both(app, a, want):
        r = reference(root, app, a)
        g = real(root, app, a)
        if r != want:
            bad.append(f"reference {app}{a}: {str(r)[:40]} != {str(want)[:40]}")
        if g != want:
            bad.append(f"btclib {app}{a}: {str(g)[:40]} != {str(want)[:40]}")
    with backend(w["serving"]):
        for c in v["dice"]:
            both("rolls", [int(c["rolls"]), int(c["sides"]), 0], [int(s) for s in c["derived_rolls"].split(",")])
        for c in v["hex"]:
            both("hex", [int(c["num_bytes"]), 0], bytes.fromhex(c["derived_entropy"]))
        for c in v["pwd_base64"]:
            both("pwd64", [int(c["pwd_len"]), 0], c["derived_pwd"])
        for c in v["pwd_base85"]:
            both("pwd85", [int(c["pwd_len"]), 0], c["derived_pwd"])
        for c in v["hd_seed_wif"]:
            both("wif", [0], c["derived_wif"])
        for c in v["xprv"]:
            both("xprv", [0], c["derived_xprv"])
        for c in v["bip39"]:
            both("bip39", [int(c["words"]), 0, 0], bytes.fromhex(c["derived_entropy"]))
        for c in v["drng"]:
            e = ref_entropy(root, [0, 0])
            if hashlib.shake_256(e).digest(int(c["num_bytes"])).hex() != c["drng"] or e.hex() != c["derived_entropy"]:
                bad.append("reference drng vector")
    return not bad, "; ".join(bad)[:400] or "all published vectors"


# ------------------------------------------------------------------ generators
def _index(rng):
    return rng.choice([0, 0, 1, 2, 7, 1000, H - 1, rng.randrange(H), H, 2**32 - 1])


def gen_cases(rng, keys, n):
    """(x, app, args) over every application; dice sides from SIDES (1-, 2-, 3- and 4-byte trials, powers of two and their
    neighbours), arguments at and around the BIP's bounds."""
    out = []
    apps = ["rolls"] * 6 + ["hex", "pwd64", "pwd85", "wif", "xprv", "bip39", "rsa"]
    for _ in range(n):
        x = rng.choice(keys)
        app = rng.choice(apps)
        if app == "rolls":
            sides = rng.choice(SIDES) if rng.random() < 0.9 else rng.choice([0, 1, 3, 100, 2**16 - 1, 2**24, 2**24 + 1, rng.randrange(2, H)])
            rolls = rng.choice([1, 2, 5, 10, 16, 25]) if rng.random() < 0.93 else rng.choice([0, H])
            a = [rolls, sides, _index(rng) if rng.random() < 0.3 else rng.randrange(0, 50)]
        elif app == "hex":
            a = [rng.choice([15, 16, 17, 32, 63, 64, 65, rng.randrange(16, 65)]), _index(rng)]
        elif app == "pwd64":
            a = [rng.choice([19, 20, 21, 85, 86, 87, rng.randrange(20, 87)]), _index(rng)]
        elif app == "pwd85":
            a = [rng.choice([9, 10, 12, 79, 80, 81, rng.randrange(10, 81)]), _index(rng)]
        elif app in ("wif", "xprv"):
            a = [_index(rng)]
        elif app == "bip39":
            a = [rng.choice([12, 15, 18, 21, 24, 24, 12, 13, 0]), rng.choice(list(LANGS) + [0, 0, 99]), _index(rng)]
        else:
            a = [rng.choice([1024, 2048, 4096, H]), _index(rng), rng.choice([None, None, 0, 1, 2, H]), rng.choice([0, 1, 32, 64, 200, 300])]
        out.append((x, app, a))
    return out


def line_of(x, app, a, xtok, forced="none"):
    return f"bip85.app {forced} {xtok(x)} {app} " + " ".join("none" if v is None else str(v) for v in a)


def forced_lines(rng, keys, n, xtok, N):
    """WIF / XPRV with BIP85's own HMAC forced: a leading / trailing half that is zero, n, above n (refused), n - 1, 1."""
    out = []
    for _ in range(n):
        x = rng.choice(keys)
        half = rng.choice([0, N, N + 1, 2**256 - 1, N - 1, 1, rng.randrange(1, N)]).to_bytes(32, "big")
        other = common.rand_bytes(rng, 32)
        app = rng.choice(["wif", "xprv", "rolls", "hex"])
        e = half + other if app != "xprv" else other + half
        a = {"wif": [rng.randrange(5)], "xprv": [rng.randrange(5)], "rolls": [rng.choice([3, 8]), rng.choice(SIDES[:9]), 0],
             "hex": [rng.choice([16, 40, 64]), 1]}[app]
        out.append(line_of(x, app, a, xtok, e.hex()))
    return out


def shake_lines(rng, n):
    out = ["shake256 00 0", "shake256 00 1", "shake256 ff 136", "shake256 1f 137"]
    for ln in (135, 136, 137, 271, 272, 273, 64):
        out.append(f"shake256 {hx(common.rand_bytes(rng, ln))} {rng.choice([1, 32, 135, 136, 137, 300])}")
    for _ in range(n):
        out.append(f"shake256 {hx(common.rand_bytes(rng, rng.randrange(0, 300)))} {rng.randrange(0, 600)}")
    return out
