"""C19 input groups: each `g_*(R, rng, n)` drives about n calls through c19_core.call_spec."""
from __future__ import annotations

import inspect
import re

from . import c19_core as C
from . import c19_gen as G
from . import c19_seeds as S

B, IO, L, T, D = G.B, G.IO, G.L, G.T, G.D
NOVAL = object()


def _class_ep(name, method):
    from . import c05_oracles as O
    cls = O._registry()[name].cls
    return f"{cls.__module__}.{cls.__qualname__}.{method}", getattr(cls, method)


def _as_data(rng, b, allow_stream=True):
    r = rng.random()
    if allow_stream and r < 0.35:
        return IO(b)
    if r < 0.42:
        return b.hex()          # Octets/BinaryData admit the hex string form
    return B(b)


# ----------------------------------------------------------------------------- 1. binary class parsers
def g_binary_classes(R, rng, n):
    names = sorted(S.CLASS_BIN)
    per = max(1, n // max(1, len(names)))
    for name in names:
        ep, fn = _class_ep(name, "parse")
        seeds = S.CLASS_BIN[name]
        allb = [b for b, _ in seeds]
        params = inspect.signature(fn).parameters
        for _ in range(per):
            b, kw = rng.choice(seeds)
            r = rng.random()
            data = b if r < 0.04 else (G.random_bytes(rng) if r < 0.10 else G.mutate_bytes(rng, b, allb))
            if rng.random() < 0.15:
                data = G.mutate_bytes(rng, data, allb)
            kwargs = dict(kw)
            if "check_validity" in params and rng.random() < 0.5:
                kwargs["check_validity"] = False
            if "psbt_version" in params and rng.random() < 0.2:
                kwargs["psbt_version"] = rng.choice([0, 2, 1, 3, -1, 2**32])
            if "rsizes" in kwargs:
                kwargs["rsizes"] = L(kwargs["rsizes"])
            if "block_hash" in kwargs and not isinstance(kwargs["block_hash"], (str, dict)):
                kwargs["block_hash"] = B(kwargs["block_hash"])
            C.call_spec(R, "binary", ep, [_as_data(rng, data)], kwargs, fn=fn)


def exhaustive_field_edits(R, name, limit_seeds=2):
    """thorough: every offset x every boundary value, and truncation at every offset, on the shortest seeds"""
    ep, fn = _class_ep(name, "parse")
    seeds = sorted(S.CLASS_BIN[name], key=lambda s: len(s[0]))[:limit_seeds]
    for b, kw in seeds:
        if len(b) > 400:
            continue
        kwargs = dict(kw)
        if "rsizes" in kwargs:
            kwargs["rsizes"] = L(kwargs["rsizes"])
        for off in range(len(b)):
            for m in G.field_edits(b, off):
                C.call_spec(R, "binary.exhaustive", ep, [B(m)], kwargs, fn=fn, consumers=False)
            C.call_spec(R, "binary.exhaustive", ep, [IO(b[:off])], kwargs, fn=fn, consumers=False)


# ----------------------------------------------------------------------------- 2. binary functions
BIN_FUNCS = {
    # ep: (seed source, extra kwargs choices)
    "btclib.var_int.parse": "varints",
    "btclib.var_bytes.parse": "varbytes",
    "btclib.script.script.parse": "scripts",
    "btclib.script.taproot.parse": "scripts",
    "btclib.script.sig_ops.sig_op_count": "scripts",
    "btclib.script.script.script_from_dict": "scripts",
    "btclib.descriptors.miniscript.from_script": "msscripts",
    "btclib.descriptors.miniscript.reads_back": "msscripts",
    "btclib.script.engine.validate_push_only": "scripts",
    "btclib.psbt.psbt_utils.deserialize_map": "maps",
    "btclib.psbt.psbt_utils.parse_leaf_script": "leafscript",
    "btclib.psbt.psbt_utils.parse_taproot_tree": "taptree",
    "btclib.psbt.psbt_utils.parse_taproot_bip32": "tapbip32",
    "btclib.psbt.psbt_utils.parse_musig2_participant_pub_keys": "keys33",
    "btclib.curves.sec_point.point_from_octets": "pubkeys",
    "btclib.to_pub_key.point_from_pub_key": "pubkeys",
    "btclib.ecc.ssa.point_from_bip340pub_key": "xonly",
    "btclib.utils.decode_num": "nums",
    "btclib.utils.bytes_from_octets": "any",
    "btclib.utils.bytesio_from_binarydata": "any",
    "btclib.block.proof_of_work.target_from_bits": "bits",
    "btclib.block.proof_of_work.bits_from_target": "h32",
    "btclib.block.proof_of_work.is_negative_bits": "bits",
    "btclib.ecc.ellswift.decode_var": "h64",
    "btclib.network.network_from_xkeyversion": "versions",
    "btclib.network.curve_from_xkeyversion": "versions",
    "btclib.bip32.key_origin.BIP32KeyOrigin.parse": "origins",
    "btclib.ecc.dsa.Sig.parse": "dersigs",
    "btclib.script.taproot.assert_valid_control_block": "controls",
}
for _n in ("is_p2pkh", "is_p2sh", "is_p2wpkh", "is_p2wsh", "is_p2tr", "is_p2pk", "is_p2ms", "is_nulldata", "is_segwit"):
    BIN_FUNCS[f"btclib.script.script_pub_key.{_n}"] = "scripts"


def _bin_seed(rng, kind):
    if kind == "varints":
        return G.varint_any(rng.choice(G.BOUNDARY + [0xFC, 0xFE, 0xFF, 0x100, 0x02000000, 0x02000001]), rng) + G.random_bytes(rng)[:3]
    if kind == "varbytes":
        body = G.random_bytes(rng)
        return G.varint_any(rng.choice([len(body), len(body), len(body) + 1, 0] + G.BOUNDARY), rng) + body
    if kind == "scripts":
        return rng.choice(S.SCRIPTS)
    if kind == "msscripts":
        b = rng.choice(S.MS_SCRIPTS or S.SCRIPTS)
        r = rng.random()
        if r < 0.55:
            return b
        # structure-aware: cut at instruction boundaries (drop leading instructions, trailing ones, one in the middle)
        from btclib.script import script as SC
        try:
            spans = list(SC.op_code_spans(b))
        except Exception:  # noqa: BLE001
            return b
        if len(spans) < 2:
            return b
        k = rng.randrange(1, len(spans))
        if r < 0.75:
            return b[spans[k][1]:]
        if r < 0.9:
            return b[:spans[k][1]]
        return b[:spans[k][1]] + b[spans[k][2]:]
    if kind == "maps":
        b, _ = rng.choice(S.CLASS_BIN.get("PsbtIn") or [(b"\x00", {})])
        return b
    if kind == "leafscript":
        return rng.choice(S.SCRIPTS) + bytes([rng.choice([0xC0, 0xC1, 0x50, 0, 0xFF])])
    if kind == "taptree":
        out = b""
        for _ in range(rng.choice([1, 2, 3])):
            sc = rng.choice(S.SCRIPTS)[:60]
            out += bytes([rng.choice([0, 1, 2, 128, 129, 255]), rng.choice([0xC0, 0xC1, 0, 0xFE])]) + G.varint(len(sc)) + sc
        return out
    if kind == "tapbip32":
        k = rng.choice([0, 1, 2, 3])
        return G.varint(k) + bytes(32 * k) + bytes(rng.getrandbits(8) for _ in range(4 * rng.choice([1, 2, 4])))
    if kind == "keys33":
        return b"".join(_pub33(rng) for _ in range(rng.choice([1, 2, 3])))
    if kind == "pubkeys":
        p = _pub33(rng)
        return rng.choice([p, _pub65(), p[1:], b"\x04" + p[1:] * 2, b"\x00", b"\x06" + _pub65()[1:]])
    if kind == "xonly":
        return _pub33(rng)[1:]
    if kind == "nums":
        return rng.choice([b"", b"\x00", b"\x80", b"\x01", b"\xff\x7f", b"\xff\xff\xff\xff\x7f", b"\x00" * 9, b"\x00\x80", bytes(rng.getrandbits(8) for _ in range(rng.randrange(10)))])
    if kind == "bits":
        return rng.choice([bytes.fromhex(h) for h in ("1d00ffff", "207fffff", "00000000", "ff7fffff", "03800000", "01003456", "2100ffff", "22000001", "04923456")])
    if kind == "h32":
        return rng.choice([bytes(32), b"\xff" * 32, bytes(31) + b"\x01", b"\x00\x00\x00\x00\xff\xff" + bytes(26), bytes(rng.getrandbits(8) for _ in range(32))])
    if kind == "h64":
        return bytes(rng.getrandbits(8) for _ in range(64))
    if kind == "versions":
        return rng.choice([bytes.fromhex(h) for h in ("0488ade4", "0488b21e", "04358394", "043587cf", "049d7878", "00000000", "ffffffff")])
    if kind == "origins":
        return bytes(rng.getrandbits(8) for _ in range(4 * rng.choice([1, 2, 3, 6])))
    if kind == "dersigs":
        from btclib.ecc import dsa
        return dsa.Sig(rng.randrange(1, 2**255), rng.randrange(1, 2**255), check_validity=False).serialize(check_validity=False)
    if kind == "controls":
        return bytes([rng.choice([0xC0, 0xC1, 0x50, 0xFF])]) + _pub33(rng)[1:] + bytes(32 * rng.choice([0, 1, 2, 128, 129]))
    return G.random_bytes(rng)


_PUBS = []


def _pub33(rng):
    if not _PUBS:
        from btclib.to_pub_key import pub_keyinfo_from_prv_key
        for k in (S.K1, S.K2, 1, 2, 3, 7):
            _PUBS.append(pub_keyinfo_from_prv_key(k, compressed=True)[0])
    return rng.choice(_PUBS)


def _pub65():
    from btclib.to_pub_key import pub_keyinfo_from_prv_key
    return pub_keyinfo_from_prv_key(S.K1, compressed=False)[0]


def g_binary_funcs(R, rng, n):
    eps = C.enumerate_entry_points()
    items = sorted(BIN_FUNCS.items())
    per = max(1, n // len(items))
    for ep, kind in items:
        try:
            fn = C.resolve(ep)
        except (ImportError, AttributeError):
            continue
        info = eps.get(ep)
        bool_ret = bool(info and info["bool_ret"])
        sig = inspect.signature(fn)
        first = next(iter(sig.parameters.values()))
        ann = str(first.annotation)
        stream_ok = "BinaryData" in ann or "BytesIO" in ann
        hex_ok = not (ann in ("bytes", "'bytes'"))
        for _ in range(per):
            b = _bin_seed(rng, kind)
            r = rng.random() if kind != "msscripts" else rng.random() * 0.5
            data = b if r < 0.25 else (G.random_bytes(rng) if r < 0.35 else G.mutate_bytes(rng, b, S.SCRIPTS[:8]))
            spec = B(data)
            if stream_ok and rng.random() < 0.3:
                spec = IO(data)
            elif hex_ok and rng.random() < 0.1 and not bool_ret:
                spec = data.hex()
            kwargs = {}
            if ep.endswith("dsa.Sig.parse"):
                kwargs = rng.choice([{}, {"strict": False}, {"check_validity": False}])
            if ep.endswith("taproot.parse") and rng.random() < 0.4:
                kwargs = {"exit_on_op_success": True}
            if ep.endswith(("miniscript.from_script", "miniscript.reads_back")) and rng.random() < 0.5:
                kwargs = {"context": rng.choice(["P2WSH", "TAPSCRIPT"])}
            if ep.endswith("var_int.parse") and rng.random() < 0.3:
                kwargs = {"max_size": rng.choice(G.BOUNDARY)}
            if ep.endswith("var_bytes.parse") and rng.random() < 0.3:
                kwargs = {"forbid_zero_size": True}
            C.call_spec(R, "binfunc", ep, [spec], kwargs, fn=fn, bool_ret=bool_ret)


# ----------------------------------------------------------------------------- 3. text parsers
def g_text(R, rng, n):
    eps = C.enumerate_entry_points()
    items = sorted((k, v) for k, v in S.TEXT.items() if not k.startswith("__") and v)
    per = max(1, n // len(items))
    generic = S.TEXT["__generic_str"]
    for ep, seeds in items:
        try:
            fn = C.resolve(ep)
        except (ImportError, AttributeError):
            continue
        info = eps.get(ep)
        bool_ret = bool(info and info["bool_ret"])
        params = inspect.signature(fn).parameters
        first_ann = str(next(iter(params.values())).annotation)
        for _ in range(per):
            s = rng.choice(seeds)
            r = rng.random()
            t = s if r < 0.06 else (G.random_text(rng) if r < 0.14 else (rng.choice(generic) if r < 0.18 else G.mutate_text(rng, s, seeds)))
            if rng.random() < 0.12:
                t = G.mutate_text(rng, t, seeds)
            arg = t
            if "String" in first_ann and rng.random() < 0.12:
                try:
                    arg = B(t.encode("utf8"))
                except UnicodeEncodeError:
                    arg = t
            kwargs = {}
            if "check_validity" in params and rng.random() < 0.3:
                kwargs["check_validity"] = False
            if "context" in params and rng.random() < 0.5:
                kwargs["context"] = rng.choice(["P2WSH", "TAPSCRIPT", "P2SH", "bogus", ""])
            if "network" in params and rng.random() < 0.3:
                kwargs["network"] = rng.choice(["mainnet", "testnet", "regtest", "signet", "bogus", "", "é"])
            if "lang" in params and rng.random() < 0.3:
                kwargs["lang"] = rng.choice(["en", "es", "fr", "xx", "", "é"])
            if "bip380_enforced" in params and rng.random() < 0.5:
                kwargs["bip380_enforced"] = True
            if "m" in params and ep.endswith("bech32.decode") and rng.random() < 0.3:
                kwargs["m"] = rng.choice([1, 0x2BC830A3, 0, -1, 2**64])
            if "out_size" in params and rng.random() < 0.3:
                kwargs["out_size"] = rng.choice([0, 1, 20, 21, 25, 78, 82, -1, 2**31])
            C.call_spec(R, "text", ep, [arg], kwargs, fn=fn, bool_ret=bool_ret)


# ----------------------------------------------------------------------------- 4. JSON (from_dict)
def g_json(R, rng, n):
    names = sorted(S.CLASS_JSON)
    per = max(1, n // len(names))
    for name in names:
        ep, fn = _class_ep(name, "from_dict")
        seeds = S.CLASS_JSON[name]
        params = inspect.signature(fn).parameters
        for _ in range(per):
            doc, _ = rng.choice(seeds)
            r = rng.random()
            m = doc if r < 0.05 else G.mutate_json(rng, doc)
            if rng.random() < 0.2 and isinstance(m, (dict, list)):
                m = G.mutate_json(rng, m) if not (isinstance(m, dict) and "deep" in m) else m
            kwargs = {}
            if "check_validity" in params and rng.random() < 0.4:
                kwargs["check_validity"] = False
            C.call_spec(R, "json", ep, [G.json_spec(m)], kwargs, fn=fn, consumers=not kwargs)


def _taproot_json_docs():
    """to_dict() forms of a PsbtOut with a two-leaf taproot tree and of a PsbtIn with a taproot leaf script: the two
    records whose ints (depth, leaf version) are written on ONE byte each; the vendored psbts carry neither."""
    from btclib.psbt.psbt_in import PsbtIn
    from btclib.psbt.psbt_out import PsbtOut
    cb = "c0" + "11" * 32
    import json
    docs = [("PsbtOut", PsbtOut(taproot_tree=[(1, 0xC0, "51"), (1, 0xC0, "52")]).to_dict()),
            ("PsbtIn", PsbtIn(taproot_leaf_scripts={cb: ("51", 0xC0)}).to_dict())]
    return [(name, json.loads(json.dumps(doc))) for name, doc in docs]     # as a json reader hands them over: lists, no tuples


def g_json_intfields(R, rng, n):
    """every int position of the taproot records of a psbt map x every boundary value and near-int type; what
    from_dict accepts goes on to the consumers (serialize, to_dict, ...), which is where a value that has no
    one-byte spelling used to leave through OverflowError / AttributeError"""
    vals = [-1, 0, 1, 0xC0, 0xFF, 0x100, 0xFFFF, 2**32, 2**64, -(2**63), 1.0, 192.0, 1.5, float("inf"), "1", "c0",
            True, None, [], {}]
    done = 0
    for name, doc in _taproot_json_docs():
        ep, fn = _class_ep(name, "from_dict")
        for key in ("taproot_tree", "taproot_leaf_scripts"):
            if not doc.get(key):
                continue
            for p in G.json_paths(doc[key], (key,)):
                tgt = doc
                for k in p:
                    tgt = tgt[k]
                if not isinstance(tgt, int) or isinstance(tgt, bool):
                    continue
                for v in vals:
                    C.call_spec(R, "json.intfields", ep, [G.json_spec(G.json_set(doc, p, v))], {}, fn=fn, consumers=True)
                    done += 1
    if not done:
        raise RuntimeError("json.intfields: no int position found in the taproot records (to_dict shape changed?)")
    return done


def json_every_key(R, name, limit=3):
    """thorough: a value of every wrong type at EVERY key of the seed documents"""
    ep, fn = _class_ep(name, "from_dict")
    import random
    wr = G.wrong_values(random.Random(0))
    for doc, _ in sorted(S.CLASS_JSON[name], key=lambda d: len(str(d[0])))[:limit]:
        for p in G.json_paths(doc):
            for w in wr:
                C.call_spec(R, "json.everykey", ep, [G.json_spec(G.json_set(doc, p, w))], {}, fn=fn, consumers=False)
            if p:
                C.call_spec(R, "json.everykey", ep, [G.json_spec(G.json_set(doc, p, None, delete=True))], {}, fn=fn, consumers=False)


JSON_FUNCS = {
    "btclib.utils.fields_from_json_object": lambda rng: [rng.choice(G.wrong_values(rng)), "x"],
    "btclib.utils.list_from_json_array": lambda rng: [rng.choice(G.wrong_values(rng)), "x"],
    "btclib.utils.int_from_json_number": lambda rng: [rng.choice(G.wrong_values(rng)), "x"],
    "btclib.script.script.script_from_dict": lambda rng: [rng.choice(G.wrong_values(rng) + [{"hex": "51"}, {"asm": "OP_1"}, {"hex": "zz"}, {"asm": 5}])],
    "btclib.psbt.psbt_utils.taproot_bip32_from_dict": lambda rng: [rng.choice([[], [{}], [{"pub_key": "00"}], [{"pub_key": "11" * 32, "leaf_hashes": [], "master_fingerprint": "00000000", "path": "m/0"}],
                                                                            [5], [None], {"deep": ["list", 10000, 0]}])],
    "btclib.bip32.key_origin.decode_from_bip32_derivs": lambda rng: [rng.choice([[], [{}], [{"pub_key": "02" + "11" * 32, "master_fingerprint": "00000000", "path": "m/0"}], [5], [[[]]]])],
    "btclib.bip32.key_origin.BIP32KeyOrigin.from_dict": lambda rng: [rng.choice([{}, {"master_fingerprint": "00000000", "path": "m/0h"}, {"master_fingerprint": 5, "path": None}, {"path": "m"}])],
    "btclib.network.Network.from_dict": lambda rng: [rng.choice([{}, {"name": 5}, {"deep": ["dict", 10000, 0]}])],
}


def _core_import_calls(rng):
    """valid calls of btclib.core_import: a `listdescriptors` reply and an `importdescriptors` exchange"""
    descs = [d for d in S.TEXT.get("btclib.descriptors.descriptors.strip_checksum", []) if "#" in d][:12] or ["pk(00)#00000000"]
    d = rng.choice(descs)
    entries = []
    for e in rng.sample(descs, min(len(descs), rng.choice([1, 2, 3]))) + [d]:
        ent = {"desc": e, "timestamp": rng.choice([0, 1700000000, "now"]), "active": rng.choice([True, False]),
               "internal": rng.choice([True, False])}
        if rng.random() < 0.7:
            lo = rng.choice([0, 5, 1000])
            ent["range"] = [lo, lo + rng.choice([0, 999, 2**31 - 1])]
            ent["next"] = lo
            ent["next_index"] = lo
        entries.append(ent)
    reply = {"wallet_name": "w", "descriptors": entries}
    request = {"desc": d, "timestamp": "now", "active": True, "internal": False, "range": [0, 999]}
    answers = [rng.choice([{"success": True}, {"success": True, "warnings": ["x"]},
                           {"success": False, "error": {"code": -4, "message": "new range must include current range"}}])]
    return [("btclib.core_import.watched_range", [d, reply], {}),
            ("btclib.core_import.watched_range", [G.mutate_text(rng, d), reply], {}),
            ("btclib.core_import.assert_imported", [[request], answers], {}),
            ("btclib.core_import.widened_range", [G.T([0, 999]), rng.choice([None, G.T([5, 2000]), G.T([2000, 5]), G.T([0]), G.T([])])], {}),
            ("btclib.core_import.import_request", [d], rng.choice([{"active": False}, {"timestamp": 0, "active": False}, {"key_range": G.T([0, 10])},
                                                                  {"label": "é", "internal": True, "active": False}, {}, {"next_index": 5},
                                                                  {"key_range": None, "active": False}])),
            ("btclib.core_import.import_request", [G.mutate_text(rng, d)], {})]


def g_core_import(R, rng, n):
    """the replies of a node (`listdescriptors`, `importdescriptors`) are hostile JSON like any other"""
    done = 0
    while done < n:
        for ep, args, kwargs in _core_import_calls(rng):
            r = rng.random()
            a = list(args)
            if ep.endswith("widened_range"):
                # two declared `tuple[int, int]` ranges (configuration, not a reply): any pair of integers
                pair = lambda: G.T([rng.choice([0, 1, 5, 999, 1000, 2**31 - 1, 2**31, -1]) for _ in range(2)])  # noqa: E731
                a = [pair(), rng.choice([None, pair()])]
            elif r > 0.12:
                i = rng.randrange(len(a))
                if isinstance(a[i], (dict, list)) and not (isinstance(a[i], dict) and a[i] and set(a[i]) <= {"t", "l"}):
                    a[i] = G.mutate_json(rng, a[i])
                elif isinstance(a[i], str):
                    a[i] = G.mutate_text(rng, a[i])
                else:
                    a[i] = rng.choice(G.wrong_values(rng))
            C.call_spec(R, "coreimport", ep, [x if isinstance(x, dict) and x and set(x) <= {"t", "l"} else G.json_spec(x) for x in a], kwargs)
            done += 1


def g_json_funcs(R, rng, n):
    items = sorted(JSON_FUNCS.items())
    per = max(1, n // len(items))
    for ep, gen in items:
        try:
            fn = C.resolve(ep)
        except (ImportError, AttributeError):
            continue
        for _ in range(per):
            C.call_spec(R, "json", ep, [G.json_spec(a) for a in gen(rng)], {}, fn=fn)


# ----------------------------------------------------------------------------- 5. boolean verifiers
def _mutate_spec(rng, s, pred=True):
    """a spec of the same declared type, mutated"""
    if isinstance(s, dict) and "b" in s:
        return B(G.mutate_bytes(rng, bytes.fromhex(s["b"])))
    if isinstance(s, str):
        try:
            b = bytes.fromhex(s)
            if pred:
                return G.mutate_bytes(rng, b).hex()
        except ValueError:
            pass
        return G.mutate_text(rng, s)
    if isinstance(s, dict) and "flag" in s:
        from btclib.script.engine.flags import ALL_FLAGS
        return {"flag": rng.choice([0, ALL_FLAGS.value, s["flag"] ^ (1 << rng.randrange(20)) & ALL_FLAGS.value, rng.getrandbits(32) & ALL_FLAGS.value])}
    if isinstance(s, dict) and "call" in s:
        name, cargs, ckw = s["call"]
        cargs = list(cargs)
        if cargs:
            i = rng.randrange(len(cargs))
            cargs[i] = _mutate_spec(rng, cargs[i], pred)
        return {"call": [name, cargs, ckw]}
    if isinstance(s, dict) and "obj" in s:
        name, hx = s["obj"]
        return {"obj": [name, G.mutate_bytes(rng, bytes.fromhex(hx)).hex()]}
    if isinstance(s, bool):
        return not s
    if isinstance(s, int):
        return rng.choice(G.BOUNDARY + [-1, s + 1, s - 1, -s, 2**256, 2**31])
    if isinstance(s, dict) and "l" in s:
        xs = list(s["l"])
        r = rng.random()
        if xs and r < 0.6:
            i = rng.randrange(len(xs))
            xs[i] = _mutate_spec(rng, xs[i], pred)
        elif r < 0.75:
            xs = xs[:-1]
        elif r < 0.9:
            xs = xs + xs[:1]
        else:
            xs = []
        return L(xs)
    if isinstance(s, dict) and "t" in s:
        xs = list(s["t"])
        if xs:
            i = rng.randrange(len(xs))
            xs[i] = _mutate_spec(rng, xs[i], pred)
        return T(xs)
    return s


def g_pred(R, rng, n):
    items = sorted((k, v) for k, v in S.PRED.items() if v)
    per = max(1, n // len(items))
    for ep, seeds in items:
        try:
            fn = C.resolve(ep)
        except (ImportError, AttributeError):
            continue
        for _ in range(per):
            args, kwargs = rng.choice(seeds)
            args = list(args)
            if rng.random() > 0.08:
                for _k in range(rng.choice([1, 1, 2])):
                    i = rng.randrange(len(args))
                    args[i] = _mutate_spec(rng, args[i])
            C.call_spec(R, "pred", ep, args, kwargs, fn=fn, bool_ret=True)


# ----------------------------------------------------------------------------- 6. every enumerated entry point, by type
def _ann(p):
    a = p.annotation
    if a is inspect.Parameter.empty:
        return ""
    return a if isinstance(a, str) else getattr(a, "__name__", str(a))


def value_for(ann, rng, pred, pname=""):
    """a spec of the declared type `ann` (mostly plausible, often hostile), or NOVAL"""
    a = ann.replace(" ", "")
    opts = a.split("|")
    if "None" in opts and rng.random() < 0.2:
        return None
    opts = [o for o in opts if o != "None"] or ["None"]
    o = rng.choice(opts)
    if o in ("Octets", "bytes", "BinaryData", "bytes|str|bytearray|memoryview", "_io.BytesIO", "bytearray", "memoryview", "BIP340PubKey", "PubKey", "Key"):
        r = rng.random()
        if o in ("PubKey", "Key", "BIP340PubKey") and r < 0.6:
            p = _pub33(rng)
            return rng.choice([B(p), B(_pub65()), B(p[1:]), p.hex()]) if o != "BIP340PubKey" else rng.choice([B(p[1:]), p[1:].hex(), int.from_bytes(p[1:], "big")])
        b = rng.choice([G.random_bytes(rng), rng.choice(S.SCRIPTS), _pub33(rng), bytes(32), bytes(20), b""])
        if o == "BinaryData" and r < 0.3:
            return IO(b)
        if o in ("Octets", "BinaryData") and r < 0.45:
            return b.hex() if pred else rng.choice([b.hex(), b.hex()[:-1], "zz", b.hex().upper(), " " + b.hex()])
        return B(b)
    if o in ("String", "str", "Mnemonic", "BinStr", "BIP32Key", "PrvKey", "DerPath", "Entropy"):
        pool = S.TEXT["__generic_str"]
        r = rng.random()
        if o == "PrvKey" and r < 0.4:
            return rng.choice([S.K1, 1, 0, -1, 2**256, B(S.K1.to_bytes(32, "big"))])
        if o == "DerPath" and r < 0.4:
            return rng.choice([L([0, 1]), L([2**31, 2**32]), L([-1]), B(bytes(8)), "m/0h/1", L([])])
        if o == "BIP32Key" and r < 0.6:
            return rng.choice([S.XPRV, pool[6] if len(pool) > 6 else S.XPRV])
        if o == "BinStr" and r < 0.6:
            return rng.choice(["0" * 128, "01" * 64, "1" * 127, "", "2", "0b1"])
        if o == "Entropy" and r < 0.5:
            return rng.choice(["0" * 128, B(bytes(16)), 2**127, 0, -1])
        if pname in ("network",):
            return rng.choice(["mainnet", "testnet", "regtest", "signet", "bogus", ""])
        if pname in ("lang",):
            return rng.choice(["en", "it", "xx", ""])
        if pname in ("what", "type_"):
            return "field"
        if r < 0.55:
            return rng.choice(pool)
        if r < 0.8:
            return G.mutate_text(rng, rng.choice(pool), pool)
        return G.random_text(rng)
    if o in ("ScriptFlag", "ScriptFlags"):
        from btclib.script.engine.flags import ALL_FLAGS, ScriptFlag
        r = rng.random()
        if o == "ScriptFlags" and r < 0.35:
            names = [m.name for m in ScriptFlag if m.name]
            k = rng.sample(names, rng.choice([0, 1, 2, 5]))
            return rng.choice([",".join(k), L(k), "NONE", "bogus", "", L(["P2SH", "bogus"]), ",".join(k).lower()])
        return {"flag": rng.choice([0, ALL_FLAGS.value, rng.getrandbits(32) & ALL_FLAGS.value, 1])}
    if o in ("int", "Integer"):
        # configuration integers (sizes, indexes, counts) are not the hostile bytes/text/JSON the property
        # quantifies over: plausible values only; hostile integers live inside byte fields and JSON documents
        if pname in ("i", "vin_i", "index", "address_index", "branch", "key_index", "key_id", "m") or pname.endswith("_index"):
            return rng.choice([0, 0, 1])
        return rng.choice([0, 1, 2, 3, 5, 8, 16, 32, 100, 128, 256, 1000])
    if o == "bool":
        return rng.choice([True, False])
    if o in ("Any",):
        return G.json_spec(rng.choice(G.wrong_values(rng)))
    if o in ("Mapping[str,Any]", "Mapping[str,str]"):
        return G.json_spec(rng.choice([{}, {"a": 1}, {"hex": "00"}, {"deep": ["dict", 10000, 0]}]))
    if o in ("Sequence[Octets]", "Iterable[Octets]", "list[bytes]", "Sequence[bytes]"):
        return L(B(G.random_bytes(rng)) for _ in range(rng.choice([0, 1, 2, 5])))
    if o in ("Sequence[int]", "list[int]", "Iterable[int]"):
        return L(rng.choice([0, 1, 2, 5, 31, 32, 255, 2047, 2048]) for _ in range(rng.choice([0, 1, 3, 8])))
    if o in ("Sequence[Mnemonic]",):
        return L(rng.choice(S.TEXT["__generic_str"]) for _ in range(rng.choice([0, 1, 2])))
    if o in ("Point", "tuple[int,int]"):
        r = rng.random()
        if r < 0.5:
            from btclib.curves import mult
            p = mult(rng.choice([1, 2, 3, S.K1]))
            return T([p[0], p[1]])
        return T([rng.choice([0, 1, 2**256, -1]), rng.choice([0, 1, 2**256 - 1])])
    if o in ("Decimal",):
        return {"dec": rng.choice(["0", "1", "0.00000001", "21000000", "-1", "1e-9", "NaN", "Infinity", "1e30"])}
    if o in ("Tx",):
        b = rng.choice(S.VALID["Tx"])
        return {"obj": ["btclib.tx.tx.Tx", b.hex()]}
    if o in ("list[TxOut]", "Sequence[TxOut]"):
        return L({"obj": ["btclib.tx.tx_out.TxOut", (rng.choice([0, 1, 10**5]).to_bytes(8, "little") + G.varint(len(s)) + s).hex()]}
                 for s in [rng.choice(S.SCRIPTS)[:80] for _ in range(rng.choice([0, 1, 2]))])
    if o in ("Psbt",):
        b = rng.choice(S.VALID["Psbt"])
        return {"obj": ["btclib.psbt.psbt.Psbt", b.hex()]}
    return NOVAL


def g_generic(R, rng, n):
    eps = C.enumerate_entry_points()
    names = sorted(eps)
    per = max(1, n // len(names))
    for ep in names:
        info = eps[ep]
        params = list(info["sig"].parameters.values())
        for _ in range(per):
            args, kwargs, ok = [], {}, True
            for p in params:
                if p.kind in (p.VAR_POSITIONAL, p.VAR_KEYWORD):
                    continue
                has_default = p.default is not inspect.Parameter.empty
                if has_default and (rng.random() < 0.65 or p.name in ("ec", "hf", "G", "wordlists", "magic", "version", "commit", "commit_hash", "receipt")):
                    continue
                v = value_for(_ann(p), rng, info["bool_ret"], p.name)
                if v is NOVAL:
                    if has_default:
                        continue
                    ok = False
                    break
                if p.kind == p.KEYWORD_ONLY or (has_default and args is None):
                    kwargs[p.name] = v
                elif has_default:
                    kwargs[p.name] = v
                else:
                    args.append(v)
            if not ok:
                R.counts[("generic", ep, "undriven")] = R.counts.get(("generic", ep, "undriven"), 0) + 1
                break
            C.call_spec(R, "generic", ep, args, kwargs, fn=info["fn"], bool_ret=info["bool_ret"])


# ----------------------------------------------------------------------------- 7. nesting to depth 10^4
def g_deep(R, rng, n):
    pk = _pub33(rng).hex()
    xo = pk[2:]
    depths = [10, 100, 128, 129, 130, 500, 998, 1000, 3000, 10000]
    cases = []
    for d in depths:
        cases += [
            ("btclib.descriptors.descriptors.parse", {"rep": ["sh(", d, f"pk({pk})", ")"]}),
            ("btclib.descriptors.descriptors.parse", {"rep": ["wsh(", d, f"pk({pk})", ")"]}),
            ("btclib.descriptors.descriptors.parse", {"rep": [f"tr({xo},", 1, {"rep": ["{", d, f"pk({xo})", f",pk({xo})}}"]}, ")"]}),
            ("btclib.descriptors.descriptors.parse", {"rep": [f"tr({xo},", 1, {"rep": [f"{{pk({xo}),", d, f"pk({xo})", "}"]}, ")"]}),
            ("btclib.descriptors.descriptors.parse", {"rep": [f"tr({xo},", 1, {"rep": [f"{{{{pk({xo}),pk({xo})}},", d, f"pk({xo})", "}"]}, ")"]}),
            ("btclib.descriptors.descriptors.parse", {"rep": ["wsh(", 1, {"rep": [f"and_v(v:pk({pk}),", d, f"pk({pk})", ")"]}, ")"]}),
            ("btclib.descriptors.miniscript.parse", {"rep": [f"and_v(v:pk({pk}),", d, f"pk({pk})", ")"]}),
            ("btclib.descriptors.miniscript.parse", {"rep": [f"or_i(0,", d, f"pk({pk})", ")"]}),
            ("btclib.descriptors.miniscript.parse", {"rep": [f"andor(pk({pk}),older(1),", d, f"pk({pk})", ")"]}),
            ("btclib.descriptors.miniscript.parse", {"rep": [f"thresh(1,pk({pk}),s:", d, f"pk({pk})", ")"]}),
            ("btclib.descriptors.descriptors.parse", {"rep": ["wsh(", 1, {"rep": ["and_v(v:", d, f"pk({pk})", f",pk({pk}))"]}, ")"]}),
            ("btclib.descriptors.descriptors.parse", {"rep": ["(", d, "", ")"]}),
            ("btclib.descriptors.descriptors.parse", {"rep": ["[", d, pk, "]"]}),
            ("btclib.descriptors.descriptors.checksum", {"rep": ["sh(", d, "x", ")"]}),
            ("btclib.descriptors.miniscript.parse", {"rep": ["and_v(v:", d, f"pk({pk})", f",pk({pk}))"]}),
            ("btclib.descriptors.miniscript.parse", {"rep": ["or_i(", d, f"pk({pk})", ",0)"]}),
            ("btclib.descriptors.miniscript.parse", {"rep": ["a", d, f":pk({pk})", ""]}),
            ("btclib.descriptors.miniscript.parse", {"rep": ["thresh(1,", d, f"pk({pk})", ")"]}),
            ("btclib.descriptors.miniscript.parse", {"rep": ["l:", d, "1", ""]}),
            ("btclib.descriptors.miniscript.parse", {"rep": ["(", d, "", ")"]}),
            ("btclib.bip32.der_path.indexes_from_der_path", {"rep": ["m", 1, {"rep": ["/0", d, "", ""]}, ""]}),
            ("btclib.bip21.Bip21.parse", {"rep": ["bitcoin:?", 1, {"rep": ["a=1&", d, "", ""]}, ""]}),
        ]
        # a caller's script tree nested d deep (left spine and right spine), through every function that walks it
        lf = G.L([G.T([0xC0, G.L(["OP_1"])])])
        for spine in ({"deep2": ["left", d, lf]}, {"deep2": ["right", d, lf]}):
            cases += [("btclib.script.taproot.tree_helper", spine), ("btclib.script.taproot.output_pubkey", [None, spine]),
                      ("btclib.script.taproot.output_prvkey", [1, spine]), ("btclib.script.script_pub_key.ScriptPubKey.p2tr", [None, spine])]
        # scripts nested in IFs / long scripts read back as miniscript
        cases.append(("btclib.descriptors.miniscript.from_script", B(b"\x63" * d + b"\x51" + b"\x68" * d)))
        cases.append(("btclib.script.script.parse", B(b"\x63" * d + b"\x68" * d)))
        for name in ("Psbt", "Tx", "PsbtIn", "TxIn", "Witness", "Block", "BlockHeader", "OutPoint", "TxOut", "PsbtOut", "BIP32KeyOrigin"):
            if name in S.CLASS_JSON:
                ep, _ = _class_ep(name, "from_dict")
                doc, _kw = rng.choice(S.CLASS_JSON[name])
                keys = list(doc) if isinstance(doc, dict) else []
                for kind in ("list", "dict"):
                    cases.append((ep, {"deep": [kind, d, 0]}))
                    if keys:
                        k = rng.choice(keys)
                        cases.append((ep, G.json_spec(G.json_set(doc, (k,), {"deep": [kind, d, 0]}))))
    for L in G.DIGIT_RUNS:
        for dg in ("9" * L, "1" * L, "0" * L + "1", "-" + "9" * L):
            cases += [
                ("btclib.descriptors.descriptors.parse", f"multi({dg},{pk})"),
                ("btclib.descriptors.descriptors.parse", f"wsh(multi({dg},{pk},{pk}))"),
                ("btclib.descriptors.descriptors.parse", f"wsh(and_v(v:pk({pk}),older({dg})))"),
                ("btclib.descriptors.descriptors.parse", f"tr({xo},multi_a({dg},{xo}))"),
                ("btclib.descriptors.descriptors.parse", f"wpkh({S.XPRV}/{dg}/*)"),
                ("btclib.descriptors.descriptors.parse", f"wpkh([d34db33f/{dg}h]{pk})"),
                ("btclib.descriptors.descriptors.parse", f"wpkh({S.XPRV}/<{dg};1>/*)"),
                ("btclib.descriptors.miniscript.parse", f"older({dg})"),
                ("btclib.descriptors.miniscript.parse", f"after({dg})"),
                ("btclib.descriptors.miniscript.parse", f"multi({dg},{pk})"),
                ("btclib.descriptors.miniscript.parse", f"thresh({dg},pk({pk}))"),
                ("btclib.bip32.der_path.indexes_from_der_path", f"m/{dg}"),
                ("btclib.bip32.der_path.indexes_from_der_path", f"m/{dg}h/0"),
                ("btclib.bip32.der_path.int_from_index_str", dg),
                ("btclib.bip32.key_origin.BIP32KeyOrigin.from_description", f"d34db33f/{dg}"),
                ("btclib.bip21.Bip21.parse", f"bitcoin:?amount={dg}"),
                ("btclib.bip21.Bip21.parse", f"bitcoin:?amount=0.{dg}"),
                ("btclib.amount.sats_from_btc", {"dec": "1"}),
                ("btclib.mnemonic.entropy.bin_str_entropy_from_str", dg),
                ("btclib.base58.decode", dg),
                ("btclib.bech32.decode", "bc1" + dg),
                ("btclib.tx_or_psbt.tx_or_psbt_from_any", dg),
            ]
            for name in ("Tx", "TxOut", "TxIn", "OutPoint", "PsbtIn", "PsbtOut", "Psbt", "BlockHeader"):
                if name in S.CLASS_JSON:
                    ep, _ = _class_ep(name, "from_dict")
                    doc, _kw = rng.choice(S.CLASS_JSON[name])
                    for k in list(doc)[:12]:
                        cases.append((ep, G.json_spec(G.json_set(doc, (k,), dg))))
    # deterministic cover: the cases are dealt out over the deep tasks of a run (task k takes every 4th case)
    import random as _random
    _random.Random(0).shuffle(cases)
    part = getattr(rng, "seed_value", 0) & 3
    if n < len(cases):
        cases = cases[part::4]
    for ep, spec in cases[:n]:
        if isinstance(spec, list):
            C.call_spec(R, "deep", ep, spec, {}, consumers=False)
            continue
        spec = _flatten_rep(spec)
        C.call_spec(R, "deep", ep, [spec], {}, consumers=False)


def _flatten_rep(spec):
    """nested {"rep": …} in the middle position -> plain string middle (materialize handles one level)"""
    if isinstance(spec, dict) and "rep" in spec:
        o, n, mid, c = spec["rep"]
        if isinstance(mid, dict):
            mid = G.materialize(_flatten_rep(mid))
            if len(mid) > 200000:
                mid = mid[:200000]
        return {"rep": [o, n, mid, c]}
    return spec


# ----------------------------------------------------------------------------- 8. the text-encoding layer (C06's candidates)
def g_textcodec(R, rng, n):
    hrps = ["bc", "tb", "", "é", "BC", "b c", "a" * 84, "\ud800", "１", "bc1", "\x7f", " "]
    for _ in range(n):
        k = rng.random()
        if k < 0.3:
            data = [rng.choice([0, 1, 31, 16, 5]) for _ in range(rng.choice([0, 1, 8, 33, 53]))]
            if data and rng.random() < 0.2:
                data[rng.randrange(len(data))] = rng.choice([32, -1, 2**64, 255])
            kwargs = {} if rng.random() < 0.7 else {"m": rng.choice([1, 0x2BC830A3, 0, -1])}
            C.call_spec(R, "textcodec", "btclib.bech32.encode", [rng.choice(hrps), L(data)], kwargs)
        elif k < 0.6:
            data = L(rng.choice([0, 1, 31, 255, 256, -1]) for _ in range(rng.choice([0, 1, 5, 20, 32])))
            fb, tb = rng.choice([(8, 5), (5, 8), (8, 8), (1, 1), (0, 5), (8, 0), (0, 0), (-1, 5), (5, -1), (64, 5), (8, 2**16)])
            C.call_spec(R, "textcodec", "btclib.b32.power_of_2_base_conversion", [data, fb, tb, rng.choice([True, False])], {}, limit=1.5)
        elif k < 0.8:
            C.call_spec(R, "textcodec", "btclib.b32.address_from_witness",
                        [rng.choice([0, 1, 16, 17, -1]), B(bytes(rng.choice([0, 1, 2, 20, 32, 40, 41]))), rng.choice(["mainnet", "testnet", "bogus", "é"])], {})
        else:
            kw = {} if rng.random() < 0.6 else {"in_size": rng.choice([0, 1, 20, 32, -1, 2**31])}
            C.call_spec(R, "textcodec", "btclib.base58.encode", [B(G.random_bytes(rng))], kw)


# ----------------------------------------------------------------------------- 9. witness stacks into the consensus consumers
def g_witness_consumers(R, rng, n):
    from btclib.script import Witness
    from btclib.script.script_pub_key import ScriptPubKey
    from btclib.tx import OutPoint, Tx, TxIn, TxOut
    spks = [ScriptPubKey.p2tr(S.K1).script, bytes.fromhex("0014" + "11" * 20), bytes.fromhex("0020" + "55" * 32),
            bytes.fromhex("a914" + "44" * 20 + "87"), bytes.fromhex("5120" + "22" * 32), bytes.fromhex("6002aabb")]
    for _ in range(n):
        stack = []
        for _k in range(rng.choice([0, 1, 2, 3, 4, 5])):
            stack.append(rng.choice([b"", b"\x50", b"\xc0", b"\xc1" + bytes(32), bytes(64), bytes(65), bytes(33), b"\x51", G.random_bytes(rng),
                                     b"\xc0" + bytes(32) + bytes(32 * rng.choice([0, 1, 128, 129])), rng.choice(S.SCRIPTS)[:100]]))
        spk = rng.choice(spks)
        ssig = rng.choice([b"", b"\x00", bytes.fromhex("160014" + "11" * 20), bytes.fromhex("220020" + "55" * 32), b"\x51", b"\x4c"])
        vin = TxIn(OutPoint(b"\x11" * 32, 0), ssig, check_validity=False)
        vin.script_witness = Witness(stack, check_validity=False)
        tx = Tx(vin=[vin], vout=[TxOut(90_000, spk, check_validity=False)], check_validity=False)
        b = tx.serialize(include_witness=True, check_validity=False)
        # the accepted object goes through Tx.parse, then every consumer (sighash, engine) with these prevouts first
        C.call_spec(R, "witness", "btclib.tx.tx.Tx.parse", [B(b)], {"check_validity": False})
        prev = {"obj": ["btclib.tx.tx_out.TxOut", ((100_000).to_bytes(8, "little") + G.varint(len(spk)) + spk).hex()]}
        txs = {"obj": ["btclib.tx.tx.Tx", b.hex()]}
        C.call_spec(R, "witness", "btclib.script.engine.verify_input", [L([prev]), txs, 0], {}, consumers=False)
        C.call_spec(R, "witness", "btclib.script.sig_hash.from_tx", [L([prev]), txs, 0, rng.choice([0, 1, 2, 3, 0x81, 0x83, 4, 0xFF, 256, -1])], {},
                    consumers=False)


def g_psbt_degenerate(R, rng, n):
    """every PSBT whose inputs spend 0/1/2-byte scripts (silent-payment ones first): accepted, then every consumer"""
    seeds = S.DEGENERATE
    if not seeds:
        return
    part = getattr(rng, "seed_value", 0) & 1
    for b in seeds[part::2][:n]:
        C.call_spec(R, "psbt.degenerate", "btclib.psbt.psbt.Psbt.parse", [B(b)], {})
        C.call_spec(R, "psbt.degenerate", "btclib.psbt.psbt.Psbt.parse", [IO(b)], {"check_validity": False})


def g_ms_decode(R, rng, n):
    """every compiled miniscript with leading instructions dropped, trailing ones cut, one removed, one byte
    changed into another op code: handed to the decoder in both contexts (deterministic, exhaustive)"""
    from btclib.script import script as SC
    eps = ["btclib.descriptors.miniscript.from_script", "btclib.descriptors.miniscript.reads_back"]
    part = getattr(rng, "seed_value", 0) & 1
    done = 0
    for b in S.MS_SCRIPTS[part::2]:
        try:
            spans = list(SC.op_code_spans(b))
        except Exception:  # noqa: BLE001
            continue
        variants = {b}
        for k in range(len(spans)):
            variants.add(b[spans[k][1]:])
            variants.add(b[:spans[k][1]])
            variants.add(b[:spans[k][1]] + b[spans[k][2]:])
            if spans[k][2] - spans[k][1] == 1:
                for op in (0x00, 0x51, 0x63, 0x67, 0x68, 0x69, 0x76, 0x87, 0x88, 0xA9, 0xAC, 0xAD, 0xAE, 0xB1, 0xB2, 0xBA):
                    variants.add(b[:spans[k][1]] + bytes([op]) + b[spans[k][2]:])
        for v in sorted(variants):
            for c in ("P2WSH", "TAPSCRIPT"):
                for ep in eps:
                    C.call_spec(R, "msdecode", ep, [B(v)], {"context": c}, bool_ret=ep.endswith("reads_back"), consumers=False)
                    done += 1
            if done >= n:
                return


def g_matrix(R, rng, n):
    """every class's valid encodings / documents and n hostile-but-mostly-accepted mutations of them, each accepted object
    through the WHOLE consumer matrix (c19_matrix) besides its own methods"""
    part = getattr(rng, "seed_value", 0) & 3
    jobs = [("parse", name) for name in sorted(S.CLASS_BIN)] + [("from_dict", name) for name in sorted(S.CLASS_JSON)]
    per = max(2, n // max(1, len(jobs) // 4))
    for k, (method, name) in enumerate(jobs):
        if k % 4 != part:
            continue
        ep, fn = _class_ep(name, method)
        seeds = (S.CLASS_BIN if method == "parse" else S.CLASS_JSON)[name]
        params = inspect.signature(fn).parameters
        for j in range(min(len(seeds), 6) + per):
            x, kw = seeds[j] if j < min(len(seeds), 6) else rng.choice(seeds)
            kwargs = dict(kw)
            if "rsizes" in kwargs:
                kwargs["rsizes"] = L(kwargs["rsizes"])
            if "block_hash" in kwargs and not isinstance(kwargs["block_hash"], (str, dict)):
                kwargs["block_hash"] = B(kwargs["block_hash"])
            if j >= min(len(seeds), 6):
                x = G.mutate_bytes(rng, x, [s for s, _ in seeds]) if method == "parse" else G.mutate_json(rng, x)
                if "check_validity" in params and method == "parse" and rng.random() < 0.5:
                    kwargs["check_validity"] = False
            C.call_spec(R, "matrix", ep, [B(x) if method == "parse" else G.json_spec(x)], kwargs, fn=fn)


GROUPS = {
    "matrix": g_matrix,
    "binary": g_binary_classes, "binfunc": g_binary_funcs, "text": g_text, "json": g_json, "jsonint": g_json_intfields, "jsonfunc": g_json_funcs,
    "pred": g_pred, "generic": g_generic, "deep": g_deep, "psbtdegenerate": g_psbt_degenerate, "msdecode": g_ms_decode, "coreimport": g_core_import, "textcodec": g_textcodec, "witness": g_witness_consumers,
}
