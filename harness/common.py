"""Harness core: PRNG, driver client, correspondence streams, findings, evidence (DESIGN 2.3-2.8)."""
from __future__ import annotations

import hashlib
import json
import os
import random
import subprocess
import time

ROOT = os.path.dirname(os.path.dirname(os.path.abspath(__file__)))
LEAN = os.path.join(ROOT, "lean")
BIN = os.path.join(LEAN, ".lake", "build", "bin")


def hx(b: bytes) -> str:
    """bytes -> protocol token (empty string is `_`)."""
    return b.hex() if b else "_"


def unhx(s: str) -> bytes:
    return b"" if s == "_" else bytes.fromhex(s)


def err_class(e: BaseException) -> str:
    """Canonical exception class (DESIGN 2.3): value|type|runtime|script|foreign:<Name>."""
    from btclib import exceptions as E
    script_error = None
    try:
        from btclib.script.engine import ScriptError  # type: ignore
        script_error = ScriptError
    except Exception:  # pragma: no cover
        pass
    if script_error is not None and isinstance(e, script_error):
        return "script"
    if isinstance(e, E.BTClibValueError):
        return "value"
    if isinstance(e, E.BTClibTypeError):
        return "type"
    if isinstance(e, E.BTClibRuntimeError):
        return "runtime"
    return "foreign:" + type(e).__name__


def call_impl(fn, *args, render=None, **kw) -> str:
    """Run the real code, canonicalise to a protocol line `ok …` / `err <class>`."""
    try:
        v = fn(*args, **kw)
    except Exception as e:  # noqa: BLE001 - the class *is* the observation
        c = err_class(e)
        return "err " + (c if not c.startswith("foreign") else "foreign")
    return "ok " + (render(v) if render else render_value(v))


def render_value(v) -> str:
    if isinstance(v, bool):
        return "True" if v else "False"
    if isinstance(v, int):
        return str(v)
    if isinstance(v, (bytes, bytearray)):
        return hx(bytes(v))
    if isinstance(v, tuple):
        return " ".join(render_value(x) for x in v)
    if v is None:
        return "None"
    raise TypeError(f"cannot render {type(v).__name__}")


class Finding:
    """Something that went wrong.

    kind = 'property'        a concrete input on which the PROPERTY fails on the real code
           'correspondence'  model and implementation disagree on an op line
           'obligation'      a theorem / generated definition no longer checks
    key  = stable identifier used to match known findings
    """

    def __init__(self, kind, stream, detail, key=None, op_line=None, impl=None, model=None, oracle=None):
        self.kind = kind
        self.stream = stream
        self.detail = detail
        self.key = key or f"{stream}"
        self.op_line = op_line
        self.impl = impl
        self.model = model
        self.oracle = oracle

    def to_json(self):
        return {k: v for k, v in self.__dict__.items() if v is not None}


class Ctx:
    """Per-run context handed to harness/<id>.py: run(ctx)."""

    def __init__(self, prop, tier, seed, driver_ok=True, broken=None):
        self.prop = prop
        self.tier = tier
        self.seed = seed
        self.rng = random.Random(seed)
        self.driver_ok = driver_ok
        self.broken = broken or []       # broken obligations / generated modules (strings)
        self.findings: list[Finding] = []
        self.evaluations = 0
        self.distinct = set()
        self.nontrivial = set()
        self.hist: dict[str, dict[str, int]] = {}
        self.samples: list = []
        self.streams: dict[str, dict] = {}
        self.traces = 0
        self.notes: list[str] = []
        self.exhaustive_streams: list[str] = []
        self.t0 = time.time()
        self.deadline = None
        self.harness = None
        self.scale = 1

    # -- scale -------------------------------------------------------------
    def n(self, quick, thorough=None):
        """Batch size by tier."""
        if self.tier == "thorough":
            return (thorough if thorough is not None else quick * 20) * self.scale
        return quick * self.scale

    def time_left(self):
        return None if self.deadline is None else self.deadline - time.time()

    # -- bookkeeping -------------------------------------------------------
    def count(self, hist, cls, k=1):
        self.hist.setdefault(hist, {})
        self.hist[hist][cls] = self.hist[hist].get(cls, 0) + k

    def note(self, s):
        self.notes.append(s)

    def sample(self, obj):
        if len(self.samples) < 12:
            self.samples.append(obj)

    def seen(self, stream, line, nontrivial=True):
        self.evaluations += 1
        h = hashlib.blake2b((stream + "|" + line).encode(), digest_size=8).digest()
        self.distinct.add(h)
        if nontrivial:
            self.nontrivial.add(h)

    def fail(self, *a, **kw):
        f = Finding(*a, **kw)
        # keep the evidence small: at most 20 findings per (kind, stream)
        same = [g for g in self.findings if g.kind == f.kind and g.stream == f.stream]
        if len(same) < 20:
            self.findings.append(f)
        return f

    # -- model driver ------------------------------------------------------
    def model(self, exe, lines):
        """Pipe op lines to the compiled Lean driver; returns one output line per input line.

        Returns None when the driver could not be built (the model side of the tie is
        broken): streams then run their implementation-side oracles only."""
        if not self.driver_ok:
            return None
        path = os.path.join(BIN, exe)
        if not os.path.exists(path):
            self.driver_ok = False
            self.broken.append(f"driver {exe} missing")
            return None
        if not lines:
            return []
        data = ("\n".join(lines) + "\n").encode()
        p = subprocess.run([path], input=data, stdout=subprocess.PIPE, stderr=subprocess.PIPE, timeout=3600)
        if p.returncode != 0:
            raise HarnessError(f"driver {exe} exited {p.returncode}: {p.stderr.decode()[:400]}")
        out = p.stdout.decode().split("\n")
        if out and out[-1] == "":
            out.pop()
        if len(out) != len(lines):
            raise HarnessError(f"driver {exe}: {len(lines)} lines in, {len(out)} lines out")
        return out

    def stream(self, name, lines, nontrivial=None, key=None):
        """Correspondence stream: every op line is evaluated by the harness module's `impl(line)`
        (the real code, in-process) and by the Lean driver; outputs must be equal."""
        h = self.harness
        cases = []
        for ln in lines:
            try:
                out = h.impl(ln)
            except HarnessError:
                raise
            except Exception as e:  # noqa: BLE001 - the implementation side crashed outside its own canonicalisation
                out = f"crash {type(e).__name__}: {str(e)[:200]}"
            cases.append((ln, out))
        return self.correspond(name, h.EXE, cases, nontrivial=nontrivial, key=key)

    def check(self, name, witness, key=None, nontrivial=True):
        """Property oracle on the real code: harness.ORACLES[name](witness) -> (ok, detail)."""
        try:
            ok, detail = self.harness.ORACLES[name](witness)
        except HarnessError:
            raise
        except Exception as e:  # noqa: BLE001
            # an exception escaping a property-level predicate on the real code is the predicate failing
            # (with the exception as the observation), never a harness crash
            ok, detail = False, f"oracle `{name}` left through {type(e).__name__}: {str(e)[:300]}"
        return self.oracle(name, ok, detail, key=key, witness={"oracle": name, "witness": witness},
                           nontrivial=nontrivial)

    def correspond(self, stream, exe, cases, nontrivial=None, key=None):
        """cases: list of (op_line, impl_output).  Compare with the model's output line by line.

        nontrivial: predicate on (line, impl_out) -> bool; default: impl did not refuse."""
        lines = [c[0] for c in cases]
        outs = self.model(exe, lines)
        st = self.streams.setdefault(stream, {"cases": 0, "mismatches": 0, "model": exe})
        st["cases"] += len(cases)
        for i, (line, impl) in enumerate(cases):
            nt = nontrivial(line, impl) if nontrivial else not impl.startswith("err")
            self.seen(stream, line, nt)
            self.count(stream, impl.split(" ")[0] + ("" if not impl.startswith("err") else " " + impl.split(" ")[1]))
            if outs is None:
                continue
            self.traces += 1
            if outs[i] != impl:
                st["mismatches"] += 1
                self.fail("correspondence", stream, f"model and implementation differ on `{line[:300]}`",
                          key=key or f"{stream}", op_line=line, impl=impl[:2000], model=outs[i][:2000])
        if cases:
            self.sample({"stream": stream, "op": cases[0][0][:300], "impl": cases[0][1][:300],
                         "model": (outs[0][:300] if outs else None)})
            big = max(range(len(cases)), key=lambda j: len(cases[j][0]))
            if big != 0:
                self.sample({"stream": stream, "op": cases[big][0][:300], "impl": cases[big][1][:300],
                             "model": (outs[big][:300] if outs else None)})
        if outs is None:
            st["model"] = None
        return outs

    def oracle(self, stream, ok, detail, key=None, witness=None, nontrivial=True):
        """Record one evaluation of a property-level predicate on the real code."""
        self.seen(stream + "#oracle", json.dumps(witness, default=str, sort_keys=True)[:4000] if witness is not None else detail, nontrivial)
        st = self.streams.setdefault(stream + "#oracle", {"cases": 0, "failures": 0})
        st["cases"] += 1
        if not ok:
            st["failures"] += 1
            self.fail("property", stream, detail, key=key or stream, oracle=witness)
        return ok


class HarnessError(Exception):
    """Harness / toolchain failure: exit 2, never a violation."""


# --------------------------------------------------------------------- generators
def boundary_ints(rng, extra=()):
    base = [0, 1, 2, 3, 0x7F, 0x80, 0xFC, 0xFD, 0xFE, 0xFF, 0x100, 0xFFFF, 0x10000, 0xFFFFFF, 0x1000000,
            0x7FFFFFFF, 0x80000000, 0xFFFFFFFF, 0x100000000, 2**53 - 1, 2**53, 2**63 - 1, 2**63,
            2**64 - 1, 2**64, 2**128, 2**255, 2**256 - 1, 2**256]
    out = set(base)
    for e in extra:
        out.update([e - 1, e, e + 1])
    for v in list(out):
        out.add(-v)
    return sorted(out)


def rand_int(rng, max_bits=70, signed=True):
    bits = rng.choice([1, 2, 4, 8, 9, 16, 17, 24, 32, 33, 53, 64, 65, max_bits])
    v = rng.getrandbits(bits)
    if signed and rng.random() < 0.15:
        v = -v
    return v


def rand_bytes(rng, n):
    return bytes(rng.getrandbits(8) for _ in range(n))
