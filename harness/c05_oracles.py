"""C05 property oracles on the REAL btclib only: parse/serialize and to_dict/from_dict round trips.

Imported by harness/c05.py:  ORACLES.update(c05_oracles.ORACLES); c05_oracles.run(ctx)

Oracles (witnesses are small JSON dicts, replayable with ORACLES[name](witness)):
  rt.bytes   {"cls", "b"|"s"|"file", "ops"?, "ctx"?}   parse accepts b  ==>  parse(b).serialize() == b
             (Psbt/PsbtIn/PsbtOut: fixed point + every key-value record preserved; Bip21 text: fixed point)
  rt.object  {"cls", "obj": recipe, "ctx"?, "cv"?}     parse(x.serialize()) == x, sizes, ids, weights
  rt.json    {"cls", "obj": recipe, "cv"}              from_dict(json(to_dict(x))) == x

A recipe is a JSON description of how to build an object through the public constructors:
  {"h": hex} bytes | {"t": [...]} tuple | {"map": [[k, v], ...]} dict | {"ts": int} utc datetime |
  {"new": Class, "kw": {...}} constructor call | {"parse": Class, "b": hex | "file": path, "ctx": {...}} |
  {"get": "module:NAME", "key": k} module-level table entry | {"rep": recipe, "n": k} list of k copies |
  {"range": [a, b]} list(range(a, b))
Stable finding keys are computed by inspecting the failure (see _c_bytes/_c_object/_c_json/_record_diff):
  psbtin.from_dict.taproot_bip32   PsbtIn/Psbt.from_dict TypeError with taproot derivations   (fixed in /repo 63c52613)
  psbt.sighash0.dropped            explicit PSBT_IN_SIGHASH_TYPE 00000000 dropped              (fixed in /repo 056ebf05)
  psbt.v0.noinputs.marker          v0 PSBT, no inputs, one output: own serialization is refused ("00 01" = segwit marker)
  PsbtOut.tap_tree.key_data_ignored  key 06||keydata accepted, written back as key 06
  PsbtIn|PsbtOut.empty_value.dropped, PsbtIn.empty_final_witness.dropped, Psbt.version0.dropped
                                   records dropped because emission is decided by truthiness
  PsbtIn.finalized.dropped         signer fields of a finalized input dropped (_DROPPED_ONCE_FINALIZED)
  <Class>.parse.foreign | .parse.noncanonical | .serialize.* | .object.* | .json.roundtrip | .from_dict.* | .size
Both fixed keys stay classified so that a regression is reported under the same key.
"""
from __future__ import annotations

import ast
import base64
import hashlib
import importlib
import inspect
import json
import os
import pkgutil
import re
from datetime import datetime, timezone
from io import BytesIO

from . import common

TESTS = "/repo/tests"
MAX_SATS = 2_100_000_000_000_000
N_SECP = 0xFFFFFFFFFFFFFFFFFFFFFFFFFFFFFFFEBAAEDCE6AF48A03BBFD25E8CD0364141
MAP_CLASSES = ("Psbt", "PsbtIn", "PsbtOut")
TEXT_CLASSES = ("Bip21",)
# key types PsbtIn.serialize drops once the input is finalized (psbt_in._DROPPED_ONCE_FINALIZED)
_FINALIZED_DROPS = {0x02, 0x03, 0x04, 0x05, 0x06, 0x0A, 0x0B, 0x0C, 0x0D, 0x13, 0x14, 0x15, 0x16, 0x17, 0x18,
                    0x1A, 0x1B, 0x1C}


def _sha256d(b: bytes) -> bytes:
    return hashlib.sha256(hashlib.sha256(b).digest()).digest()


# ===================================================================== discovery / registry
class Spec:
    def __init__(self, name, cls):
        self.name = name
        self.cls = cls
        self.ps = callable(getattr(cls, "parse", None)) and callable(getattr(cls, "serialize", None))
        self.js = callable(getattr(cls, "from_dict", None)) and callable(getattr(cls, "to_dict", None))
        self.private = cls.__name__.startswith("_")
        self.parse_params = self._params(getattr(cls, "parse", None))
        self.ser_params = self._params(getattr(cls, "serialize", None))
        self.ser_required = set()
        if self.ps:
            try:
                for p in list(inspect.signature(cls.serialize).parameters.values())[1:]:
                    if p.default is inspect.Parameter.empty and p.kind in (p.POSITIONAL_OR_KEYWORD, p.KEYWORD_ONLY):
                        self.ser_required.add(p.name)
            except (TypeError, ValueError):
                pass

    @staticmethod
    def _params(fn):
        try:
            return set(inspect.signature(fn).parameters)
        except (TypeError, ValueError):
            return set()


_REG = None
_DISCOVERY_PROBLEMS: list[str] = []


def discover():
    """Walk the btclib package: every class with parse+serialize or from_dict+to_dict."""
    import btclib

    found = []
    for m in pkgutil.walk_packages(btclib.__path__, "btclib."):
        try:
            mod = importlib.import_module(m.name)
        except Exception as e:  # noqa: BLE001
            _DISCOVERY_PROBLEMS.append(f"cannot import {m.name}: {type(e).__name__}")
            continue
        for n, o in sorted(vars(mod).items()):
            if inspect.isclass(o) and o.__module__ == mod.__name__:
                ps = callable(getattr(o, "parse", None)) and callable(getattr(o, "serialize", None))
                js = callable(getattr(o, "from_dict", None)) and callable(getattr(o, "to_dict", None))
                if ps or js:
                    found.append((mod.__name__, n, o))
    counts: dict[str, int] = {}
    for _, n, _o in found:
        counts[n] = counts.get(n, 0) + 1
    reg = {}
    for modname, n, o in found:
        name = n if counts[n] == 1 else modname.rsplit(".", 1)[-1] + "." + n
        reg[name] = Spec(name, o)
    return reg


def _registry():
    global _REG
    if _REG is None:
        _REG = discover()
    return _REG


def _spec(name):
    return _registry()[name]


def _parse(sp, data, cv, ctx=None):
    kw = {k: v for k, v in (ctx or {}).items() if k in sp.parse_params}
    if "check_validity" in sp.parse_params:
        kw["check_validity"] = cv
    return sp.cls.parse(data, **kw)


def _ser(sp, x, cv, ctx=None, **over):
    kw = {k: v for k, v in (ctx or {}).items() if k in sp.ser_params}
    if "include_witness" in sp.ser_required:
        kw["include_witness"] = True
    kw.update(over)
    if "check_validity" in sp.ser_params:
        kw["check_validity"] = cv
    return x.serialize(**kw)


# ===================================================================== witness decoding
def _read_file(rel):
    with open(os.path.join(TESTS, rel), "rb") as f:
        return f.read()


def _apply_ops(b: bytes, ops) -> bytes:
    for op in ops or []:
        if op[0] == "cut":  # remove b[a:e]
            b = b[: op[1]] + b[op[2]:]
        elif op[0] == "ins":
            b = b[: op[1]] + bytes.fromhex(op[2]) + b[op[1]:]
        elif op[0] == "set":
            b = b[: op[1]] + bytes([op[2] & 0xFF]) + b[op[1] + 1:]
        else:
            raise ValueError(f"unknown op {op[0]}")
    return b


def _wbytes(w):
    if "s" in w:
        return w["s"]
    base = _read_file(w["file"]) if "file" in w else bytes.fromhex(w["b"])
    return _apply_ops(base, w.get("ops"))


def _build(r, cv=True):
    if isinstance(r, list):
        return [_build(v, cv) for v in r]
    if not isinstance(r, dict):
        return r
    if "h" in r:
        return bytes.fromhex(r["h"])
    if "t" in r:
        return tuple(_build(v, cv) for v in r["t"])
    if "map" in r:
        return {_build(k, cv): _build(v, cv) for k, v in r["map"]}
    if "ts" in r:
        return datetime.fromtimestamp(r["ts"], timezone.utc)
    if "rep" in r:      # n independent copies of one sub-recipe (keeps big-count witnesses small)
        return [_build(r["rep"], cv) for _ in range(r["n"])]
    if "range" in r:
        return list(range(*r["range"]))
    if "new" in r:
        sp = _spec(r["new"])
        kw = {k: _build(v, cv) for k, v in r.get("kw", {}).items()}
        return sp.cls(**kw, check_validity=cv)
    if "parse" in r:
        return _parse(_spec(r["parse"]), _wbytes(r), cv, r.get("ctx"))
    if "get" in r:
        modname, attr = r["get"].split(":")
        return getattr(importlib.import_module(modname), attr)[r["key"]]
    raise ValueError(f"bad recipe {list(r)[:3]}")


def _is_btclib_error(e):
    return not common.err_class(e).startswith("foreign")


# one-slot memo so that run() can classify first (to obtain the stable key) and ctx.check re-uses the result
_MEMO = [None, None, None]


def _memoised(name, fn):
    def oracle(w):
        if _MEMO[0] is w and _MEMO[1] == name:
            r = _MEMO[2]
        else:
            r = fn(w)
            _MEMO[0], _MEMO[1], _MEMO[2] = w, name, r
        return r[0], (f"[{r[2]}] " if r[2] else "") + r[1]
    return oracle


def _classify(name, w):
    fn = _CLASSIFIERS[name]
    r = fn(w)
    _MEMO[0], _MEMO[1], _MEMO[2] = w, name, r
    return r


# ===================================================================== rt.bytes
def _maps_of(name, b):
    from btclib.psbt.psbt_utils import deserialize_map

    s = BytesIO(b)
    if name == "Psbt":
        s.read(5)
    maps = []
    while s.tell() < len(b):
        maps.append(deserialize_map(s))
    return maps


def _record_diff(name, x, b, s1):
    """Per-map comparison of (key, value) records; returns the sorted list of categories + description."""
    mb, ms = _maps_of(name, b), _maps_of(name, s1)
    cats, desc = set(), []
    n_in = len(x.inputs) if name == "Psbt" else (1 if name == "PsbtIn" else 0)
    off = 1 if name == "Psbt" else 0
    if len(mb) != len(ms):
        return [f"{name}.map_count.changed"], f"{len(mb)} maps in, {len(ms)} maps out"
    for i, (a, c) in enumerate(zip(mb, ms)):
        kind = "global" if (name == "Psbt" and i == 0) else ("in" if i - off < n_in else "out")
        owner = {"global": "Psbt", "in": "PsbtIn", "out": "PsbtOut"}[kind]
        for k, v in a.items():
            if c.get(k) == v:
                continue
            what = "dropped" if k not in c else "changed"
            desc.append(f"map{i}({kind}) {k.hex()}:{v.hex()[:24]} {what}")
            if k in c:
                cats.add(f"{owner}.record.changed")
            elif kind == "in" and k == b"\x03" and v == bytes(4) and not _finalized(name, x, i - off):
                cats.add("psbt.sighash0.dropped")   # (in a finalized input it goes with the other signer fields)
            elif kind == "in" and k[:1] and k[0] in _FINALIZED_DROPS and v != b"" and _finalized(name, x, i - off):
                cats.add("PsbtIn.finalized.dropped")
            elif v == b"":
                cats.add(f"{owner}.empty_value.dropped")
            elif kind == "in" and k == b"\x08" and v == b"\x00":
                cats.add("PsbtIn.empty_final_witness.dropped")
            elif kind == "global" and k == b"\xfb" and v == bytes(4):
                cats.add("Psbt.version0.dropped")
            elif kind == "in" and k[:1] and k[0] in _FINALIZED_DROPS and _finalized(name, x, i - off):
                cats.add("PsbtIn.finalized.dropped")
            else:
                cats.add(f"{owner}.record.dropped")
        for k, v in c.items():
            if k not in a:
                cats.add(f"{owner}.record.added")
                desc.append(f"map{i}({kind}) {k.hex()}:{v.hex()[:24]} added")
    for i, (a, c) in enumerate(zip(mb, ms)):
        # PSBT_OUT_TAP_TREE is a whole-value field: key data after the type byte must be refused, not discarded
        lost = [k for k in a if k[:1] == b"\x06" and len(k) > 1 and k not in c]
        if lost and (name == "PsbtOut" or (name == "Psbt" and i > n_in)) and cats <= {"PsbtOut.record.dropped",
                                                                                  "PsbtOut.record.added"}:
            if all(k[:1] == b"\x06" for k in list(a) + list(c) if (k in a) != (k in c)):
                cats = {"PsbtOut.tap_tree.key_data_ignored"}

    def rank(c):
        for j, suffix in enumerate((".record.dropped", ".record.changed", ".record.added", ".map_count.changed",
                                    "PsbtIn.finalized.dropped", ".empty_value.dropped",
                                    "PsbtIn.empty_final_witness.dropped", "Psbt.version0.dropped",
                                    "psbt.sighash0.dropped")):
            if c.endswith(suffix):
                return j
        return -1

    return sorted(cats, key=lambda c: (rank(c), c)), "; ".join(desc[:6])


def _finalized(name, x, i):
    pin = x.inputs[i] if name == "Psbt" else x
    return bool(pin.final_script_sig or pin.final_script_witness)


def _c_bytes(w):
    """-> (ok, detail, key, nontrivial)"""
    name = w["cls"]
    sp = _spec(name)
    b = _wbytes(w)
    ctx = w.get("ctx")
    accepted = False
    for cv in w.get("cvs", [True, False]):
        try:
            x = _parse(sp, b, cv, ctx)
        except Exception as e:  # noqa: BLE001
            if not _is_btclib_error(e):
                return False, f"parse(cv={cv}) raised {type(e).__name__}: {e}"[:300], f"{name}.parse.foreign", accepted
            continue
        accepted = True
        try:
            s1 = _ser(sp, x, cv, ctx)
        except Exception as e:  # noqa: BLE001
            kind = "refused" if _is_btclib_error(e) else "foreign"
            return (False, f"parse(cv={cv}) accepted, serialize raised {type(e).__name__}: {e}"[:300],
                    f"{name}.serialize.{kind}", True)
        if name in MAP_CLASSES or name in TEXT_CLASSES:
            try:
                s2 = _ser(sp, _parse(sp, s1, cv, ctx), cv, ctx)
            except Exception as e:  # noqa: BLE001
                return (False, f"cv={cv}: own serialization is refused: {type(e).__name__}: {e}"[:300],
                        f"{name}.reparse.raises", True)
            if s2 != s1:
                return False, f"cv={cv}: serialize(parse(.)) is not a fixed point", f"{name}.fixed_point", True
            if name in MAP_CLASSES:
                cats, desc = _record_diff(name, x, b, s1)
                if cats:
                    return False, f"cv={cv}: records not preserved ({', '.join(cats)}): {desc}"[:400], cats[0], True
        elif s1 != b:
            d = next((i for i, (p, q) in enumerate(zip(s1, b)) if p != q), min(len(s1), len(b)))
            return (False, f"cv={cv}: accepted {len(b)} bytes, re-serialized {len(s1)} bytes, first diff at {d}",
                    f"{name}.parse.noncanonical", True)
    return True, "ok" if accepted else "refused", None, accepted


# ===================================================================== rt.object
def _eq(a, b):
    try:
        return bool(a == b)
    except Exception:  # noqa: BLE001
        return False


def _c_object(w):
    name = w["cls"]
    sp = _spec(name)
    ctx = w.get("ctx")
    cvs = w.get("cv", [True, False])
    try:
        x = _build(w["obj"], cv=(True in cvs))
    except Exception as e:  # noqa: BLE001
        if _is_btclib_error(e):
            return True, f"recipe not valid: {e}"[:200], None, False
        return False, f"constructor raised {type(e).__name__}: {e}"[:300], f"{name}.init.foreign", False
    try:
        s = _ser(sp, x, True in cvs, ctx)
    except Exception as e:  # noqa: BLE001
        if _is_btclib_error(e):
            return True, f"serialize refused: {e}"[:200], None, False
        return False, f"serialize raised {type(e).__name__}: {e}"[:300], f"{name}.serialize.foreign", False
    for cv in cvs:
        try:
            y = _parse(sp, s, cv, ctx)
        except Exception as e:  # noqa: BLE001
            return (False, f"parse(serialize(x), cv={cv}) raised {type(e).__name__}: {e}"[:300],
                    _object_key(name, x, s, None), True)
        if not _eq(y, x):
            return False, f"parse(serialize(x), cv={cv}) != x: {_field_diff(x, y)}"[:400], _object_key(name, x, s, y), True
        try:
            s2 = _ser(sp, y, cv, ctx)
        except Exception as e:  # noqa: BLE001
            return False, f"re-serialize raised {type(e).__name__}: {e}"[:300], f"{name}.object.reserialize", True
        if s2 != s:
            return False, "serialize(parse(serialize(x))) != serialize(x)", f"{name}.object.reserialize", True
    bad = _size_checks(name, sp, x, s, True in cvs, ctx)
    if bad:
        return False, bad, f"{name}.size", True
    return True, "ok", None, True


def _field_diff(x, y):
    out = []
    for f in getattr(x, "__dataclass_fields__", {}):
        a, b = getattr(x, f, None), getattr(y, f, None)
        if not _eq(a, b):
            out.append(f"{f}: {str(a)[:60]} -> {str(b)[:60]}")
    return "; ".join(out[:4]) or "objects differ"


def _object_key(name, x, s, y):
    if name == "Psbt" and x.version == 0 and not x.inputs and len(x.outputs) == 1 and y is None:
        return "psbt.v0.noinputs.marker"   # "00 01" (no inputs, one output) is read back as the segwit marker
    if name in ("PsbtIn", "Psbt"):
        ins = x.inputs if name == "Psbt" else [x]
        if any(i.sig_hash_type == 0 and i.sig_hash_type is not None
               and not (i.final_script_sig or i.final_script_witness) for i in ins):
            return "psbt.sighash0.dropped"
        if any((i.final_script_sig or i.final_script_witness) and _has_dropped_fields(i) for i in ins):
            return "PsbtIn.finalized.dropped"
    return f"{name}.object.roundtrip"


def _has_dropped_fields(pin):
    names = ("partial_sigs", "sig_hash_type", "redeem_script", "witness_script", "hd_key_paths",
             "ripemd160_preimages", "sha256_preimages", "hash160_preimages", "hash256_preimages",
             "taproot_key_spend_signature", "taproot_script_spend_signatures", "taproot_leaf_scripts",
             "taproot_hd_key_paths", "taproot_internal_key", "taproot_merkle_root", "musig2_participant_pub_keys",
             "musig2_pub_nonces", "musig2_partial_sigs")
    return any(getattr(pin, n, None) or getattr(pin, n, None) == 0 for n in names)


def _ceil4(n):
    return -(-n // 4)


def _size_checks(name, sp, x, s, cv, ctx):
    fn = getattr(x, "_serialized_size", None)
    if callable(fn):
        try:
            params = inspect.signature(fn).parameters
        except (TypeError, ValueError):
            params = {}
        if "include_witness" in params:
            for iw in (True, False):
                n = len(_ser(sp, x, cv, ctx, include_witness=iw))
                if fn(iw) != n:
                    return f"_serialized_size({iw})={fn(iw)} but len(serialize)={n}"
        elif not params and fn() != len(s):
            return f"_serialized_size()={fn()} but len(serialize)={len(s)}"
    if name in ("Tx", "Block"):
        full = _ser(sp, x, cv, ctx, include_witness=True)
        stripped = _ser(sp, x, cv, ctx, include_witness=False)
        if x.size != len(full):
            return f"size={x.size} len={len(full)}"
        if x.weight != 3 * len(stripped) + len(full):
            return f"weight={x.weight} expected {3 * len(stripped) + len(full)}"
        if x.vsize != _ceil4(x.weight):
            return f"vsize={x.vsize} expected {_ceil4(x.weight)}"
        if name == "Block" and x.stripped_size != len(stripped):
            return f"stripped_size={x.stripped_size} len={len(stripped)}"
        if name == "Tx":
            if x.id != _sha256d(stripped)[::-1]:
                return "id != hash256(serialize(False))[::-1]"
            if x.hash != _sha256d(full)[::-1]:
                return "hash != hash256(serialize(True))[::-1]"
    if name == "BlockHeader" and x.hash != _sha256d(s)[::-1]:
        return "hash != hash256(serialize())[::-1]"
    if name == "Block" and x.header.hash != _sha256d(s[:80])[::-1]:
        return "header.hash != hash256(first 80 bytes)[::-1]"
    return None


# ===================================================================== rt.json
def _c_json(w):
    name = w["cls"]
    sp = _spec(name)
    cv = w.get("cv", True)
    try:
        x = _build(w["obj"], cv=w.get("build_cv", True))
    except Exception as e:  # noqa: BLE001
        if _is_btclib_error(e):
            return True, f"recipe not valid: {e}"[:200], None, False
        return False, f"constructor raised {type(e).__name__}: {e}"[:300], f"{name}.init.foreign", False
    try:
        d = x.to_dict(check_validity=cv)
    except Exception as e:  # noqa: BLE001
        if _is_btclib_error(e):
            return True, f"to_dict refused: {e}"[:200], None, False
        return False, f"to_dict raised {type(e).__name__}: {e}"[:300], f"{name}.to_dict.foreign", True
    via = "json"
    try:
        d2 = json.loads(json.dumps(d))
    except (TypeError, ValueError):
        d2, via = d, "direct"
    try:
        y = sp.cls.from_dict(d2, check_validity=cv)
    except Exception as e:  # noqa: BLE001
        key = f"{name}.from_dict." + ("refused" if _is_btclib_error(e) else "foreign")
        if name in ("PsbtIn", "Psbt") and isinstance(e, TypeError) and not _is_btclib_error(e):
            ins = x.inputs if name == "Psbt" else [x]
            if any(i.taproot_hd_key_paths for i in ins):
                key = "psbtin.from_dict.taproot_bip32"
        return False, f"from_dict(to_dict(x)) [{via}, cv={cv}] raised {type(e).__name__}: {e}"[:300], key, True
    if not _eq(y, x):
        return False, f"from_dict(to_dict(x)) [{via}, cv={cv}] != x: {_field_diff(x, y)}"[:400], f"{name}.json.roundtrip", True
    return True, f"ok ({via})", None, True


_CLASSIFIERS = {"rt.bytes": _c_bytes, "rt.object": _c_object, "rt.json": _c_json}
ORACLES = {n: _memoised(n, f) for n, f in _CLASSIFIERS.items()}


# ===================================================================== recipe generators (valid objects)
def H(b: bytes):
    return {"h": b.hex()}


def N(cls, **kw):
    return {"new": cls, "kw": kw}


def M(pairs):
    return {"map": [[k, v] for k, v in pairs]}


def _rb(rng, n: int) -> bytes:
    return rng.getrandbits(8 * n).to_bytes(n, "little") if n else b""


U8 = [0, 1, 2, 0x7F, 0x80, 0xFC, 0xFD, 0xFE, 0xFF]
U16 = [0, 1, 0xFC, 0xFD, 0xFFFE, 0xFFFF]
U32 = [0, 1, 2, 0xFC, 0xFD, 0xFFFF, 0x10000, 0x7FFFFFFF, 0x80000000, 0xFFFFFFFE, 0xFFFFFFFF]
U64 = [0, 1, 0xFC, 0xFD, 0xFFFF, 0x10000, 0xFFFFFFFF, 0x100000000, 2**63 - 1, 2**63, 2**64 - 2, 2**64 - 1]
I32 = [-(2**31), -(2**31) + 1, -1, 0, 1, 2**31 - 2, 2**31 - 1]
I64 = [-(2**63), -(2**63) + 1, -1, 0, 1, 2**63 - 2, 2**63 - 1]
LENS = [0, 1, 2, 75, 76, 77, 252, 253, 254, 255, 256, 520, 521]
BIG_LENS = [65535, 65536]
COUNTS = [0, 1, 2, 3, 252, 253]


def _ri(rng, vals, bits, signed=False):
    if rng.random() < 0.6:
        return rng.choice(vals)
    v = rng.getrandbits(bits)
    return v - (1 << (bits - 1)) if signed else v


def _rlen(rng, big=False, cap=None):
    r = rng.random()
    if big and r < 0.1:
        n = rng.choice(BIG_LENS)
    elif r < 0.5:
        n = rng.choice(LENS)
    else:
        n = rng.randrange(0, 80)
    return min(n, cap) if cap is not None else n


def _rcount(rng, cap=None, small=False):
    n = rng.choice([0, 1, 1, 2, 3]) if (small or rng.random() < 0.8) else rng.choice(COUNTS)
    return min(n, cap) if cap is not None else n


def _h32(rng):
    r = rng.random()
    if r < 0.1:
        return H(bytes(32))
    if r < 0.2:
        return H(b"\xff" * 32)
    return H(_rb(rng, 32))


_POINTS: list[tuple[int, int]] = []


def _points():
    """A small pool of curve points k*G (k = 1..12) computed with btclib, for fields that must hold a key."""
    if not _POINTS:
        from btclib.curves.curve import mult

        for k in range(1, 13):
            _POINTS.append(mult(k))
    return _POINTS


def _pub33(rng):
    x, y = rng.choice(_points())
    return bytes([2 + (y & 1)]) + x.to_bytes(32, "big")


def _xonly(rng):
    return rng.choice(_points())[0].to_bytes(32, "big")


def g_outpoint(rng):
    return N("OutPoint", tx_id=_h32(rng), vout=_ri(rng, U32, 32))


def g_witness(rng, big=False, nonempty=False):
    n = _rcount(rng)
    if nonempty and n == 0:
        n = 1
    if n > 3:
        return N("Witness", stack=[H(_rb(rng, rng.randrange(3))) for _ in range(n)])
    return N("Witness", stack=[H(_rb(rng, _rlen(rng, big))) for _ in range(n)])


def g_txin(rng, big=False, witness=None):
    kw = {"prev_out": g_outpoint(rng), "script_sig": H(_rb(rng, _rlen(rng, big))), "sequence": _ri(rng, U32, 32)}
    if witness is None:
        witness = rng.random() < 0.4
    if witness:
        kw["script_witness"] = g_witness(rng, big)
    return N("TxIn", **kw)


_SCRIPTS = ["76a914" + "11" * 20 + "88ac", "a914" + "22" * 20 + "87", "0014" + "33" * 20, "0020" + "44" * 32,
            "5120" + "55" * 32, "6a", "6a24aa21a9ed" + "66" * 32, "", "51", "00"]


def _script(rng, big=False):
    r = rng.random()
    if r < 0.5:
        return H(bytes.fromhex(rng.choice(_SCRIPTS)))
    return H(_rb(rng, _rlen(rng, big)))


def g_txout(rng, big=False, value=None):
    if value is None:
        value = rng.choice([0, 1, MAX_SATS - 1, MAX_SATS]) if rng.random() < 0.5 else rng.randrange(MAX_SATS + 1)
    return N("TxOut", value=value, script_pub_key=_script(rng, big))


def g_tx(rng, big=False, segwit=None, nin=None, nout=None):
    """-> (recipe, is_segwit)"""
    coinbase = nin is None and rng.random() < 0.12
    if segwit is None:
        segwit = rng.random() < 0.5
    if nin is None:
        nin = 1 if coinbase else max(1, _rcount(rng))
    if nout is None:
        nout = max(1, _rcount(rng))
    vin = []
    any_wit = False
    for i in range(nin):
        wit = segwit and (rng.random() < 0.7 or (i == nin - 1 and not any_wit))
        kw = {"sequence": _ri(rng, U32, 32)}
        if coinbase:
            kw["script_sig"] = H(_rb(rng, rng.choice([2, 3, 50, 99, 100])))
        else:
            tid = _rb(rng, 32) if rng.random() < 0.9 else bytes(32)
            vout = i if (tid == bytes(32) or rng.random() < 0.6) else 0xFFFFFFFF - i
            kw["prev_out"] = N("OutPoint", tx_id=H(tid), vout=vout)
            kw["script_sig"] = H(_rb(rng, _rlen(rng, big and nin <= 3) if nin <= 3 else rng.randrange(3)))
        if wit:
            kw["script_witness"] = g_witness(rng, big and nin <= 3, nonempty=True)
            any_wit = True
        vin.append(N("TxIn", **kw))
    first = rng.choice([0, 1, MAX_SATS - 1, MAX_SATS]) if rng.random() < 0.5 else rng.randrange(MAX_SATS + 1)
    vout = []
    left = MAX_SATS - first
    for i in range(nout):
        v = first if i == 0 else (min(left, rng.choice([0, 1, left])) if nout <= 3 else 0)
        if i:
            left -= v
        if nout > 3:
            vout.append(N("TxOut", value=v, script_pub_key=H(_rb(rng, rng.randrange(2)))))
        else:
            vout.append(g_txout(rng, big, value=v))
    tx = N("Tx", version=_ri(rng, [0, 1, 2, 3, 0x7FFFFFFF, 0x80000000, 0xFFFFFFFF], 32),
           lock_time=_ri(rng, U32 + [499999999, 500000000], 32), vin=vin, vout=vout)
    return tx, any_wit


def g_header(rng):
    return N("BlockHeader", version=_ri(rng, [1, 2, 4, 0x20000000, 0x7FFFFFFE, 0x7FFFFFFF], 31) or 1,
             previous_block_hash=_h32(rng), merkle_root=_h32(rng),
             time={"ts": rng.choice([1231006505, 1231006506, 0xFFFFFFFE, 0xFFFFFFFF, rng.randrange(1231006505, 2**32)])},
             bits=H(rng.choice([bytes.fromhex(h) for h in ("1d00ffff", "207fffff", "1b0404cb", "170b3ce9", "03000001",
                                                       "1d00ffff", "00000000", "ffffffff")] + [_rb(rng, 4)])),
             nonce=_ri(rng, U32, 32))


def g_block(rng):
    """Structurally valid block; no proof of work, so only usable with check_validity=False. -> (recipe, is_segwit)"""
    txs = [g_tx(rng) for _ in range(rng.choice([0, 1, 2, 3]))]
    return N("Block", header=g_header(rng), transactions=[t for t, _ in txs]), any(s for _, s in txs)


def g_blockpayload(rng):
    blk, seg = g_block(rng)
    return N("BlockPayload", block=blk, include_witness=seg)


def g_origin(rng, n=None):
    if n is None:
        n = rng.choice([0, 1, 2, 5, 255]) if rng.random() < 0.5 else rng.randrange(0, 8)
    return N("BIP32KeyOrigin", master_fingerprint=H(_rb(rng, 4)),
             der_path=[_ri(rng, [0, 1, 0x7FFFFFFF, 0x80000000, 0xFFFFFFFF], 32) for _ in range(n)])


def g_keydata(rng):
    from btclib.network import XPRV_VERSIONS_ALL, XPUB_VERSIONS_ALL

    prv = rng.random() < 0.5
    version = rng.choice(sorted(XPRV_VERSIONS_ALL if prv else XPUB_VERSIONS_ALL))
    depth = rng.choice([0, 1, 2, 254, 255])
    if prv:
        q = rng.choice([1, 2, N_SECP - 2, N_SECP - 1, rng.randrange(1, N_SECP)])
        key = b"\x00" + q.to_bytes(32, "big")
    else:
        key = _pub33(rng)
    return N("BIP32KeyData", version=H(version), depth=depth,
             parent_fingerprint=H(bytes(4) if depth == 0 else rng.choice([_rb(rng, 4), b"\xff" * 4, b"\x00\x00\x00\x01"])),
             index=0 if depth == 0 else _ri(rng, [0, 1, 0x7FFFFFFF, 0x80000000, 0xFFFFFFFF], 32),
             chain_code=_h32(rng), key=H(key))


def _scalar(rng, lo=1):
    return rng.choice([lo, lo + 1, N_SECP - 2, N_SECP - 1, (N_SECP - 1) // 2, (N_SECP + 1) // 2, rng.randrange(lo, N_SECP)])


def g_dsa(rng):
    r = rng.choice(_points())[0] % N_SECP if rng.random() < 0.8 else rng.randrange(1, N_SECP)
    return N("dsa.Sig", r=r, s=_scalar(rng))


def g_ssa(rng):
    return N("ssa.Sig", r=rng.choice(_points())[0], s=_scalar(rng, 0))


def g_bms(rng):
    return N("bms.Sig", rf=rng.choice([27, 28, 30, 31, 34, 35, 38, 39, 41, 42]), dsa_sig=g_dsa(rng))


def g_borromean(rng):
    sizes = [rng.choice([1, 1, 2, 3]) for _ in range(rng.choice([1, 1, 2, 3]))]
    rec = N("BorromeanSig", e0=H(_rb(rng, 32)), s=[[_scalar(rng, 0) for _ in range(n)] for n in sizes])
    return rec, {"rsizes": sizes}


def g_envelope(rng):
    return N("Envelope", magic=H(b"BIE1"), eph_pub_key=H(_pub33(rng)),
             ciphertext=H(_rb(rng, 16 * rng.choice([1, 2, 3, 16]))), mac=H(_rb(rng, 32)))


def g_filter(rng):
    """The empty filter is the only BIP158 filter built without a block (the vectors give the non-empty ones)."""
    h = _rb(rng, 32)
    return N("BasicBlockFilter", block_hash=H(h), element_count=0, encoded_set=H(b"")), {"block_hash": h.hex()}


# ----------------------------------------------------------------------------- p2p
def g_netaddr(rng):
    ip = rng.choice([bytes(16), bytes(10) + b"\xff\xff" + _rb(rng, 4), b"\xff" * 16, _rb(rng, 16)])
    return N("NetworkAddress", services=_ri(rng, U64, 64), ip=H(ip), port=_ri(rng, U16, 16))


def g_tsaddr(rng):
    return N("TimestampedNetworkAddress", timestamp=_ri(rng, U32, 32), address=g_netaddr(rng))


def g_addr(rng, n=None):
    n = _rcount(rng) if n is None else n
    return N("Addr", addresses=[g_tsaddr(rng) for _ in range(n)])


def g_netaddrv2(rng):
    sizes = {1: 4, 2: 16, 3: 10, 4: 32, 5: 32, 6: 16, 7: 16}
    nid = rng.choice([1, 2, 3, 4, 5, 6, 7, 0, 8, 0xFC, 0xFD, 0xFF])
    ln = sizes.get(nid) if nid in sizes else rng.choice([0, 1, 252, 253, 511, 512])
    return N("NetworkAddressV2", timestamp=_ri(rng, U32, 32), services=_ri(rng, U64, 64), network_id=nid,
             address=H(_rb(rng, ln)), port=_ri(rng, U16, 16))


def g_addrv2(rng, n=None):
    n = _rcount(rng) if n is None else n
    return N("AddrV2", addresses=[g_netaddrv2(rng) for _ in range(n)])


def g_version(rng):
    kw = {"version": _ri(rng, I32 + [70016], 32, True), "services": _ri(rng, U64, 64),
          "timestamp": _ri(rng, I64, 64, True), "nonce": _ri(rng, U64, 64),
          "user_agent": H(_rb(rng, rng.choice([0, 1, 16, 252, 253, 255, 256]))),
          "start_height": _ri(rng, I32, 32, True), "relay": rng.choice([None, True, False])}
    if rng.random() < 0.7:
        kw["addr_recv"] = g_netaddr(rng)
        kw["addr_from"] = g_netaddr(rng)
    return N("Version", **kw)


def g_inventory(rng):
    return N("Inventory", type_code=_ri(rng, [0, 1, 2, 3, 4, 5, 0x40000001, 0x40000002, 6, 0xFFFFFFFF], 32),
             hash=_h32(rng))


def g_invlist(cls):
    def gen(rng, n=None):
        n = _rcount(rng) if n is None else n
        return N(cls, items=[g_inventory(rng) for _ in range(n)])
    return gen


def g_locator(cls):
    def gen(rng):
        return N(cls, version=_ri(rng, I32 + [70016], 32, True),
                 locator=[_h32(rng) for _ in range(rng.choice([0, 1, 2, 100, 101]))], hash_stop=_h32(rng))
    return gen


def g_headers(rng, n=None):
    n = _rcount(rng) if n is None else n
    return N("Headers", headers=[g_header(rng) for _ in range(n)])


def g_range_request(cls):
    def gen(rng):
        return N(cls, filter_type=_ri(rng, [0, 1, 0xFE, 0xFF], 8), start_height=_ri(rng, U32, 32), stop_hash=_h32(rng))
    return gen


def g_cfilter(rng):
    return N("CFilter", filter_type=_ri(rng, [0, 1, 0xFF], 8), block_hash=_h32(rng), filter_bytes=H(_rb(rng, _rlen(rng, True))))


def g_cfheaders(rng):
    return N("CFHeaders", filter_type=_ri(rng, [0, 1, 0xFF], 8), stop_hash=_h32(rng), previous_filter_header=_h32(rng),
             filter_hashes=[_h32(rng) for _ in range(_rcount(rng))])


def g_getcfcheckpt(rng):
    return N("GetCFCheckpt", filter_type=_ri(rng, [0, 1, 0xFF], 8), stop_hash=_h32(rng))


def g_cfcheckpt(rng):
    return N("CFCheckpt", filter_type=_ri(rng, [0, 1, 0xFF], 8), stop_hash=_h32(rng),
             filter_headers=[_h32(rng) for _ in range(_rcount(rng))])


def g_sendcmpct(rng):
    return N("SendCmpct", announce=rng.random() < 0.5, version=_ri(rng, [0, 1, 2, 2**64 - 1], 64))


def g_prefilled(rng):
    prev = rng.choice([-1, -1, 0, 1, 251, 252, 65533])
    idx = rng.choice([prev + 1, prev + 2, min(65535, prev + 1 + rng.choice([252, 253, 1000])), 65535])
    return N("PrefilledTransaction", index=idx, tx=g_tx(rng)[0]), {"previous_index": prev}


def _increasing(rng, n, top=65535):
    out, cur = [], -1
    for _ in range(n):
        room = top - cur
        if room <= 0:
            break
        cur += rng.choice([1, 1, 2, 253, 254]) if rng.random() < 0.8 else rng.randrange(1, room + 1)
        if cur > top:
            cur = top
        out.append(cur)
        if cur == top:
            break
    return out


def g_cmpctblock(rng):
    ns = rng.choice([0, 1, 2, 3, 252, 253])
    idxs = _increasing(rng, rng.choice([0, 1, 2, 3]), top=max(0, ns + 2))
    count = ns + len(idxs)
    idxs = [i for i in idxs if i < count]
    return N("CmpctBlock", header=g_header(rng), nonce=_ri(rng, U64, 64),
             short_ids=[_ri(rng, [0, 1, 2**48 - 2, 2**48 - 1], 48) for _ in range(ns)],
             prefilled_txns=[N("PrefilledTransaction", index=i, tx=g_tx(rng)[0]) for i in idxs])


def g_getblocktxn(rng):
    return N("GetBlockTxn", block_hash=_h32(rng), indexes=_increasing(rng, _rcount(rng)))


def g_blocktxn(rng):
    return N("BlockTxn", block_hash=_h32(rng), transactions=[g_tx(rng)[0] for _ in range(rng.choice([0, 1, 2, 3]))])


def g_txpayload(rng):
    tx, seg = g_tx(rng)
    return N("TxPayload", tx=tx, include_witness=seg)


def g_message(rng, big=False):
    cmd = rng.choice(["", "a", "version", "verack", "sendaddrv2", "getcfcheckpt", "~" * 12, " !", "tx"])
    n = rng.choice([0, 1, 2, 100, 1000]) if not (big and rng.random() < 0.3) else rng.choice([3_999_999, 4_000_000])
    return N("Message", magic=H(rng.choice([bytes.fromhex("f9beb4d9"), bytes(4), _rb(rng, 4)])), command=cmd,
             payload=H(_rb(rng, n)))


def g_nonce(cls):
    return lambda rng: N(cls, nonce=_ri(rng, U64, 64))


def g_empty(cls):
    return lambda rng: N(cls)


def g_feefilter(rng):
    return N("FeeFilter", feerate=_ri(rng, I64 + [1000], 64, True))


# ----------------------------------------------------------------------------- psbt
_SIGHASHES = [1, 2, 3, 0x81, 0x82, 0x83]


def _der_sig(rng):
    from btclib.ecc import dsa

    r = rng.choice(_points())[0] % N_SECP
    return dsa.Sig(r, _scalar(rng)).serialize()


def _unknown(rng, avoid=()):
    out = []
    for _ in range(rng.choice([0, 0, 1, 2])):
        t = rng.choice([0x20, 0x3F, 0x7F, 0xF0, 0xFA, 0xFC, 0xFF])
        if t in avoid:
            continue
        out.append([H(bytes([t]) + _rb(rng, rng.choice([0, 1, 5, 40]))), H(_rb(rng, rng.choice([0, 1, 8, 300])))])
    return {"map": out}


def _hd_paths(rng, keylen=33):
    out, n = [], rng.choice([0, 1, 2])
    for i in range(n):
        k = _pub33(rng) if keylen == 33 else _rb(rng, keylen)
        out.append([H(k), N("BIP32KeyOrigin", master_fingerprint=H(_rb(rng, 4)),
                            der_path=[i] + [_ri(rng, [0, 0x80000000, 0xFFFFFFFF], 32) for _ in range(rng.randrange(4))])])
    seen, uniq = set(), []
    for k, v in out:
        if k["h"] not in seen:
            seen.add(k["h"])
            uniq.append([k, v])
    return {"map": uniq}


def _tap_hd_paths(rng):
    out = {}
    for i in range(rng.choice([1, 1, 2])):
        leaves = [H(_rb(rng, 32)) for _ in range(rng.choice([0, 1, 2, 3]))]
        out[_xonly(rng).hex()] = {"t": [leaves, N("BIP32KeyOrigin", master_fingerprint=H(_rb(rng, 4)),
                                                   der_path=[i, 0x80000000 + i])]}
    return {"map": [[{"h": k}, v] for k, v in out.items()]}


def _musig_participants(rng):
    return M([(H(_pub33(rng)), [H(_pub33(rng)) for _ in range(rng.choice([1, 2, 3]))])])


def _musig_session(rng, size):
    key = _pub33(rng) + _pub33(rng) + (_rb(rng, 32) if rng.random() < 0.5 else b"")
    return M([(H(key), H(_rb(rng, size)))])


def g_psbt_in(rng, version=0, mode=None, utxo=None, embed=False):
    """mode: 'plain' | 'final' | 'final+extra' (finalized but still carrying signer fields) | 'sighash0'."""
    from btclib.hashes import hash160, ripemd160

    if mode is None:
        mode = rng.choice(["plain", "plain", "plain", "final"])
    kw = {}
    p = rng.random
    if utxo is not None:
        kw["non_witness_utxo"] = utxo
    elif p() < 0.5:
        kw["witness_utxo"] = g_txout(rng)
    if mode.startswith("final"):
        which = rng.choice([1, 2, 3])
        if which & 1:
            kw["final_script_sig"] = H(_rb(rng, rng.choice([1, 2, 72, 253])))
        if which & 2:
            kw["final_script_witness"] = g_witness(rng, nonempty=True)
    if mode in ("plain", "final+extra", "sighash0"):
        force = mode == "final+extra"
        if p() < 0.5 or force:
            kw["partial_sigs"] = M([(H(_pub33(rng)), H(_der_sig(rng) + bytes([rng.choice(_SIGHASHES)])))])
        if mode == "sighash0":
            kw["sig_hash_type"] = 0
        elif p() < 0.5:
            kw["sig_hash_type"] = rng.choice(_SIGHASHES)
        if p() < 0.4:
            kw["redeem_script"] = H(_rb(rng, rng.choice([1, 22, 34, 253])))
        if p() < 0.4:
            kw["witness_script"] = H(_rb(rng, rng.choice([1, 35, 71, 300])))
        if p() < 0.4:
            kw["hd_key_paths"] = _hd_paths(rng)
        if p() < 0.2:
            pre = _rb(rng, rng.choice([0, 1, 32, 100]))
            kw["ripemd160_preimages"] = M([(H(ripemd160(pre)), H(pre))])
            kw["sha256_preimages"] = M([(H(hashlib.sha256(pre).digest()), H(pre))])
            kw["hash160_preimages"] = M([(H(hash160(pre)), H(pre))])
            kw["hash256_preimages"] = M([(H(_sha256d(pre)), H(pre))])
        if p() < 0.3:
            sig = _rb(rng, 64)
            kw["taproot_key_spend_signature"] = H(sig + (bytes([rng.choice(_SIGHASHES)]) if p() < 0.5 else b""))
        if p() < 0.3:
            kw["taproot_script_spend_signatures"] = M([(H(_xonly(rng) + _rb(rng, 32)), H(_rb(rng, 64)))])
        if p() < 0.3:
            cb = bytes([0xC0 | rng.randrange(2)]) + _xonly(rng) + _rb(rng, 32 * rng.choice([0, 1, 2]))
            kw["taproot_leaf_scripts"] = M([(H(cb), {"t": [H(_rb(rng, rng.choice([0, 1, 34, 300]))), rng.choice([0, 0xC0, 0xFF])]})])
        if p() < 0.35:
            kw["taproot_hd_key_paths"] = _tap_hd_paths(rng)
        if p() < 0.3:
            kw["taproot_internal_key"] = H(_xonly(rng))
        if p() < 0.3:
            kw["taproot_merkle_root"] = H(_rb(rng, 32))
        if p() < 0.2:
            kw["musig2_participant_pub_keys"] = _musig_participants(rng)
        if p() < 0.2:
            kw["musig2_pub_nonces"] = _musig_session(rng, 66)
        if p() < 0.2:
            kw["musig2_partial_sigs"] = _musig_session(rng, 32)
    if p() < 0.4:
        kw["unknown"] = _unknown(rng)
    if version == 2 or embed:
        if "previous_tx_id" not in kw:
            kw["previous_tx_id"] = H(_rb(rng, 32))
        kw["output_index"] = _ri(rng, [0, 1, 0xFFFFFFFE], 32) if utxo is None else 0
        if version == 0 or p() < 0.6:
            kw["sequence"] = _ri(rng, U32, 32)
    if version == 2:
        if p() < 0.3:
            kw["required_height_lock_time"] = rng.choice([1, 2, 499999998, 499999999])
        if p() < 0.2:
            kw["sp_ecdh_shares"] = M([(H(_pub33(rng)), H(_pub33(rng)))])
            kw["sp_dleq_proofs"] = M([(H(_pub33(rng)), H(_rb(rng, 64)))])
    return N("PsbtIn", **kw)


def g_psbt_out(rng, version=0, embed=False):
    kw = {}
    p = rng.random
    if p() < 0.4:
        kw["redeem_script"] = H(_rb(rng, rng.choice([1, 22, 34, 253])))
    if p() < 0.4:
        kw["witness_script"] = H(_rb(rng, rng.choice([1, 35, 300])))
    if p() < 0.4:
        kw["hd_key_paths"] = _hd_paths(rng)
    if p() < 0.3:
        kw["taproot_internal_key"] = H(_xonly(rng))
    if p() < 0.3:
        kw["taproot_tree"] = [{"t": [rng.choice([0, 1, 2, 128, 255]), rng.choice([0, 0xC0, 0xFE]),
                                     H(_rb(rng, rng.choice([0, 1, 34, 253])))]} for _ in range(rng.choice([1, 2, 3]))]
    if p() < 0.35:
        kw["taproot_hd_key_paths"] = _tap_hd_paths(rng)
    if p() < 0.2:
        kw["musig2_participant_pub_keys"] = _musig_participants(rng)
    if p() < 0.4:
        kw["unknown"] = _unknown(rng)
    if version == 2 or embed:
        kw["amount"] = rng.choice([0, 1, 546, 10**8])
        kw["script_pub_key"] = H(bytes.fromhex(rng.choice([s for s in _SCRIPTS if s])))
    if version == 2 and p() < 0.2:
        kw["sp_v0_info"] = H(_pub33(rng) + _pub33(rng))
        if p() < 0.5:
            kw["sp_v0_label"] = _ri(rng, U32, 32)
    return N("PsbtOut", **kw)


def g_psbt(rng, version=None, in_mode=None):
    if version is None:
        version = rng.choice([0, 2])
    nin, nout = rng.choice([0, 1, 1, 2, 3]), rng.choice([0, 1, 1, 2, 3])
    inputs = []
    for i in range(nin):
        utxo = None
        kwx = {}
        if rng.random() < 0.3:
            utxo, _ = g_tx(rng, segwit=False, nout=1)
            kwx["previous_tx_id"] = H(_build(utxo).id)
        pin = g_psbt_in(rng, version, mode=in_mode, utxo=utxo, embed=True)
        pin["kw"].update(kwx)
        if utxo is None:
            pin["kw"]["previous_tx_id"] = H(bytes([i + 1]) + _rb(rng, 31))
        inputs.append(pin)
    outputs = [g_psbt_out(rng, version, embed=True) for _ in range(nout)]
    kw = {"tx_version": rng.choice([0, 1, 2, 3, 0xFFFFFFFF]), "inputs": inputs, "outputs": outputs, "version": version,
          "hd_key_paths": _hd_paths(rng, 78) if rng.random() < 0.3 else {"map": []}}
    if rng.random() < 0.4:
        kw["unknown"] = _unknown(rng, avoid=(0xFB,))
    if version == 0:
        kw["fallback_lock_time"] = _ri(rng, U32, 32)
    else:
        kw["fallback_lock_time"] = rng.choice([None, 0, 1, 0xFFFFFFFF])
        kw["tx_modifiable"] = rng.choice([None, 0, 1, 3, 7, 255])
    if rng.random() < 0.2:
        kw["signed_message"] = H(_rb(rng, rng.choice([0, 1, 100])))
    return N("Psbt", **kw)


def _g_bip21(rng):
    addr = rng.choice(["1BvBMSEYstWetqTFn5Au4m4GFg7xJaNVN2", "bc1qar0srrr7xfkvy5l643lydnw9re59gtzzwf5mdq",
                       "3J98t1WpEZ73CNmQviecrnyiWrnqRhWNLy"])
    kw = {"address": addr}
    if rng.random() < 0.6:
        kw["amount"] = rng.choice(["0", "1", "0.00000001", "20999999.9769", "21000000", "50.5"])
    if rng.random() < 0.5:
        kw["label"] = rng.choice(["", "Luke-Jr", "a b&c=d?e#f%", "é€", "+"])
    if rng.random() < 0.5:
        kw["message"] = rng.choice(["", "Donation for project xyz", "100%", "a+b c"])
    if rng.random() < 0.3:
        kw["others"] = {"map": [[rng.choice(["lightning", "x-y", "k&=", "pj"]), rng.choice(["", "v", "a=b&c", "ü"])]]}
    return N("Bip21", **kw)


def _wrap(fn):
    """Normalise generator outputs to (recipe, ctx)."""
    def gen(rng):
        r = fn(rng)
        if isinstance(r, tuple):
            if isinstance(r[1], bool):
                return r[0], None
            return r
        return r, None
    return gen


GENS = {
    "OutPoint": g_outpoint, "Witness": lambda r: g_witness(r, big=r.random() < 0.15),
    "TxIn": lambda r: g_txin(r, big=r.random() < 0.1, witness=False), "TxOut": lambda r: g_txout(r, big=r.random() < 0.1),
    "Tx": lambda r: g_tx(r, big=r.random() < 0.1), "BlockHeader": g_header,
    "BIP32KeyOrigin": g_origin, "BIP32KeyData": g_keydata, "dsa.Sig": g_dsa, "ssa.Sig": g_ssa, "bms.Sig": g_bms,
    "BorromeanSig": g_borromean, "Envelope": g_envelope, "Bip21": _g_bip21, "BasicBlockFilter": g_filter,
    "NetworkAddress": g_netaddr, "TimestampedNetworkAddress": g_tsaddr, "Addr": g_addr, "NetworkAddressV2": g_netaddrv2,
    "AddrV2": g_addrv2, "SendAddrV2": g_empty("SendAddrV2"), "Version": g_version, "Verack": g_empty("Verack"),
    "Inventory": g_inventory, "Inv": g_invlist("Inv"), "GetData": g_invlist("GetData"), "NotFound": g_invlist("NotFound"),
    "GetBlocks": g_locator("GetBlocks"), "GetHeaders": g_locator("GetHeaders"), "Headers": g_headers,
    "GetCFilters": g_range_request("GetCFilters"), "GetCFHeaders": g_range_request("GetCFHeaders"), "CFilter": g_cfilter,
    "CFHeaders": g_cfheaders, "GetCFCheckpt": g_getcfcheckpt, "CFCheckpt": g_cfcheckpt, "SendCmpct": g_sendcmpct,
    "PrefilledTransaction": g_prefilled, "CmpctBlock": g_cmpctblock, "GetBlockTxn": g_getblocktxn, "BlockTxn": g_blocktxn,
    "TxPayload": g_txpayload, "Message": lambda r: g_message(r), "Ping": g_nonce("Ping"), "Pong": g_nonce("Pong"),
    "GetAddr": g_empty("GetAddr"), "Mempool": g_empty("Mempool"), "SendHeaders": g_empty("SendHeaders"),
    "WtxidRelay": g_empty("WtxidRelay"), "FeeFilter": g_feefilter,
    "PsbtIn": lambda r: (lambda v: (g_psbt_in(r, v), {"psbt_version": v}))(r.choice([0, 2])),
    "PsbtOut": lambda r: (lambda v: (g_psbt_out(r, v), {"psbt_version": v}))(r.choice([0, 2])),
    "Psbt": g_psbt,
}
# objects that cannot be made consensus-valid without mining: exercised with check_validity=False only
GENS_NOCHECK = {"Block": g_block, "BlockPayload": g_blockpayload}


# ===================================================================== seeds harvested from /repo/tests
_HEX = re.compile(r"(?<![0-9a-fA-F])(?:[0-9a-fA-F]{2}){8,}(?![0-9a-fA-F])")
_B64PSBT = re.compile(r"cHNidP[A-Za-z0-9+/]+=*")
_B64SIG = re.compile(r"(?<![A-Za-z0-9+/])[A-Za-z0-9+/]{87}=(?![A-Za-z0-9+/=])")
_XKEY = re.compile(r"(?<![1-9A-HJ-NP-Za-km-z])[a-zA-Z]{4}[1-9A-HJ-NP-Za-km-z]{107,108}(?![1-9A-HJ-NP-Za-km-z])")
_URI = re.compile(r"[bB][iI][tT][cC][oO][iI][nN]:[^\s\"'<>\\]+")
_HEXWS = re.compile(r"^[0-9a-fA-F\s]+$")


def _strings_of_py(src):
    try:
        tree = ast.parse(src)
    except SyntaxError:
        return [src]
    return [n.value for n in ast.walk(tree) if isinstance(n, ast.Constant) and isinstance(n.value, str) and len(n.value) >= 16]


def _harvest(ctx):
    """-> (cands: {bytes: group}, uris: [str], files: [(relpath, bytes)]) ; deterministic order."""
    from btclib import base58

    rng = ctx.rng
    cands: dict[bytes, str] = {}
    uris: list[str] = []
    files = []
    per_file_cap = ctx.n(150, 10**9)

    def add(b, group):
        if b and b not in cands:
            cands[b] = group

    def scan(text, group):
        found = []
        for m in _B64PSBT.findall(text):
            try:
                found.append(base64.b64decode(m + "=" * (-len(m) % 4)))
            except ValueError:
                pass
        for m in _B64SIG.findall(text):
            try:
                d = base64.b64decode(m)
                if len(d) == 65:
                    found.append(d)
            except ValueError:
                pass
        for m in _XKEY.findall(text):
            try:
                found.append(base58.b58decode(m))
            except Exception:  # noqa: BLE001
                pass
        hexes = _HEX.findall(text)
        if len(hexes) > per_file_cap:
            hexes = rng.sample(hexes, per_file_cap)
        for m in hexes:
            found.append(bytes.fromhex(m))
        for b in found:
            add(b, group)
        for m in _URI.findall(text):
            if m not in uris:
                uris.append(m)

    for root, dirs, fnames in os.walk(TESTS):
        dirs.sort()
        rel = os.path.relpath(root, TESTS)
        group = "" if rel == "." else rel.split(os.sep)[0]
        for f in sorted(fnames):
            p = os.path.join(root, f)
            if f.endswith(".bin"):
                with open(p, "rb") as fh:
                    files.append((os.path.relpath(p, TESTS), fh.read()))
            elif f.endswith(".py"):
                with open(p, encoding="utf-8", errors="replace") as fh:
                    src = fh.read()
                for s in _strings_of_py(src):
                    if _HEXWS.match(s):
                        s = "".join(s.split())
                    scan(s, group)
            elif f.endswith((".json", ".csv", ".txt")):
                with open(p, encoding="utf-8", errors="replace") as fh:
                    scan(fh.read(), group)
    return cands, uris, files


_FIXED = {"OutPoint": 36, "BlockHeader": 80, "BIP32KeyData": 78, "ssa.Sig": 64, "bms.Sig": 65, "NetworkAddress": 26,
          "TimestampedNetworkAddress": 30, "Inventory": 36, "Ping": 8, "Pong": 8, "FeeFilter": 8, "SendCmpct": 9,
          "GetCFilters": 37, "GetCFHeaders": 37, "GetCFCheckpt": 33}
_EMPTY = ("Verack", "SendAddrV2", "GetAddr", "Mempool", "SendHeaders", "WtxidRelay")
_MINLEN = {"TxIn": 41, "TxOut": 9, "Tx": 10, "Witness": 1, "Block": 81, "BIP32KeyOrigin": 4, "dsa.Sig": 8, "Psbt": 6,
           "Message": 24, "Version": 85, "CFilter": 34, "CFHeaders": 66, "CFCheckpt": 34, "CmpctBlock": 90,
           "GetBlockTxn": 33, "BlockTxn": 33, "PrefilledTransaction": 11, "TxPayload": 10, "BlockPayload": 81,
           "Envelope": 85, "NetworkAddressV2": 9, "GetBlocks": 37, "GetHeaders": 37}
_GROUPS = {"tx": ("tx", "script_engine", "fetch", "integration"), "block": ("block",), "psbt": ("psbt",),
           "p2p": ("p2p",), "bip32": ("bip32", "wallet"), "ecc": ("ecc",)}


def _plausible(name, b):
    n = len(b)
    if name in _FIXED:
        return n == _FIXED[name]
    if name in _EMPTY:
        return False
    if n < _MINLEN.get(name, 1):
        return False
    if name == "Psbt":
        return b[:5] == b"psbt\xff"
    if name in ("PsbtIn", "PsbtOut"):
        return b[-1] == 0 and n < 100_000 and b[:5] != b"psbt\xff"
    if name in ("Inv", "GetData", "NotFound"):
        return b[0] < 0xFD and n == 1 + 36 * b[0]
    if name == "Addr":
        return b[0] < 0xFD and n == 1 + 30 * b[0]
    if name == "Headers":
        return b[0] < 0xFD and n == 1 + 81 * b[0]
    if name == "BIP32KeyOrigin":
        return n % 4 == 0 and n <= 4 + 4 * 255
    if name == "BorromeanSig":
        return n % 32 == 0 and 64 <= n <= 32 * 9
    if name == "Envelope":
        return b[:4] == b"BIE1"
    if name in ("dsa.Sig",):
        return b[0] == 0x30 and n <= 80
    return True


def _seed_ctx(name, b):
    if name == "BorromeanSig":
        return {"rsizes": [(len(b) - 32) // 32]}
    return None


def _sort_seeds(ctx, reg, cands, files):
    """Try every plausible candidate against every parser; keep those accepted. -> {name: [(bytes, ctx, valid)]}"""
    rng = ctx.rng
    seeds = {name: [] for name in reg}
    items = list(cands.items())
    generic_cap = ctx.n(2500, 10**9)
    for name, sp in reg.items():
        if not sp.ps or sp.private or name in TEXT_CLASSES:
            continue
        family = sp.cls.__module__.split(".")[1] if sp.cls.__module__.count(".") else ""
        family = {"script": "tx"}.get(family, family)
        near = _GROUPS.get(family, (family,))
        first, rest = [], []
        for b, g in items:
            if _plausible(name, b):
                (first if g in near else rest).append(b)
        if len(first) > generic_cap:
            first = rng.sample(first, generic_cap)
        if len(rest) > generic_cap // 2:
            rest = rng.sample(rest, generic_cap // 2)
        pool = first + rest
        if name in ("Block", "BlockPayload"):
            pool = pool + [b for _, b in files if len(b) < ctx.n(1000, 300_000)]
        if name in ("Tx", "TxPayload"):
            pool = pool + [b for rel, b in files if rel.startswith("tx")]
        ctxs = [{"psbt_version": 0}, {"psbt_version": 2}] if name in ("PsbtIn", "PsbtOut") else [None]
        for b in pool:
            for c0 in ctxs:
                c = c0 if c0 is not None else _seed_ctx(name, b)
                got = None
                for cv in (True, False):
                    try:
                        _parse(sp, b, cv, c)
                        got = cv
                        break
                    except Exception:  # noqa: BLE001 - classification only; the oracle re-examines refusals
                        continue
                if got is not None:
                    seeds[name].append((b, c, got))
                    break
    return seeds


# ===================================================================== structure-aware mutations
def _cs(b, p):
    """Read a CompactSize at p -> (value, width); raises IndexError on truncation."""
    f = b[p]
    if f < 0xFD:
        return f, 1
    w = {0xFD: 2, 0xFE: 4, 0xFF: 8}[f]
    if p + 1 + w > len(b):
        raise IndexError
    return int.from_bytes(b[p + 1:p + 1 + w], "little"), 1 + w


def _cse(n):
    if n < 0xFD:
        return bytes([n])
    if n <= 0xFFFF:
        return b"\xfd" + n.to_bytes(2, "little")
    if n <= 0xFFFFFFFF:
        return b"\xfe" + n.to_bytes(4, "little")
    return b"\xff" + n.to_bytes(8, "little")


def _tx_layout(b, start=0):
    try:
        p = start + 4
        seg = b[p:p + 2] == b"\x00\x01"
        if seg:
            p += 2
        cs = []
        nin, w = _cs(b, p)
        cs.append(p)
        p += w
        for _ in range(nin):
            p += 36
            ln, w = _cs(b, p)
            cs.append(p)
            p += w + ln + 4
        nout, w = _cs(b, p)
        cs.append(p)
        p += w
        for _ in range(nout):
            p += 8
            ln, w = _cs(b, p)
            cs.append(p)
            p += w + ln
        wstart = p
        if seg:
            for _ in range(nin):
                n, w = _cs(b, p)
                cs.append(p)
                p += w
                for _ in range(n):
                    ln, w = _cs(b, p)
                    cs.append(p)
                    p += w + ln
        if p + 4 > len(b) or nin > 100_000:
            return None
        return {"seg": seg, "nin": nin, "cs": cs, "wstart": wstart, "wend": p, "end": p + 4, "start": start}
    except (IndexError, KeyError):
        return None


def _witness_layout(b):
    try:
        cs, p = [0], 0
        n, w = _cs(b, 0)
        p = w
        for _ in range(n):
            ln, w = _cs(b, p)
            cs.append(p)
            p += w + ln
        return cs
    except (IndexError, KeyError):
        return [0]


def _psbt_split(name, b):
    """-> (prefix, [[(key, value, keylen_pos, vallen_pos), ...] per map]) or None"""
    try:
        p = 5 if name == "Psbt" else 0
        maps = []
        while p < len(b):
            recs = []
            while True:
                if b[p] == 0:
                    p += 1
                    break
                kp = p
                kl, w = _cs(b, p)
                p += w
                k = b[p:p + kl]
                p += kl
                vp = p
                vl, w = _cs(b, p)
                p += w
                v = b[p:p + vl]
                p += vl
                if len(k) != kl or len(v) != vl:
                    return None
                recs.append((k, v, kp, vp))
            maps.append(recs)
        return b[:5] if name == "Psbt" else b"", maps
    except (IndexError, KeyError):
        return None


def _psbt_join(prefix, maps):
    out = [prefix]
    for recs in maps:
        for r in recs:
            out.append(_cse(len(r[0])) + r[0] + _cse(len(r[1])) + r[1])
        out.append(b"\x00")
    return b"".join(out)


def _layout(name, b):
    """Offsets of length / count / marker / flag bytes of an accepted encoding (best effort)."""
    n = len(b)
    pos: list[int] = []
    if name in ("Tx", "TxPayload"):
        lay = _tx_layout(b)
        if lay:
            pos = [4, 5] + lay["cs"] + [lay["end"] - 4]
    elif name == "PrefilledTransaction":
        lay = _tx_layout(b, 1) if b and b[0] < 0xFD else None
        pos = [0] + ([5, 6] + lay["cs"] if lay else [])
    elif name in ("Block", "BlockPayload"):
        lay = _tx_layout(b, 81) if n > 81 and b[80] < 0xFD else None
        pos = [0, 3, 68, 72, 80] + ([85, 86] + lay["cs"][:12] if lay else [])
    elif name == "TxIn":
        pos = [36]
    elif name == "TxOut":
        pos = [7, 8]
    elif name == "Witness":
        pos = _witness_layout(b)
    elif name in ("Addr", "AddrV2", "Inv", "GetData", "NotFound", "BasicBlockFilter", "SendCmpct", "bms.Sig"):
        pos = [0]
    elif name == "Headers":
        pos = [0] + [1 + 81 * i + 80 for i in range(min(4, max(0, (n - 1) // 81)))]
    elif name in ("GetBlocks", "GetHeaders"):
        pos = [3, 4]
    elif name in ("CFilter", "CFCheckpt"):
        pos = [0, 33]
    elif name == "CFHeaders":
        pos = [0, 65]
    elif name in ("GetBlockTxn", "BlockTxn"):
        pos = [32, 33, 34]
    elif name == "CmpctBlock":
        pos = [88]
        if n > 88 and b[88] < 0xFD:
            q = 89 + 6 * b[88]
            pos += [q, q + 1]
    elif name == "Version":
        pos = [80, n - 1, n - 5]
    elif name == "NetworkAddressV2":
        pos = [4, 5, 6, 7]
    elif name == "Message":
        pos = list(range(4, 24))
    elif name == "dsa.Sig":
        pos = [0, 1, 2, 3, 4] + ([4 + b[3], 5 + b[3], 6 + b[3]] if n > 3 else [])
    elif name == "BIP32KeyData":
        pos = [0, 3, 4, 5, 9, 12, 45, 46]
    elif name == "Envelope":
        pos = [0, 3, 4, 5]
    elif name in MAP_CLASSES:
        sp = _psbt_split(name, b)
        if sp:
            for recs in sp[1]:
                for r in recs:
                    pos += [r[2], r[2] + 1, r[3]]
            pos = ([0, 4] if name == "Psbt" else []) + pos
    pos = [p for p in pos if 0 <= p < n]
    for p in list(pos):
        if b[p] >= 0xFD:   # a wide CompactSize: its value bytes are structural too
            pos += [q for q in (p + 1, p + 2, p + 3, p + 4, p + 8) if q < n]
    if not pos:
        pos = list(range(n)) if n <= 96 else list(range(8)) + [n - 1]
    return pos


def _edits(v):
    return [(v + 1) & 0xFF, (v - 1) & 0xFF, 0, 0xFC, 0xFD, 0xFE, 0xFF]


_REC_EMPTY = {"in": [b"\x04", b"\x05", b"\x07", b"\x13", b"\x17", b"\x18", b"\x02" + b"\x02" * 33, b"\x0a" + b"\x00" * 20],
              "out": [b"\x00", b"\x01", b"\x05", b"\x06"], "global": [b"\x09"]}
_REC_ZERO = {"in": [(b"\x03", bytes(4)), (b"\x10", bytes(4)), (b"\x11", bytes(4)), (b"\x12", bytes(4)), (b"\x08", b"\x00")],
             "out": [(b"\x03", bytes(8)), (b"\x0a", bytes(4))],
             "global": [(b"\xfb", bytes(4)), (b"\x03", bytes(4)), (b"\x06", b"\x00")]}


def _map_kind(name, i, n_in):
    if name == "PsbtIn":
        return "in"
    if name == "PsbtOut":
        return "out"
    return "global" if i == 0 else ("in" if i <= n_in else "out")


def _mutate_records(name, b, rng, n_in):
    sp = _psbt_split(name, b)
    if not sp or not sp[1]:
        return None
    prefix, maps = sp[0], [list(m) for m in sp[1]]
    i = rng.randrange(len(maps))
    recs = maps[i]
    kind = _map_kind(name, i, n_in)
    op = rng.choice(["dup", "reorder", "unknown", "empty", "zero", "drop", "keydata"])
    if op == "keydata" and recs:   # key data after the type byte of a record (whole-value fields must refuse it)
        j = rng.randrange(len(recs))
        r = recs[j]
        recs[j] = (r[0] + _rb(rng, rng.choice([1, 1, 2, 32])) if len(r[0]) == 1 or rng.random() < 0.3 else r[0][:-1],
                   r[1], 0, 0)
    elif op == "dup" and recs:
        r = rng.choice(recs)
        recs.insert(rng.randrange(len(recs) + 1), r if rng.random() < 0.5 else (r[0], _rb(rng, len(r[1])), 0, 0))
    elif op == "reorder" and len(recs) > 1:
        if rng.random() < 0.5:
            recs.reverse()
        else:
            rng.shuffle(recs)
    elif op == "unknown":
        t = rng.choice([0x20, 0x7F, 0xF0, 0xFC, 0xFF, 0x19, 0x1F])
        recs.insert(rng.randrange(len(recs) + 1), (bytes([t]) + _rb(rng, rng.choice([0, 1, 8])), _rb(rng, rng.choice([0, 1, 4, 33])), 0, 0))
    elif op == "empty":
        have = {r[0][:1] for r in recs}
        opts = [k for k in _REC_EMPTY[kind] if k[:1] not in have]
        if not opts:
            return None
        recs.insert(rng.randrange(len(recs) + 1), (rng.choice(opts), b"", 0, 0))
    elif op == "zero":
        have = {r[0] for r in recs}
        opts = [kv for kv in _REC_ZERO[kind] if kv[0] not in have]
        if not opts:
            return None
        k, v = rng.choice(opts)
        recs.insert(rng.randrange(len(recs) + 1), (k, v, 0, 0))
    elif op == "drop" and recs:
        recs.pop(rng.randrange(len(recs)))
    else:
        return None
    return _psbt_join(prefix, maps)


def _mutate_tx(b, rng, start=0):
    lay = _tx_layout(b, start)
    if not lay:
        return None
    s, e = start + 4, lay["end"]
    if lay["seg"]:
        op = rng.choice(["unmark", "strip", "empty", "unmark1"])
        if op == "unmark":      # remove the marker, keep the witness section
            return b[:s] + b[s + 2:]
        if op == "unmark1":     # remove only the flag byte
            return b[:s + 1] + b[s + 2:]
        if op == "strip":       # drop marker and witnesses: the legacy serialization
            return b[:s] + b[s + 2:lay["wstart"]] + b[lay["wend"]:]
        return b[:lay["wstart"]] + b"\x00" * lay["nin"] + b[lay["wend"]:]   # all-empty witness section
    op = rng.choice(["mark", "mark+empty", "mark+wit", "flag2"])
    if op == "mark":
        return b[:s] + b"\x00\x01" + b[s:]
    if op == "mark+empty":
        return b[:s] + b"\x00\x01" + b[s:e - 4] + b"\x00" * lay["nin"] + b[e - 4:]
    if op == "flag2":
        return b[:s] + b"\x00\x02" + b[s:e - 4] + b"\x00" * lay["nin"] + b[e - 4:]
    wit = b"\x01\x01\x2a" + b"\x00" * max(0, lay["nin"] - 1)
    return b[:s] + b"\x00\x01" + b[s:e - 4] + wit + b[e - 4:]


def _mutate(name, b, rng, n_in=0):
    """One structure-aware mutation of an accepted encoding (None when not applicable)."""
    n = len(b)
    ops = ["trunc", "append", "edit", "edit", "edit", "noncanon", "noncanon", "flip"]
    if name in ("Tx", "TxPayload", "PrefilledTransaction"):
        ops += ["tx"] * 4
    if name in MAP_CLASSES:
        ops += ["rec"] * 8
    op = rng.choice(ops)
    if op == "trunc":
        return b[:rng.randrange(n)] if n else None
    if op == "append":
        return b + rng.choice([b"\x00", b"\xff", b"\x01", _rb(rng, rng.randrange(1, 5)), b[-1:] or b"\x00"])
    if op == "flip":
        if not n:
            return None
        p = rng.randrange(n)
        return b[:p] + bytes([b[p] ^ (1 << rng.randrange(8))]) + b[p + 1:]
    if op == "tx":
        return _mutate_tx(b, rng, 1 if name == "PrefilledTransaction" else 0)
    if op == "rec":
        return _mutate_records(name, b, rng, n_in)
    pos = _layout(name, b)
    if not pos:
        return None
    p = rng.choice(pos)
    if op == "edit":
        v = rng.choice(_edits(b[p]))
        return b[:p] + bytes([v]) + b[p + 1:] if v != b[p] else None
    if b[p] >= 0xFD:
        try:   # already a wide CompactSize: widen it further / re-encode a small value widely
            v, w = _cs(b, p)
        except (IndexError, KeyError):
            return None
        wide = [x for x in (b"\xfe" + v.to_bytes(4, "little") if v < 2**32 else None,
                            b"\xff" + v.to_bytes(8, "little")) if x and len(x) > w]
        return b[:p] + rng.choice(wide) + b[p + w:] if wide else None
    v = b[p]
    return b[:p] + rng.choice([b"\xfd" + bytes([v, 0]), b"\xfe" + bytes([v, 0, 0, 0]), b"\xff" + bytes([v]) + bytes(7)]) + b[p + 1:]


# ===================================================================== run
_CAP_PER_KEY = 2


class _Run:
    def __init__(self, ctx):
        self.ctx = ctx
        self.per_key: dict[str, int] = {}
        self.suppressed: dict[str, int] = {}

    def check(self, oracle, w):
        ok, _detail, key, nt = _classify(oracle, w)
        self.ctx.count("oracle.classes", w["cls"])
        self.ctx.count("oracle.kinds", oracle)
        if not ok:
            self.ctx.count("oracle.finding_keys", key)
            self.per_key[key] = self.per_key.get(key, 0) + 1
            if self.per_key[key] > _CAP_PER_KEY:
                # Ctx keeps at most 20 findings per oracle: do not let one defect crowd the others out
                self.suppressed[key] = self.suppressed.get(key, 0) + 1
                wit = {"oracle": oracle, "witness": w}
                self.ctx.seen(oracle + "#oracle", json.dumps(wit, default=str, sort_keys=True)[:4000], nt)
                st = self.ctx.streams.setdefault(oracle + "#oracle", {"cases": 0, "failures": 0})
                st["cases"] += 1
                st["failures"] += 1   # counted as a failure; only the Finding record is omitted
                return ok, key
        self.ctx.check(oracle, w, key=key, nontrivial=nt)
        return ok, key


def _w_bytes(name, b, c=None):
    w = {"cls": name, "s": b} if isinstance(b, str) else {"cls": name, "b": b.hex()}
    if c:
        w["ctx"] = c
    return w


def _n_inputs(sp, b, c):
    try:
        return len(_parse(sp, b, True, c).inputs)
    except Exception:  # noqa: BLE001
        return 0


def run(ctx):
    rng = ctx.rng
    reg = _registry()
    R = _Run(ctx)
    for p in _DISCOVERY_PROBLEMS:
        ctx.note("c05_oracles discovery: " + p)
    cands, uris, files = _harvest(ctx)
    seeds = _sort_seeds(ctx, reg, cands, files)
    seeds["Bip21"] = []
    if "Bip21" in reg:
        for u in uris:
            try:
                reg["Bip21"].cls.parse(u)
                seeds["Bip21"].append((u, None, True))
            except Exception:  # noqa: BLE001
                pass
    _filter_vectors(reg, seeds)
    ctx.note("c05_oracles seeds accepted from /repo/tests: "
             + ", ".join(f"{k}={len(v)}" for k, v in sorted(seeds.items()) if v))

    _run_sighash0(R, ctx, rng, reg, seeds.get("Psbt", []))   # first: the recorded witnesses are the minimal ones
    uncovered = []
    for name in sorted(reg):
        sp = reg[name]
        if sp.private:
            ctx.note(f"c05_oracles: {name} is a private base class (exercised through its subclasses)")
            continue
        gen = GENS.get(name)
        gen_nc = GENS_NOCHECK.get(name)
        have_inputs = bool(seeds.get(name)) or gen is not None or gen_nc is not None or name in _EMPTY
        if name == "Network":
            _run_network(R, sp)
            continue
        if not have_inputs:
            uncovered.append(name)
            _run_fallback(R, ctx, sp, name)
            continue
        _run_class(R, ctx, rng, sp, name, seeds.get(name, []), gen, gen_nc)
    _run_big_counts(R, ctx, rng, reg)
    _run_block_files(R, ctx, rng, reg, files)
    for name in uncovered:
        ctx.note(f"c05_oracles: NO input generator and no accepted seed for {name} "
                 f"({reg[name].cls.__module__}): only default-constructor round trip attempted")
    for key, k in sorted(R.suppressed.items()):
        ctx.note(f"c05_oracles: {k} further failing instances of `{key}` not recorded (cap {_CAP_PER_KEY} per key)")


def _filter_vectors(reg, seeds):
    """BIP158 vectors: the filter bytes are only a valid object together with the hash of their block."""
    if "BasicBlockFilter" not in reg:
        return
    try:
        rows = json.loads(_read_file("block/_data/blockfilters.json").decode())
    except (OSError, ValueError):
        return
    good = []
    for row in rows:
        if isinstance(row, list) and len(row) >= 6:
            try:
                b, c = bytes.fromhex(row[5]), {"block_hash": row[1]}
                _parse(reg["BasicBlockFilter"], b, True, c)
                good.append((b, c, True))
            except Exception:  # noqa: BLE001
                continue
    seeds["BasicBlockFilter"] = good + seeds.get("BasicBlockFilter", [])


def _run_network(R, sp):
    from btclib.network import NETWORKS

    for k in sorted(NETWORKS):
        for cv in (True, False):
            R.check("rt.json", {"cls": "Network", "obj": {"get": "btclib.network:NETWORKS", "key": k}, "cv": cv})


def _run_fallback(R, ctx, sp, name):
    """A class the generators do not know: try the default constructor so that it is at least touched."""
    try:
        x = sp.cls()
        b = x.serialize() if sp.ps else None
    except Exception:  # noqa: BLE001
        return
    if isinstance(b, (bytes, bytearray)):
        R.check("rt.bytes", _w_bytes(name, bytes(b)))


def _run_class(R, ctx, rng, sp, name, class_seeds, gen, gen_nc):
    text = name in TEXT_CLASSES
    pool = []  # (bytes, ctx, n_in) accepted encodings to mutate
    # ---- (a) vendored seeds
    cap = ctx.n(120, 4000)
    if len(class_seeds) > cap:
        valid_first = [t for t in class_seeds if t[2]][: cap // 2]
        others = [t for t in class_seeds if t not in valid_first] if len(class_seeds) < 50_000 else class_seeds
        class_seeds = valid_first + rng.sample(others, cap - len(valid_first))
    n_obj = 0
    for b, c, valid in class_seeds:
        if sp.ps:
            ok, _ = R.check("rt.bytes", _w_bytes(name, b, c))
            pool.append((b, c))
        if valid and n_obj < ctx.n(25, 400) and len(b) < 200_000:
            n_obj += 1
            rec = {"parse": name, "s": b} if text else {"parse": name, "b": b.hex()}
            if c:
                rec["ctx"] = c
            if sp.ps:
                w = {"cls": name, "obj": rec}
                if c:
                    w["ctx"] = c
                R.check("rt.object", w)
            if sp.js:
                for cv in (True, False):
                    R.check("rt.json", {"cls": name, "obj": rec, "cv": cv})
    if name in _EMPTY:
        R.check("rt.bytes", _w_bytes(name, b""))
        pool.append((b"", None))
    # ---- (b) generated valid objects
    for g, cvs in ((gen, [True, False]), (gen_nc, [False])):
        if g is None:
            continue
        heavy = name in ("Psbt", "PsbtIn", "CmpctBlock", "BlockTxn", "Block", "BlockPayload", "Headers")
        for _ in range(ctx.n(20 if heavy else 40, 700 if heavy else 1500)):
            r = _wrap(g)(rng)
            rec, c = r
            if rec is None:
                continue
            w = {"cls": name, "obj": rec, "cv": cvs}
            if c:
                w["ctx"] = c
            if sp.ps:
                R.check("rt.object", w)
            if sp.js:
                for cv in cvs:
                    R.check("rt.json", {"cls": name, "obj": rec, "cv": cv, "build_cv": True in cvs})
            if sp.ps and not text and len(pool) < ctx.n(60, 600):
                try:
                    enc = _ser(sp, _build(rec, cv=(True in cvs)), True in cvs, c)
                    if len(enc) < 50_000:
                        pool.append((enc, c))
                except Exception:  # noqa: BLE001 - an invalid recipe is reported by rt.object, not here
                    pass
        if name in ("PsbtIn", "Psbt") and g is gen:
            # object-level instances of the two normalisations PsbtIn.serialize performs by truthiness
            for mode in ("sighash0", "final+extra"):
                for _ in range(ctx.n(3, 30)):
                    v = rng.choice([0, 2])
                    if name == "PsbtIn":
                        w = {"cls": name, "obj": g_psbt_in(rng, v, mode=mode), "ctx": {"psbt_version": v}}
                    else:
                        w = {"cls": name, "obj": g_psbt(rng, v, in_mode=mode)}
                    R.check("rt.object", w)
    if not sp.ps or text or not pool:
        return
    # ---- (c) structure-aware mutations of accepted encodings
    small = [e for e in pool if len(e[0]) <= 300]
    for b, c in (rng.sample(small, min(len(small), ctx.n(2, 12)))):
        for k in range(len(b)):                       # truncate at every position
            R.check("rt.bytes", _w_bytes(name, b[:k], c))
        for p in _layout(name, b)[: ctx.n(12, 64)]:   # every neighbour / extreme at each structural byte
            for v in _edits(b[p]):
                if v != b[p]:
                    R.check("rt.bytes", _w_bytes(name, b[:p] + bytes([v]) + b[p + 1:], c))
    nin_cache: dict[int, int] = {}
    budget = ctx.n(400, 12000) if name not in ("Psbt", "Tx") else ctx.n(1000, 30000)
    for _ in range(budget):
        i = rng.randrange(len(pool))
        b, c = pool[i]
        n_in = 0
        if name == "Psbt":
            if i not in nin_cache:
                nin_cache[i] = _n_inputs(sp, b, c)
            n_in = nin_cache[i]
        m = _mutate(name, b, rng, n_in)
        if m is None or m == b:
            continue
        R.check("rt.bytes", _w_bytes(name, m, c))


def _run_big_counts(R, ctx, rng, reg):
    """CompactSize boundaries 65535 / 65536 (and each class's own maximum count) where affordable."""
    z32 = H(bytes(32))
    inv = N("Inventory", type_code=1, hash=z32)
    tsa = N("TimestampedNetworkAddress", timestamp=1, address=N("NetworkAddress", services=1, ip=H(bytes(16)), port=8333))
    av2 = N("NetworkAddressV2", timestamp=1, services=253, network_id=1, address=H(bytes(4)), port=1)
    hdr = g_header(rng)
    txin = N("TxIn", prev_out=N("OutPoint", tx_id=H(b"\x01" * 32), vout=0), script_sig=H(b""), sequence=0)
    out0 = N("TxOut", value=0, script_pub_key=H(b""))
    quick = [
        ("Witness", N("Witness", stack={"rep": H(b""), "n": 65535})),
        ("Witness", N("Witness", stack={"rep": H(b""), "n": 65536})),
        ("Witness", N("Witness", stack=[H(bytes(65535)), H(bytes(65536))])),
        ("Addr", N("Addr", addresses={"rep": tsa, "n": 1000})),
        ("AddrV2", N("AddrV2", addresses={"rep": av2, "n": 1000})),
        ("GetBlockTxn", N("GetBlockTxn", block_hash=z32, indexes={"range": [0, 65535]})),
        ("CFHeaders", N("CFHeaders", filter_hashes={"rep": z32, "n": 2000})),
        ("Headers", N("Headers", headers={"rep": hdr, "n": 2000})),
        ("GetHeaders", N("GetHeaders", version=70016, locator={"rep": z32, "n": 101})),
        ("Message", N("Message", magic=H(bytes(4)), command="block", payload=H(bytes(4_000_000)))),
        ("TxOut", N("TxOut", value=1, script_pub_key=H(bytes(65536)))),
    ]
    thorough = [
        ("GetBlockTxn", N("GetBlockTxn", block_hash=z32, indexes={"range": [1, 65536]})),
        ("CmpctBlock", N("CmpctBlock", header=hdr, nonce=1, short_ids={"rep": 2**48 - 1, "n": 65535})),
        ("Inv", N("Inv", items={"rep": inv, "n": 50000})),
        ("GetData", N("GetData", items={"rep": inv, "n": 49999})),
        ("CFCheckpt", N("CFCheckpt", filter_headers={"rep": z32, "n": 65536})),
        ("Tx", N("Tx", version=2, lock_time=0, vin=[txin], vout={"rep": out0, "n": 65535})),
        ("Tx", N("Tx", version=2, lock_time=0, vin=[txin], vout={"rep": out0, "n": 65536})),
        ("BlockTxn", N("BlockTxn", block_hash=z32,
                       transactions={"rep": N("Tx", version=1, lock_time=0, vin=[txin], vout=[out0]), "n": 253})),
    ]
    for name, rec in quick + (thorough if ctx.tier == "thorough" else []):
        if name not in reg:
            continue
        R.check("rt.object", {"cls": name, "obj": rec, "cv": [True]})
        # one over each class's own maximum must be refused, never mis-read (exercised through the count field)
        try:
            enc = _ser(reg[name], _build(rec), True, None)
        except Exception:  # noqa: BLE001 - reported by rt.object above
            continue
        if len(enc) > ctx.n(20_000, 700_000):
            continue
        for p in _layout(name, enc)[: ctx.n(3, 8)]:
            for v in _edits(enc[p])[:2] + [0xFD, 0xFE, 0xFF]:
                if v != enc[p]:
                    R.check("rt.bytes", _w_bytes(name, enc[:p] + bytes([v]) + enc[p + 1:]))


def _run_block_files(R, ctx, rng, reg, files):
    """Vendored blocks are referenced by file name (witnesses stay small); few in the quick tier."""
    if "Block" not in reg:
        return
    blocks = [(rel, b) for rel, b in files if rel.startswith("block")]
    blocks.sort(key=lambda t: len(t[1]))
    limit = ctx.n(300_000, 2_000_000)
    for rel, b in blocks:
        if len(b) > limit:
            ctx.note(f"c05_oracles: {rel} ({len(b)} bytes) skipped in this tier")
            continue
        for name in ("Block", "BlockPayload"):
            if name not in reg:
                continue
            R.check("rt.bytes", {"cls": name, "file": rel})
            R.check("rt.object", {"cls": name, "obj": {"parse": name, "file": rel}})
        R.check("rt.json", {"cls": "Block", "obj": {"parse": "Block", "file": rel}, "cv": True})
        lay = _tx_layout(b, 81) if b[80] < 0xFD else None
        muts = [[["cut", len(b) - 1, len(b)]], [["ins", len(b), "00"]], [["set", 80, (b[80] + 1) & 0xFF]],
                [["set", 80, (b[80] - 1) & 0xFF]], [["set", 80, 0]], [["set", 80, 0xFD]], [["set", 80, 0xFF]],
                [["cut", 81, len(b)]], [["set", 0, b[0] ^ 1]], [["set", 79, b[79] ^ 1]]]
        if b[80] < 0xFD:
            muts.append([["cut", 80, 81], ["ins", 80, "fd%02x00" % b[80]]])
        if lay:
            for p in lay["cs"][:6]:
                muts.append([["set", p, (b[p] + 1) & 0xFF]])
                if b[p] < 0xFD:
                    muts.append([["cut", p, p + 1], ["ins", p, "fd%02x00" % b[p]]])
        for _ in range(ctx.n(4, 40)):
            p = rng.randrange(len(b))
            muts.append([["cut", p, len(b)]])
            muts.append([["set", p, b[p] ^ (1 << rng.randrange(8))]])
        if len(b) > 100_000:
            muts = muts[: ctx.n(8, 60)]
        for ops in muts:
            R.check("rt.bytes", {"cls": "Block", "file": rel, "ops": ops, "cvs": [False] if len(b) > 100_000 else [True, False]})


def _run_sighash0(R, ctx, rng, reg, psbt_seeds):
    """Deterministic reproductions on vendored PSBTs (independent of what the random mutations happen to hit):
    psbt.sighash0.dropped     explicit PSBT_IN_SIGHASH_TYPE record 01 03 04 00000000 in an input map without one
    and the other records PsbtIn/PsbtOut/Psbt.serialize drop because emission is decided by truthiness:
    explicit global version 0, empty-valued records, an empty final witness, signer fields of a finalized input;
    psbt.v0.noinputs.marker   a v0 PSBT with no inputs and one output serializes to bytes its own parse refuses."""
    if "Psbt" not in reg:
        return
    sp = reg["Psbt"]
    R.check("rt.object", {"cls": "Psbt", "obj": N("Psbt", tx_version=2, inputs=[], version=0, hd_key_paths={"map": []},
                                                  outputs=[N("PsbtOut", amount=1, script_pub_key=H(b"\x51"))],
                                                  fallback_lock_time=0)})
    for v in (0, 2):   # PSBT_OUT_TAP_TREE with key data (06 aa): accepted, written back under the bare key 06
        R.check("rt.bytes", {"cls": "PsbtOut", "b": "0206aa0400c0015100", "ctx": {"psbt_version": v}})
    inserts = [("in", b"\x03", bytes(4)), ("global", b"\xfb", bytes(4)), ("in", b"\x04", b""), ("out", b"\x00", b""),
               ("in", b"\x08", b"\x00"), ("in+sigs", b"\x07", b"\x51")]
    done = {k: 0 for k in inserts}
    for b, c, valid in psbt_seeds:
        split = _psbt_split("Psbt", b)
        if not split or not valid:
            continue
        n_in = _n_inputs(sp, b, c)
        for ins in inserts:
            kind, k, v = ins
            if done[ins] >= ctx.n(6, 400):
                continue
            for i, recs in enumerate(split[1]):
                mk = _map_kind("Psbt", i, n_in)
                if mk != kind.split("+")[0] or any(r[0][:1] == k[:1] for r in recs):
                    continue
                if mk == "global" and any(r[0][:1] == b"\xfb" for r in recs):
                    continue
                if kind == "in+sigs" and (not any(r[0][:1] == b"\x02" for r in recs)
                                          or any(r[0][:1] in (b"\x07", b"\x08") for r in recs)):
                    continue
                maps = [list(m) for m in split[1]]
                maps[i].append((k, v, 0, 0))
                R.check("rt.bytes", _w_bytes("Psbt", _psbt_join(split[0], maps)))
                done[ins] += 1
                break
