"""C06 — text encodings and addresses round-trip and accept exactly what the specs accept (DESIGN §3 C06).

Streams: every op line is answered by the real btclib (in-process) and by the compiled Lean driver, which
prints the hand model's answer AND the answer of the literal BIP173/BIP350 transcription
(`Model/C06/Bech32Ref.lean`) after ` | ref`; the implementation side prints what the reference must say if
btclib agrees with the BIPs, so btclib / model / reference are compared three ways on every line.
Text travels as hex of latin-1 code points; value lists as comma separated integers.
"""
from __future__ import annotations

from btclib import b32, b58, base58, bech32
from btclib.exceptions import BTClibValueError
from btclib.network import NETWORKS
from btclib.script import script_pub_key as spkmod
from btclib.script.script_pub_key import ScriptPubKey

from . import common
from .common import hx, unhx

PROP = "C06"
EXE = "drv_c06"
GEN_MODULES = ["Bech32", "Base58", "Segwit", "Net"]
RULE = ("op lines come from one seeded PRNG: valid payloads of every witness version / program size / network / "
        "script type, and for a set of valid strings EVERY single-character substitution (whole alphabet plus "
        "separator, case variant and non-alphabet characters), adjacent transposition, case flip and truncation, and "
        "for segwit addresses two-character substitutions (every other version character x random second change, "
        "random pairs; constant read off the changed version); "
        "a case is non-trivial when the implementation did not refuse it; distinct = distinct (stream, op line)")
TRUSTED = [
    "hand models Model/C06/{Bech32,BitRegroup,Base58,Address,KeyText,Slip132,Bip21}.lean tied by correspondence only "
    "(Slip132's field choices are regenerated from slip132.py's AST)",
    "the x-coordinate predicate of BIP32KeyData.assert_valid is a parameter of the theorems; the driver instantiates "
    "it with Euler's criterion on secp256k1 (hand-written p and n), compared with btclib by the xkey.decv lines",
    "Model/C06/Bech32Ref.lean is a hand transcription of the BIP173/BIP350 reference python (the specification)",
    "SHA-256 in the driver is the shared Lean implementation (validated against hashlib by its own builder); "
    "hashes are parameters of every theorem",
    "text is modelled as code points < 256 (latin-1) with ASCII case mapping; p2pk/p2ms/nulldata classification "
    "is not modelled (answered `other`)",
    "BIP21: only the query layer on ASCII text is modelled (escapes of octets >= 0x80, the amount field and the "
    "address are left to the oracles bip21.roundtrip / bip21.repeat; the stream sends no `amount` name)",
]
ASSUMPTIONS = ["str.strip() of surrounding whitespace by b32/b58 address readers is API normalisation, applied "
               "before the reference decoder is consulted"]

M1 = bech32._BECH32_1_CONST
MM = bech32._BECH32_M_CONST
NETS = list(NETWORKS)
B32A = bech32._ALPHABET
B58A = base58._ALPHABET.decode("ascii")


def T(s: str) -> str:
    return hx(s.encode("latin-1"))


def unT(tok: str) -> str:
    return unhx(tok).decode("latin-1")


def vals(v) -> str:
    v = list(v)
    return ",".join(str(int(x)) for x in v) if v else "_"


def unvals(tok: str):
    return [] if tok == "_" else [int(x) for x in tok.split(",")]


def opt(tok: str):
    return None if tok == "None" else int(tok)


def _err(e: BaseException) -> str:
    c = common.err_class(e)
    return "err " + (c if not c.startswith("foreign") else "foreign")


# ------------------------------------------------------------------ implementation side
def _try(fn, *a):
    try:
        return fn(*a)
    except BTClibValueError:
        return None


_BIP21_ADDR = "bc1qw508d6qejxtdg4y5r3zarvary0c5xw7kv8f3t4"
_G_SEC = bytes.fromhex("0279be667ef9dcbbac55a06295ce870b07029bfcdb2dce28d959f2815b16f81798")


def _addr_kind(addr: str, net_type: str | None = None) -> str:
    """0 p2pkh / 1 p2wpkh / 2 p2sh(-wrapped) of an address string, by what it decodes to."""
    if b32.is_segwit_prefixed(addr):
        v, prog, _ = b32.witness_from_address(addr)
        return "1" if (v, len(prog)) == (0, 20) else "?"
    kind, _, _ = b58.h160_from_address(addr)
    return "0" if kind == "p2pkh" else "2"


def _root_key(version: bytes, prv: bool):
    from btclib.bip32 import BIP32KeyData
    key = (b"\x00" + (12345).to_bytes(32, "big")) if prv else _G_SEC
    return BIP32KeyData(version=version, depth=0, parent_fingerprint=bytes(4), index=0, chain_code=bytes(range(32)),
                        key=key)


def _slip132_kind(version: bytes) -> str:
    from btclib import slip132
    try:
        a = slip132.address_from_xpub(_root_key(version, False))
    except BTClibValueError:
        return "none"
    return _addr_kind(a)


def _slip132_version(version: bytes, k: int, prv: bool) -> bytes:
    """version of the child slip132's k-th builder gives a root key of this version; `prv` is the privacy of the
    KEY (the builders read key[0]); a key whose privacy contradicts its version is refused by BIP32KeyData."""
    from btclib import slip132
    from btclib.bip32 import BIP32KeyData
    fn = [slip132.p2pkh_xkey, slip132.p2wpkh_xkey, slip132.p2wpkh_p2sh_xkey][k]
    x = fn(_root_key(version, prv), "m/84h/0h/0h" if prv else "m/0/1")
    return BIP32KeyData.b58decode(x).version


def hrp_deviates(text: str) -> bool:
    """the ONE known deviation (known_findings key bech32.hrp-range): BIP173 allows HRP characters 33..126,
    btclib 48..122.  On such strings the reference verdict is not compared (the model still is)."""
    pos = text.rfind("1")
    return pos > 0 and any(33 <= ord(c) <= 126 and not 47 < ord(c) < 123 for c in text[:pos])


def impl(line: str) -> str:  # noqa: PLR0911, PLR0912
    t = line.split(" ")
    op = t[0]
    try:
        if op == "polymod":
            p = bech32._polymod(unvals(t[1]))
            return f"ok {p} {p}"
        if op == "bech32.enc":
            hrp, data, m = unT(t[1]), unvals(t[2]), opt(t[3])
            s = bech32.encode(hrp, data, m).decode("ascii")
            eff = m if m is not None else (M1 if data[0] == 0 else MM)
            return f"ok {T(s)} " + ("ref-agrees" if eff in (M1, MM) else "ref-na")
        if op == "bech32.dec":
            text, m = unT(t[1]), opt(t[2])
            try:
                hrp, data = bech32.decode(text, m)
                a = f"ok {T(hrp)} {vals(data)}"
            except Exception as e:  # noqa: BLE001
                a = _err(e)
            ref = "ref none"
            if hrp_deviates(text):
                ref = "ref hrp-range-known"
            elif len(text) <= 90:
                r1, rm = _try(bech32.decode, text, M1), _try(bech32.decode, text, MM)
                if r1 is not None:
                    ref = f"ref {T(r1[0])} {vals(r1[1])} bech32"
                elif rm is not None:
                    ref = f"ref {T(rm[0])} {vals(rm[1])} bech32m"
            return f"{a} | {ref}"
        if op == "regroup":
            try:
                r = b32.power_of_2_base_conversion(unvals(t[1]), int(t[2]), int(t[3]), t[4] == "True")
            except Exception as e:  # noqa: BLE001
                return _err(e) + " | ref none"
            return f"ok {vals(r)} | ref {vals(r)}"
        if op == "b58.rawenc":
            return "ok " + hx(base58._b58encode(unhx(t[1])))
        if op == "b58.rawdec":
            return "ok " + hx(base58._b58decode(unhx(t[1])))
        if op == "b58.enc":
            return "ok " + hx(base58.encode(unhx(t[1])))
        if op == "b58.dec":
            return "ok " + hx(base58.decode(unT(t[1]), opt(t[2])))
        if op == "segwit.enc":
            try:
                s = b32.address_from_witness(int(t[1]), unhx(t[2]), t[3])
            except Exception as e:  # noqa: BLE001
                return _err(e) + " | ref none"
            return f"ok {T(s)} | ref {T(s)}"
        if op == "segwit.dec":
            try:
                v, p, n = b32.witness_from_address(unT(t[1]))
            except Exception as e:  # noqa: BLE001
                return _err(e) + " | ref none"
            return f"ok {v} {hx(p)} {n} | ref ok {v} {hx(p)} {T(NETWORKS[n].hrp)}"
        if op == "segwit.prefixed":
            return "ok " + ("True" if b32.is_segwit_prefixed(unT(t[1])) else "False")
        if op == "h160.enc":
            return "ok " + T(b58.address_from_h160(t[1], unhx(t[2]), t[3]))
        if op == "h160.dec":
            k, h, n = b58.h160_from_address(unT(t[1]))
            return f"ok {k} {hx(h)} {n}"
        if op == "spk.type":
            k, p = spkmod.type_and_payload(unhx(t[1]))
            if k in ("p2pkh", "p2sh", "p2wpkh", "p2wsh", "p2tr", "witness_unknown"):
                return f"ok {k} {hx(p)}"
            return "ok other -"
        if op == "spk.addr":
            return "ok " + T(spkmod.address(unhx(t[1]), t[2]))
        if op == "slip132.kind":
            return "ok " + _slip132_kind(unhx(t[1]))
        if op == "slip132.version":
            return "ok " + hx(_slip132_version(unhx(t[1]), int(t[2]), t[3] == "True"))
        if op == "wif.enc":
            return "ok " + T(b58.wif_from_prv_key(int(t[2]), t[1], t[3] == "True"))
        if op == "wif.dec":
            from btclib.to_prv_key import prv_keyinfo_from_prv_key
            q, n, c = prv_keyinfo_from_prv_key(unT(t[1]))
            return f"ok {q} {n} {c}"
        if op == "xkey.dec":
            from btclib.bip32 import BIP32KeyData
            d = BIP32KeyData.b58decode(unT(t[1]), check_validity=False)
            return f"ok {hx(d.version)} {d.depth} {hx(d.parent_fingerprint)} {d.index} {hx(d.chain_code)} {hx(d.key)}"
        if op == "bip21.query":
            from btclib.bip21 import Bip21
            r = Bip21.parse("bitcoin:" + _BIP21_ADDR + "?" + unT(t[1]), check_validity=False)
            if r.amount is not None:
                return "out-of-model"
            items = ([("label", r.label)] if r.label is not None else []) + \
                ([("message", r.message)] if r.message is not None else []) + list(r.others.items())
            out = sorted(f"{T(k)}={T(v)}" for k, v in items)
            return "ok " + (";".join(out) if out else "_")
        if op == "bip21.quote":
            from urllib.parse import quote

            from btclib import bip21
            return "ok " + T(quote(unT(t[1]), safe=bip21._SAFE))
        if op == "xkey.decv":
            from btclib.bip32 import BIP32KeyData
            d = BIP32KeyData.b58decode(unT(t[1]))
            return f"ok {hx(d.version)} {d.depth} {hx(d.parent_fingerprint)} {d.index} {hx(d.chain_code)} {hx(d.key)}"
        if op == "xkey.enc":
            from btclib.bip32 import BIP32KeyData
            d = BIP32KeyData(version=unhx(t[1]), depth=int(t[2]), parent_fingerprint=unhx(t[3]), index=int(t[4]),
                             chain_code=unhx(t[5]), key=unhx(t[6]), check_validity=False)
            return "ok " + T(d.b58encode(check_validity=False))
        if op == "spk.from":
            s = ScriptPubKey.from_address(unT(t[1]))
            return f"ok {hx(s.script)} {s.network}"
    except Exception as e:  # noqa: BLE001
        return _err(e)
    return "bad-op"


# ------------------------------------------------------------------ property oracles (real code only)
def _refused(fn, *a):
    """(refused, value, note): refused only by the library's ValueError."""
    try:
        return False, fn(*a), ""
    except BTClibValueError as e:
        return True, None, str(e)[:60]


def _o_bech32_roundtrip(w):
    hrp, data, m = w["hrp"], w["data"], w["m"]
    try:
        s = bech32.encode(hrp, data, m).decode("ascii")
        back = bech32.decode(s, m)
        up = bech32.decode(s.upper(), m)
    except Exception as e:  # noqa: BLE001
        return False, f"{type(e).__name__}: {e}"
    ok = back == (hrp, data) and up == (hrp, data) and bech32.encode(*back, m).decode() == s
    return ok, f"{s} -> {back}"


def _o_bech32_corrupt(w):
    """a string differing from a valid one is refused, unless it only differs in case (then same value)."""
    good, bad, m = w["good"], w["bad"], w.get("m")
    want = bech32.decode(good, m)
    refused, got, _ = _refused(bech32.decode, bad, m)
    if refused:
        return True, "refused"
    if bad.lower() == good.lower():
        return got == want, f"case variant decoded to {got}"
    return False, f"corrupted string {bad!r} of {good!r} accepted as {got}"


def _o_segwit_corrupt(w):
    good, bad = w["good"], w["bad"]
    want = b32.witness_from_address(good)
    refused, got, _ = _refused(b32.witness_from_address, bad)
    if refused:
        return True, "refused"
    if bad.strip().lower() == good.lower():
        return got == want, f"variant decoded to {got}"
    return False, f"corrupted address {bad!r} of {good!r} accepted as {got}"


def _o_segwit_roundtrip(w):
    ver, prog, net = w["ver"], bytes.fromhex(w["prog"]), w["net"]
    try:
        a = b32.address_from_witness(ver, prog, net)
        v2, p2, n2 = b32.witness_from_address(a)
        a2 = b32.address_from_witness(v2, p2, n2)
    except Exception as e:  # noqa: BLE001
        return False, f"{type(e).__name__}: {e}"
    ok = (v2, p2) == (ver, prog) and NETWORKS[n2].hrp == NETWORKS[net].hrp and a2 == a and len(a) <= 90 \
        and NETWORKS[n2].network_type == NETWORKS[net].network_type
    return ok, f"{a} -> {v2} {p2.hex()} {n2}"


def _o_regroup_roundtrip(w):
    b = bytes.fromhex(w["b"])
    try:
        five = b32.power_of_2_base_conversion(b, 8, 5, True)
        back = b32.power_of_2_base_conversion(five, 5, 8, False)
    except Exception as e:  # noqa: BLE001
        return False, f"{type(e).__name__}: {e}"
    ok = bytes(back) == b and len(five) == (8 * len(b) + 4) // 5 and all(0 <= x < 32 for x in five)
    return ok, f"{b.hex()} -> {five} -> {bytes(back).hex()}"


def _o_regroup_canonical(w):
    """5->8 without padding accepts exactly canonical groupings: re-encoding gives the input back."""
    five = w["five"]
    refused, back, _ = _refused(b32.power_of_2_base_conversion, five, 5, 8, False)
    pad_bits = (5 * len(five)) % 8
    total = 0
    for x in five:
        total = total << 5 | x
    canonical = all(0 <= x < 32 for x in five) and pad_bits < 5 and total & ((1 << pad_bits) - 1) == 0
    if refused:
        return not canonical, "refused"
    ok = canonical and b32.power_of_2_base_conversion(back, 8, 5, True) == five
    return ok, f"{five} -> {back}"


def _o_b58_roundtrip(w):
    v = bytes.fromhex(w["v"])
    try:
        s = base58.encode(v)
        back = base58.decode(s)
        raw = base58._b58decode(base58._b58encode(v))
    except Exception as e:  # noqa: BLE001
        return len(v) > 77 and isinstance(e, BTClibValueError), f"{type(e).__name__}: {e}"
    nz = len(v) - len(v.lstrip(b"\0"))
    ok = back == v and raw == v and s.startswith(b"1" * nz) and not s[nz:nz + 1] == b"1"
    return ok, f"{v.hex()} -> {s!r}"


def _o_b58_canonical(w):
    s = w["s"]
    refused, v, _ = _refused(base58.decode, s)
    if refused:
        return True, "refused"
    return base58.encode(v).decode("ascii") == s, f"{s!r} accepted as {v.hex()}"


def _o_b58_corrupt(w):
    good, bad = w["good"], w["bad"]
    refused, v, _ = _refused(base58.decode, bad)
    if refused:
        return True, "refused"
    # a 32-bit hash checksum cannot refuse everything; what must hold is canonicity of what is accepted
    return base58.encode(v).decode("ascii") == bad and bad != good, f"{bad!r} accepted"


def _has_address_shape(spk: bytes) -> bool:
    """p2pkh / p2sh / any BIP141 witness program with a defined size (the types that have an address)."""
    if len(spk) == 25 and spk[:3] == b"\x76\xa9\x14" and spk[-2:] == b"\x88\xac":
        return True
    if len(spk) == 23 and spk[:2] == b"\xa9\x14" and spk[-1:] == b"\x87":
        return True
    if len(spk) >= 4 and (spk[0] == 0 or 0x51 <= spk[0] <= 0x60) and 2 <= spk[1] <= 40 and len(spk) == spk[1] + 2:
        return spk[0] != 0 or spk[1] in (20, 32)
    return False


def _o_spk_inverse(w):
    spk, net = bytes.fromhex(w["spk"]), w["net"]
    try:
        a = spkmod.address(spk, net)
        if a == "":
            return not _has_address_shape(spk), "no address"
        s = ScriptPubKey.from_address(a)
        a2 = spkmod.address(s.script, s.network)
    except Exception as e:  # noqa: BLE001
        return False, f"{type(e).__name__}: {e}"
    ok = s.script == spk and a2 == a and NETWORKS[s.network].network_type == NETWORKS[net].network_type
    return ok, f"{spk.hex()} {net} -> {a} -> {s.script.hex()} {s.network}"


def _o_addr_inverse(w):
    """from_address then address gives the same string (lower-cased for bech32)."""
    a = w["addr"]
    refused, s, _ = _refused(ScriptPubKey.from_address, a)
    if refused:
        return True, "refused"
    back = spkmod.address(s.script, s.network)
    canon = a.strip()
    canon = canon.lower() if b32.is_segwit_prefixed(a) else canon
    return back == canon, f"{a!r} -> {s.script.hex()} {s.network} -> {back!r}"


def _o_net_separation(w):
    """no prefix / hrp / xkey version of a main network equals one of a test network."""
    from btclib import network as N
    bad = []
    fields = [f for f, _ in N._KEY_SIZE if f != "genesis_block"] + ["hrp"]
    for f in fields:
        main = {getattr(n, f) for n in NETWORKS.values() if n.network_type == "main"}
        test = {getattr(n, f) for n in NETWORKS.values() if n.network_type == "test"}
        if main & test:
            bad.append(f)
        for n in NETWORKS.values():
            if N.network_type_from_key_value(f, getattr(n, f)) != n.network_type:
                bad.append(f + ":lookup")
    hrps = {n.hrp for n in NETWORKS.values()}
    for a in hrps:
        for b in hrps:
            if a != b and (b + "1").startswith(a + "1"):
                bad.append(f"hrp {a} prefix of {b}")
    return not bad, f"overlapping fields: {bad}"


def _o_wif(w):
    from btclib.to_prv_key import prv_keyinfo_from_prv_key
    q, net, compr = w["q"], w["net"], w["compr"]
    try:
        wif = b58.wif_from_prv_key(q, net, compr)
        q2, n2, c2 = prv_keyinfo_from_prv_key(wif)
        payload = base58.decode(wif)
    except Exception as e:  # noqa: BLE001
        return False, f"{type(e).__name__}: {e}"
    want = NETWORKS[net].wif + q.to_bytes(32, "big") + (b"\x01" if compr else b"")
    ok = (q2, c2) == (q, compr) and NETWORKS[n2].wif == NETWORKS[net].wif and payload == want \
        and NETWORKS[n2].network_type == NETWORKS[net].network_type
    return ok, f"{net} {compr} -> {wif[:6]}.. -> {n2} {c2}"


def _o_xkey(w):
    from btclib.bip32 import BIP32KeyData
    from btclib.network import network_type_from_xkeyversion
    ver, net = bytes.fromhex(w["ver"]), w["net"]
    key = bytes.fromhex(w["key"])
    try:
        d = BIP32KeyData(version=ver, depth=w["depth"], parent_fingerprint=bytes.fromhex(w["fp"]),
                         index=w["index"], chain_code=bytes.fromhex(w["cc"]), key=key)
        s = d.b58encode()
        d2 = BIP32KeyData.b58decode(s)
        payload = base58.decode(s, 78)
    except Exception as e:  # noqa: BLE001
        return False, f"{type(e).__name__}: {e}"
    ok = d2 == d and d2.b58encode() == s and payload[:4] == ver and payload[45:] == key \
        and network_type_from_xkeyversion(ver) == NETWORKS[net].network_type
    return ok, f"{s[:8]}.."


def _reads_back_on(addr: str, net: str):
    """(ok, note): the address decodes, and as a network sharing the prefix of `net` (same type)."""
    try:
        if b32.is_segwit_prefixed(addr):
            _, _, n2 = b32.witness_from_address(addr)
            same = NETWORKS[n2].hrp == NETWORKS[net].hrp
        else:
            kind, _, n2 = b58.h160_from_address(addr)
            same = getattr(NETWORKS[n2], kind) == getattr(NETWORKS[net], kind)
    except Exception as e:  # noqa: BLE001
        return False, f"{addr!r} does not read back: {type(e).__name__}: {e}"
    ok = same and NETWORKS[n2].network_type == NETWORKS[net].network_type
    return ok, f"{addr} reads back as {n2}"


def _build_spk(kind: str, net: str, qs):
    from btclib.curves import mult
    pts = [mult(q) for q in qs]
    h = bytes.fromhex("%040x" % (qs[0] % (1 << 160)))
    if kind == "p2pk":
        return ScriptPubKey.p2pk(pts[0], net)
    if kind == "p2ms":
        return ScriptPubKey.p2ms(max(1, len(pts) - 1), pts, net)
    if kind == "p2ms-uncompressed":
        return ScriptPubKey.p2ms(1, pts, net, compressed=False, lexicographic_sorting=False)
    if kind == "p2pkh":
        return ScriptPubKey.p2pkh(pts[0], network=net)
    if kind == "p2sh":
        return ScriptPubKey.p2sh(b"\x51", net)
    if kind == "p2wpkh":
        return ScriptPubKey(ScriptPubKey.p2wpkh(pts[0]).script, net)  # the builder takes no network
    if kind == "p2wsh":
        return ScriptPubKey.p2wsh(b"\x51", net)
    if kind == "p2tr":
        return ScriptPubKey.p2tr(pts[0], network=net)
    if kind == "nulldata":
        return ScriptPubKey(ScriptPubKey.nulldata(h).script, net)  # the builder takes no network
    if kind == "witness_unknown":
        return ScriptPubKey(bytes([0x50 + 2 + qs[0] % 15, 20]) + h, net)
    raise ValueError(kind)


SPK_KINDS = ["p2pk", "p2ms", "p2ms-uncompressed", "p2pkh", "p2sh", "p2wpkh", "p2wsh", "p2tr", "nulldata",
             "witness_unknown"]


def _o_spk_addresses_network(w):
    """every string in ScriptPubKey.addresses / .address reads back on a network sharing the prefix of the
    network the ScriptPubKey was built with (so a test-network script never renders mainnet addresses)."""
    kind, net, qs = w["kind"], w["net"], w["qs"]
    try:
        s = _build_spk(kind, net, qs)
        one, many = s.address, s.addresses
        plain = spkmod.addresses(s.script, net) if kind.startswith("p2ms") else None
    except Exception as e:  # noqa: BLE001
        return False, f"{kind} on {net}: {type(e).__name__}: {e}"
    if s.network != net:
        return False, f"{kind}: built for {net}, carries {s.network}"
    want_n = len(qs) if kind.startswith("p2ms") else 1
    if len(many) != want_n or (plain is not None and many != plain):
        return False, f"{kind} on {net}: addresses {many} (module-level function says {plain})"
    if kind in ("p2pk", "nulldata") or kind.startswith("p2ms"):
        if one != "":
            return False, f"{kind} has address {one!r}"
    elif one == "" or many != [one]:
        return False, f"{kind} on {net}: address {one!r}, addresses {many}"
    for a in [x for x in [one, *many] if x != ""]:
        ok, note = _reads_back_on(a, net)
        if not ok:
            return False, f"{kind} built on {net}: {note}"
    return True, f"{kind} {net} {many}"


def _o_prepared_point(w):
    """address builders answer the same string for a PreparedPoint as for the plain point."""
    from btclib.curves import mult
    from btclib.curves.curve import PreparedPoint
    from btclib.to_pub_key import pub_keyinfo_from_key
    net, compr = w["net"], w["compr"]
    pt = mult(w["q"])
    pp = PreparedPoint(pt)
    try:
        pairs = [
            ("pub_keyinfo_from_key", pub_keyinfo_from_key(pp, net, compr), pub_keyinfo_from_key(pt, net, compr)),
            ("b58.p2pkh", b58.p2pkh(pp, net, compr), b58.p2pkh(pt, net, compr)),
            ("b58.p2wpkh_p2sh", b58.p2wpkh_p2sh(pp, net), b58.p2wpkh_p2sh(pt, net)),
            ("b32.p2wpkh", b32.p2wpkh(pp, net), b32.p2wpkh(pt, net)),
            ("ScriptPubKey.p2pkh", ScriptPubKey.p2pkh(pp, compr, net), ScriptPubKey.p2pkh(pt, compr, net)),
        ]
    except Exception as e:  # noqa: BLE001
        return False, f"{type(e).__name__}: {e}"
    for name, a, b in pairs:
        if a != b:
            return False, f"{name}(PreparedPoint, {net}, {compr}) = {a!r} but plain point gives {b!r}"
    for name, a, _ in pairs[1:4]:
        ok, note = _reads_back_on(a, net)
        if not ok:
            return False, f"{name}: {note}"
    return True, f"{net} {compr}"


def _key_spellings(q: int, net: str):
    """every spelling of one key the address builders accept, declared for network `net`."""
    from btclib.bip32 import BIP32KeyData
    from btclib.curves import mult
    from btclib.curves.curve import PreparedPoint
    from btclib.to_pub_key import pub_keyinfo_from_key
    n = NETWORKS[net]
    pt = mult(q)
    sec = pub_keyinfo_from_key(pt, net, True)[0]
    out = [("point", pt), ("sec", sec), ("sec-hex", sec.hex()), ("sec-bytearray", bytearray(sec)),
           ("prepared", PreparedPoint(pt)), ("int", q), ("prv-octets", q.to_bytes(32, "big")),
           ("wif", b58.wif_from_prv_key(q, net, True))]
    for f in ("bip32_pub", "slip132_p2wpkh_pub", "slip132_p2wpkh_p2sh_pub", "slip132_p2wsh_pub"):
        d = BIP32KeyData(version=getattr(n, f), depth=0, parent_fingerprint=bytes(4), index=0,
                         chain_code=bytes(range(32)), key=sec)
        out += [(f, d.b58encode()), (f + "-data", d)]
    for f in ("bip32_prv", "slip132_p2wpkh_prv"):
        d = BIP32KeyData(version=getattr(n, f), depth=0, parent_fingerprint=bytes(4), index=0,
                         chain_code=bytes(range(32)), key=b"\x00" + q.to_bytes(32, "big"))
        out += [(f, d.b58encode()), (f + "-data", d)]
    return pt, out


def _o_key_spelling_network(w):
    """whatever way the key is spelled, an address built FOR network `net` carries `net`'s prefix / hrp, and is
    the address of the plain point."""
    from btclib.to_pub_key import pub_keyinfo_from_key
    net, q = w["net"], w["q"]
    pt, spellings = _key_spellings(q, net)
    builders = [
        ("b58.p2pkh", lambda k: b58.p2pkh(k, net)),
        ("b58.p2wpkh_p2sh", lambda k: b58.p2wpkh_p2sh(k, net)),
        ("b32.p2wpkh", lambda k: b32.p2wpkh(k, net)),
        ("ScriptPubKey.p2pkh", lambda k: ScriptPubKey.p2pkh(k, network=net).address),
        ("ScriptPubKey.p2pk.network", lambda k: b32.address_from_witness(0, bytes(20), ScriptPubKey.p2pk(k, net).network)),
        ("pub_keyinfo.network", lambda k: b32.address_from_witness(0, bytes(20), pub_keyinfo_from_key(k, net)[1])),
    ]
    for bname, f in builders:
        want = f(pt)
        ok, note = _reads_back_on(want, net)
        if not ok:
            return False, f"{bname}(point, {net}): {note}"
        if b32.is_segwit_prefixed(want) and not want.startswith(NETWORKS[net].hrp + "1"):
            return False, f"{bname}(point, {net}) = {want}"
        for sname, k in spellings:
            try:
                got = f(k)
            except Exception as e:  # noqa: BLE001
                return False, f"{bname}({sname}, {net}) raised {type(e).__name__}: {e}"
            if got != want:
                return False, f"{bname}({sname}, {net}) = {got}, the plain point gives {want}"
    return True, f"{net}: {len(spellings)} spellings x {len(builders)} builders"


def _o_slip132_address_type(w):
    """a key made by p2pkh_xkey / p2wpkh_xkey / p2wpkh_p2sh_xkey carries its network's version for THAT type and
    the parent's privacy, and the address derived from it is of that type, on that network."""
    from btclib import bip32, slip132
    from btclib.bip32 import BIP32KeyData
    from btclib.to_pub_key import pub_keyinfo_from_key
    net, prv, k, parent_field = w["net"], w["prv"], w["k"], w["parent"]
    n = NETWORKS[net]
    try:
        parent = _root_key(getattr(n, parent_field), prv)
        path = w["path"]
        fn = [slip132.p2pkh_xkey, slip132.p2wpkh_xkey, slip132.p2wpkh_p2sh_xkey][k]
        x = fn(parent, path)
        d = BIP32KeyData.b58decode(x)
        want_field = ["bip32", "slip132_p2wpkh", "slip132_p2wpkh_p2sh"][k] + ("_prv" if prv else "_pub")
        if d.version != getattr(n, want_field):
            return False, f"{fn.__name__}({parent_field} on {net}, {path}) has version {d.version.hex()}, not {want_field}"
        if d.is_private != prv:
            return False, f"{fn.__name__}: privacy changed"
        addr = slip132.address_from_xkey(x)
        child = bip32.derive(parent, path)
        sec = pub_keyinfo_from_key(child, compressed=True)[0]
        first = [m for m in NETWORKS if NETWORKS[m].bip32_pub == n.bip32_pub][0]
        want = [b58.p2pkh, b32.p2wpkh, b58.p2wpkh_p2sh][k](sec, first)
    except Exception as e:  # noqa: BLE001
        return False, f"{type(e).__name__}: {e}"
    if _addr_kind(addr) != str(k) or addr != want:
        return False, f"{fn.__name__}({parent_field} on {net}, {path}): address {addr} (type {_addr_kind(addr)}), wanted {want}"
    ok, note = _reads_back_on(addr, net if net == "mainnet" else first)
    return ok, note


def _pct_respell(text: str, mask: int) -> str:
    """another spelling of the same text: character i percent-encoded (upper / lower hex) when bit i of mask is set
    (always, when it is not one `quote` leaves alone)."""
    from urllib.parse import quote
    out = []
    for i, ch in enumerate(text):
        if (mask >> (2 * i)) & 1 or quote(ch, safe="/:@!$'()*+,;") != ch:  # delimiters and non-ASCII: always escaped
            enc = "".join(f"%{b:02X}" for b in ch.encode())
            out.append(enc.lower() if (mask >> (2 * i + 1)) & 1 else enc)
        else:
            out.append(ch)
    return "".join(out)


def _o_bip21_roundtrip(w):
    """parse(serialize(x)) = x; serialize(parse(uri)) = uri for what serialize writes; any percent-respelling of the
    names and values of that URI parses to the same request."""
    from decimal import Decimal

    from btclib.bip21 import Bip21
    amount = None if w["amount"] is None else Decimal(w["amount"])
    x = Bip21(w["addr"], amount, w["label"], w["message"], dict(w["others"]))
    uri = x.serialize()
    y = Bip21.parse(uri)
    same = (y.address, y.amount, y.label, y.message, dict(y.others)) == \
        (x.address, x.amount, x.label, x.message, dict(x.others))
    if not same or y.serialize() != uri:
        return False, f"{uri!r} parses to {y!r}"
    head, _, query = uri.partition("?")
    if query:
        parts = []
        for j, el in enumerate(query.split("&")):
            k, _, v = el.partition("=")
            from urllib.parse import unquote
            k2 = _pct_respell(unquote(k), w["mask"] >> (3 * j))
            v2 = v if unquote(k) == "amount" else _pct_respell(unquote(v), w["mask"] >> (5 * j + 1))
            parts.append(f"{k2}={v2}")
        uri2 = head + "?" + "&".join(parts)
        z = Bip21.parse(uri2)
        if (z.address, z.amount, z.label, z.message, dict(z.others)) != \
                (x.address, x.amount, x.label, x.message, dict(x.others)):
            return False, f"respelling {uri2!r} of {uri!r} parses to {z!r}"
    return True, uri


def _o_bip21_repeat(w):
    """BIP21: a repeated key is an error, whatever the two spellings of the name (raw / percent-encoded)."""
    from btclib.bip21 import Bip21
    name, v1, v2 = w["name"], w["v1"], w["v2"]
    s1, s2 = _pct_respell(name, w["m1"]), _pct_respell(name, w["m2"])
    others = "".join(f"&{k}={v}" for k, v in w["between"])
    uri = f"bitcoin:{w['addr']}?{s1}={v1}{others}&{s2}={v2}"
    refused, got, note = _refused(Bip21.parse, uri)
    if refused:
        return True, note
    return False, f"{uri!r}: parameter {name!r} given twice ({s1!r}, {s2!r}) accepted as {got!r}"


def _o_hrp_range(w):
    """decode(encode(x)) == x for a human-readable part BIP173 allows (33..126)."""
    hrp, data, m = w["hrp"], w["data"], w["m"]
    s = bech32.encode(hrp, data, m).decode("ascii")
    refused, got, why = _refused(bech32.decode, s, m)
    if refused:
        return False, f"bech32.decode refuses {s!r}, which bech32.encode wrote and BIP173 accepts: {why}"
    return got == (hrp, data), f"{s}"


ORACLES = {
    "bech32.roundtrip": _o_bech32_roundtrip, "bech32.corrupt": _o_bech32_corrupt,
    "segwit.corrupt": _o_segwit_corrupt, "segwit.roundtrip": _o_segwit_roundtrip,
    "regroup.roundtrip": _o_regroup_roundtrip, "regroup.canonical": _o_regroup_canonical,
    "b58.roundtrip": _o_b58_roundtrip, "b58.canonical": _o_b58_canonical, "b58.corrupt": _o_b58_corrupt,
    "spk.inverse": _o_spk_inverse, "addr.inverse": _o_addr_inverse, "net.separation": _o_net_separation,
    "key.spelling_network": _o_key_spelling_network, "slip132.address_type": _o_slip132_address_type,
    "spk.addresses_network": _o_spk_addresses_network, "key.prepared_point": _o_prepared_point,
    "wif.roundtrip": _o_wif, "xkey.roundtrip": _o_xkey, "bech32.hrp_range": _o_hrp_range,
    "bip21.roundtrip": _o_bip21_roundtrip, "bip21.repeat": _o_bip21_repeat,
}


# ------------------------------------------------------------------ generators
def rand_prog(rng, ver):
    if ver == 0:
        n = rng.choice([20, 32])
    elif rng.random() < 0.4:
        n = rng.choice([2, 3, 20, 32, 33, 39, 40])
    else:
        n = rng.randrange(2, 41)
    b = bytearray(common.rand_bytes(rng, n))
    if b and rng.random() < 0.2:
        b[-1] = rng.choice([0xAE, 0xAC, 0x87, 0x00])
    if len(b) > 1 and rng.random() < 0.2:
        b[-2] = rng.choice([0x51, 0x52, 0x60])
    return bytes(b)


def mutations(s, alphabet, extra, rng=None, sub_positions=None):
    """every single-character substitution (alphabet + extra), adjacent transposition, case flip, truncation,
    one-character insertion/deletion at a few places."""
    out = []
    chars = list(dict.fromkeys(alphabet + extra))
    pos = range(len(s)) if sub_positions is None else sub_positions
    for i in pos:
        for c in chars:
            if c != s[i]:
                out.append(("sub", s[:i] + c + s[i + 1:]))
        sw = s[i].swapcase()
        if sw != s[i]:
            out.append(("case", s[:i] + sw + s[i + 1:]))
    for i in range(len(s) - 1):
        if s[i] != s[i + 1]:
            out.append(("swap", s[:i] + s[i + 1] + s[i] + s[i + 2:]))
    for i in range(len(s)):
        out.append(("trunc", s[:i]))
        out.append(("del", s[:i] + s[i + 1:]))
    for i in range(1, min(len(s), 8)):
        out.append(("trunc-front", s[i:]))
    out.append(("upper", s.upper()))
    out.append(("lower", s.lower()))
    out.append(("space", " " + s + "\n"))
    out.append(("space", s[:3] + " " + s[3:]))
    out.append(("nbsp", "\xa0" + s + "\x85"))
    out.append(("dup", s + s[-1]))
    return out


def p2ms_shaped(spk: bytes) -> bool:
    """what `p2ms_m_and_keys` starts parsing as m-of-n (it runs BEFORE the witness classification)."""
    return len(spk) >= 37 and spk[-1] == 0xAE and 0 < spk[0] - 80 < 17 and spk[0] <= spk[-2] < 97


KEY_P2MS = "spk.p2ms-runtime-on-witness"


def spk_of(ver, prog):
    return bytes([0 if ver == 0 else 0x50 + ver, len(prog)]) + prog


# ------------------------------------------------------------------ run
def run(ctx):  # noqa: PLR0912, PLR0915
    rng = ctx.rng
    thorough = ctx.tier == "thorough"

    # ---- fixed, deterministic checks ------------------------------------------------------------------
    ctx.check("net.separation", {})
    ctx.check("bech32.hrp_range", {"hrp": "a-b", "data": [1, 2, 3], "m": M1}, key="bech32.hrp-range")
    # OP_15 <40-byte program ending OP_16 OP_CHECKMULTISIG>: a BIP141 witness program with a bech32m address
    ctx.check("spk.inverse", {"spk": (b"\x5f\x28" + bytes(38) + b"\x60\xae").hex(), "net": "mainnet"}, key=KEY_P2MS)

    # ---- polymod: table version vs model vs five-generator reference ----------------------------------
    lines = []
    for _ in range(ctx.n(1500)):
        k = rng.choice([0, 1, 2, 6, 7, 8, 20, 50, 90])
        top = rng.choice([32, 32, 32, 8, 256, 1 << 20, 1 << 30])
        lines.append("polymod " + vals(rng.randrange(top) for _ in range(k)))
    for top in range(32):  # every tap: drive chk >> 25 through all 32 values
        lines.append("polymod " + vals([top, 0, 0, 0, 0, 0, 0, 0]))
    ctx.stream("bech32.polymod", lines)

    # ---- bech32 codec: encode / decode with options ---------------------------------------------------
    hrps = ["bc", "tb", "bcrt", "a", "split", "1", "11", "x1y", "ln", "0z9", "abcdefghijklmnopqrstuvwxyz", "BC", "Tb",
            "", "a b", "\xe9", "{", "/", "a-b"]
    enc_lines, dec_lines = [], []
    for _ in range(ctx.n(1200)):
        hrp = rng.choice(hrps) if rng.random() < 0.7 else "".join(rng.choice("abc123xyz0") for _ in range(rng.randrange(1, 12)))
        n = rng.choice([0, 1, 2, 8, 33, 53, 84, 100])
        data = [rng.randrange(32) for _ in range(n)]
        if data and rng.random() < 0.3:
            data[0] = 0
        r = rng.random()
        if r < 0.08 and data:
            data[rng.randrange(len(data))] = rng.choice([-1, 32, 33, -32, 255, 1 << 40])
        m = rng.choice([None, None, M1, MM, 0, 7, 0x3FFFFFFF])
        line = f"bech32.enc {T(hrp)} {vals(data)} {m}"
        enc_lines.append(line)
        out = impl(line)
        if out.startswith("ok"):
            s = unT(out.split(" ")[1])
            good_hrp = hrp != "" and all(47 < ord(c) < 123 for c in hrp) and hrp == hrp.lower() and (m is not None or data)
            if good_hrp and all(0 <= d < 32 for d in data):
                ctx.check("bech32.roundtrip", {"hrp": hrp, "data": data, "m": m})
            for mm in {m, None, M1, MM}:
                dec_lines.append(f"bech32.dec {T(s)} {mm}")
            dec_lines.append(f"bech32.dec {T(s.upper())} {m}")
            if len(s) > 8:
                k = rng.randrange(len(s))
                dec_lines.append(f"bech32.dec {T(s[:k] + rng.choice(B32A + '1bio!') + s[k + 1:])} {m}")
    ctx.stream("bech32.enc", enc_lines)
    for junk in ["", "1", "a1", "1qqqqqq", "a1qqqqqq", "11qqqqqq", "a", "abc", "\x801qqqqqq", "A1Qqqqqqq", "a1bqqqqq",
                 "A12UEL5L", "a12uel5l", "?1ezyfcl", "11llllll", "A1LQFN3A", "a1lqfn3a", "an83characterlonghumanreadablepartthatcontainsthetheexcludedcharactersbioandnumber11sg7hg6",
                 "abcdef1l7aum6echk45nj3s0wdvt2fg8x9yrzpqzd3ryx", "split1checkupstagehandshakeupstreamerranterredcaperredlc445v", "?1v759aa",
                 "x1b4n0q5v", "li1dgmt3", "de1lg7wt\xff", "10a06t8", "1qzzfhee", "\x201nwldj5", "\x7f1axkwrx"]:
        for mm in (None, M1, MM):
            dec_lines.append(f"bech32.dec {T(junk)} {mm}")
    ctx.stream("bech32.dec", dec_lines)

    # ---- 5/8-bit regrouping ---------------------------------------------------------------------------
    lines = []
    for n in list(range(0, 70 if not thorough else 300)) + [rng.randrange(70, 400) for _ in range(ctx.n(30))]:
        b = common.rand_bytes(rng, n)
        ctx.check("regroup.roundtrip", {"b": b.hex()})
        lines.append(f"regroup {vals(b)} 8 5 True")
        five = b32.power_of_2_base_conversion(b, 8, 5, True)
        lines.append(f"regroup {vals(five)} 5 8 False")
        lines.append(f"regroup {vals(five)} 5 8 True")
    for _ in range(ctx.n(1500)):
        n = rng.randrange(0, 70)
        five = [rng.randrange(32) for _ in range(n)]
        if five and rng.random() < 0.6:  # make the padding mostly right
            pad = (5 * n) % 8
            if pad < 5:
                five[-1] &= ~((1 << pad) - 1) & 31
        if five and rng.random() < 0.05:
            five[rng.randrange(n)] = rng.choice([32, -1, 255])
        ctx.check("regroup.canonical", {"five": five}, nontrivial=(5 * n) % 8 < 5)
        lines.append(f"regroup {vals(five)} 5 8 False")
    for _ in range(ctx.n(600)):
        f, t = rng.randrange(1, 13), rng.randrange(1, 13)
        n = rng.randrange(0, 12)
        v = [rng.randrange(1 << f) if rng.random() < 0.97 else rng.choice([1 << f, -1, (1 << f) + 5]) for _ in range(n)]
        lines.append(f"regroup {vals(v)} {f} {t} {rng.random() < 0.5}")
    ctx.stream("regroup", lines)

    # ---- base58 ---------------------------------------------------------------------------------------
    enc, dec, good58 = [], [], []
    for _ in range(ctx.n(500)):
        nz = rng.choice([0, 0, 0, 1, 2, 5])
        n = rng.choice([0, 1, 2, 4, 5, 7, 8, 20, 21, 33, 34, 74, 78, 82]) if rng.random() < 0.6 else rng.randrange(0, 90)
        body = common.rand_bytes(rng, max(0, n - nz))
        if body and rng.random() < 0.2:
            body = bytes([rng.choice([1, 57, 58, 255])]) + body[1:]
        v = bytes(nz) + body
        ctx.check("b58.roundtrip", {"v": v.hex()}, nontrivial=len(v) <= 77)
        enc.append(f"b58.rawenc {hx(v)}")
        enc.append(f"b58.enc {hx(v)}")
        s = base58.encode(v).decode("ascii")
        good58.append(s)
        dec.append(f"b58.dec {T(s)} {rng.choice(['None', 'None', len(v), len(v) + 1, 0])}")
        dec.append(f"b58.rawdec {T(base58._b58encode(v).decode())}")
    # integers around the chunk boundary 58**10 and its powers
    for e in range(0, 40):
        for d in (-1, 0, 1):
            i = 58 ** e + d
            if i > 0:
                v = i.to_bytes((i.bit_length() + 7) // 8, "big")
                enc.append(f"b58.rawenc {hx(v)}")
                dec.append(f"b58.rawdec {T(base58._b58encode(v).decode())}")
                ctx.check("b58.roundtrip", {"v": v.hex()})
    for _ in range(ctx.n(600)):
        n = rng.choice([0, 1, 5, 6, 9, 10, 11, 19, 20, 21, 30, 111, 112, 113, 130])
        s = "".join(rng.choice(B58A) for _ in range(n))
        if rng.random() < 0.3:
            s = "1" * rng.randrange(1, 4) + s
        if s and rng.random() < 0.1:
            k = rng.randrange(len(s))
            s = s[:k] + rng.choice("0OIl +/\xe9") + s[k + 1:]
        dec.append(f"b58.rawdec {T(s)}")
        dec.append(f"b58.dec {T(s)} None")
        ctx.check("b58.canonical", {"s": s})
    ctx.stream("b58.enc", enc)
    ctx.stream("b58.dec", dec)

    # ---- segwit addresses: every version, every size, every network -----------------------------------
    enc, good32 = [], []
    for ver in range(0, 17):
        for n in (range(0, 43) if thorough or ver < 3 else [1, 2, 3, 20, 32, 33, 40, 41]):
            for net in (NETS if (thorough or n in (20, 32)) else [rng.choice(NETS)]):
                p = common.rand_bytes(rng, n)
                enc.append(f"segwit.enc {ver} {hx(p)} {net}")
                if (ver == 0 and n in (20, 32)) or (ver > 0 and 2 <= n <= 40):
                    ctx.check("segwit.roundtrip", {"ver": ver, "prog": p.hex(), "net": net})
                    good32.append(b32.address_from_witness(ver, p, net))
    for ver in (-1, 17, 18, 31, 32, 255):
        enc.append(f"segwit.enc {ver} {hx(bytes(32))} mainnet")
    enc.append(f"segwit.enc 1 {hx(bytes(32))} nonet")
    ctx.stream("segwit.enc", enc)
    dec = [f"segwit.dec {T(a)}" for a in good32]
    dec += [f"segwit.prefixed {T(a)}" for a in good32[:50]]
    # addresses the codec accepts but the address rules must refuse: wrong constant for the version, bad sizes,
    # versions 17..31, unknown hrp, non-zero / excessive padding, > 90 characters
    for _ in range(ctx.n(800)):
        ver = rng.choice([0, 0, 1, 1, 2, 16, 17, 31, rng.randrange(32)])
        n = rng.choice([0, 1, 2, 19, 20, 21, 31, 32, 33, 40, 41, 50])
        hrp = rng.choice(["bc", "tb", "bcrt", "bc", "tb", "ltc", "b", "bcr", "tbx", "BC"])
        data = [ver, *b32.power_of_2_base_conversion(common.rand_bytes(rng, n), 8, 5, True)]
        r = rng.random()
        if r < 0.15 and len(data) > 1:
            data[-1] |= rng.choice([1, 2, 4, 8, 16])
        elif r < 0.25:
            data.append(0)
        elif r < 0.3:
            data += [0, 0]
        m = rng.choice([None, None, None, M1, MM])
        try:
            s = bech32.encode(hrp, data, m).decode("ascii")
        except BTClibValueError:
            continue
        if rng.random() < 0.1:
            s = s.upper()
        dec.append(f"segwit.dec {T(s)}")
        dec.append(f"spk.from {T(s)}")
    ctx.stream("segwit.dec", dec)

    # ---- script_pub_key <-> address -------------------------------------------------------------------
    lines, good_addr = [], []
    for _ in range(ctx.n(700)):
        net = rng.choice(NETS)
        r = rng.random()
        h = common.rand_bytes(rng, 20)
        addressless = False
        if r < 0.15:
            spk = b"\x76\xa9\x14" + h + b"\x88\xac"
        elif r < 0.3:
            spk = b"\xa9\x14" + h + b"\x87"
        elif r < 0.75:
            ver = rng.randrange(17)
            spk = spk_of(ver, rand_prog(rng, ver))
        else:
            addressless = True
            base = rng.choice([b"\x76\xa9\x14" + h + b"\x88\xac", b"\xa9\x14" + h + b"\x87", spk_of(0, h),
                               spk_of(1, bytes(32)), spk_of(3, h[:5]), b"\x6a\x02hi", b"", b"\x00", b"\x51"])
            b = bytearray(base)
            k = rng.random()
            if b and k < 0.4:
                b[rng.randrange(len(b))] ^= 1 << rng.randrange(8)
            elif k < 0.6:
                b = b[:-1]
            elif k < 0.8:
                b += bytes([rng.randrange(256)])
            spk = bytes(b)
        if p2ms_shaped(spk):
            # the shape on which is_p2ms once let a BTClibRuntimeError out (fixed in /repo 207d3016): keep watching
            ctx.check("spk.inverse", {"spk": spk.hex(), "net": net, "addressless": addressless}, key=KEY_P2MS)
        lines.append(f"spk.type {hx(spk)}")
        lines.append(f"spk.addr {hx(spk)} {net}")
        out = impl(f"spk.addr {hx(spk)} {net}")
        a = unT(out.split(" ")[1]) if out.startswith("ok") else None
        if a:
            good_addr.append(a)
            lines.append(f"spk.from {T(a)}")
            lines.append(f"h160.dec {T(a)}")
        ctx.check("spk.inverse", {"spk": spk.hex(), "net": net, "addressless": addressless}, nontrivial=bool(a))
    for v0 in (0, 20, 34):  # v0 programs of undefined size are not witness_unknown
        lines.append(f"spk.addr {hx(spk_of(0, bytes(v0)))} mainnet")
    for kind in ("p2pkh", "p2sh", "p2wpkh", "p2tr", "none"):
        for n in (19, 20, 21):
            for net in NETS + ["nonet", " Mainnet "]:
                lines.append(f"h160.enc {kind} {hx(common.rand_bytes(rng, n))} {net.replace(' ', '')}")
    # every one-byte version prefix: which (type, network) reads back
    for pre in range(256):
        s = base58.encode(bytes([pre]) + common.rand_bytes(rng, 20)).decode()
        lines.append(f"h160.dec {T(s)}")
        lines.append(f"spk.from {T(s)}")
    for n in (0, 19, 21, 22):
        lines.append(f"h160.dec {T(base58.encode(bytes([0]) + bytes(n)).decode())}")
    ctx.stream("spk", lines)
    for a in good_addr[: ctx.n(150)]:
        ctx.check("addr.inverse", {"addr": a})
        ctx.check("addr.inverse", {"addr": " " + a.upper() + " "}, nontrivial=False)

    # ---- every corruption of a set of valid strings ---------------------------------------------------
    extra32 = list("1bioBQ !~\xe9")
    by_kind = {}
    for a in good32:
        by_kind.setdefault((a.split("1")[0], len(a)), a)
    pool = list(by_kind.values())
    rng.shuffle(pool)
    want = ctx.n(14, 120)
    base32 = pool[:want]
    lines = []
    hist = {}
    for a in base32:
        for kind, bad in mutations(a, list(B32A), extra32):
            lines.append(f"segwit.dec {T(bad)}")
            hist[kind] = hist.get(kind, 0) + 1
            ctx.check("segwit.corrupt", {"good": a, "bad": bad}, nontrivial=False)
    for k, v in hist.items():
        ctx.count("segwit.mutations", k, v)
    ctx.stream("segwit.mutations", lines)

    # two substitutions, constant read off the (possibly changed) version character: every other version
    # character x a random second position/character, plus random pairs anywhere after the separator
    # (theorems two_substitutions_refused_version_constant / two_substitutions_switch_detected)
    lines = []
    hist = {"ver+other": 0, "pair": 0, "ver-switch": 0}
    for a in base32:
        sep = a.rfind("1")
        vpos = sep + 1
        others = list(range(vpos + 1, len(a)))
        for c in B32A:
            if c == a[vpos]:
                continue
            for _ in range(ctx.n(3, 8)):
                j = rng.choice(others)
                d = rng.choice([x for x in B32A if x != a[j]])
                bad = a[:vpos] + c + a[vpos + 1:j] + d + a[j + 1:]
                lines.append(f"segwit.dec {T(bad)}")
                hist["ver+other"] += 1
                hist["ver-switch"] += (a[vpos] == "q") != (c == "q")
                ctx.check("segwit.corrupt", {"good": a, "bad": bad}, nontrivial=False)
        for _ in range(ctx.n(40, 200)):
            i, j = sorted(rng.sample(range(vpos, len(a)), 2))
            c = rng.choice([x for x in B32A if x != a[i]])
            d = rng.choice([x for x in B32A if x != a[j]])
            bad = a[:i] + c + a[i + 1:j] + d + a[j + 1:]
            lines.append(f"segwit.dec {T(bad)}")
            lines.append(f"bech32.dec {T(bad)} None")
            hist["pair"] += 1
            ctx.check("bech32.corrupt", {"good": a, "bad": bad, "m": None}, nontrivial=False)
    for k, v in hist.items():
        ctx.count("segwit.two_subs", k, v)
    ctx.stream("segwit.two_subs", lines)

    lines = []
    for _ in range(ctx.n(8, 60)):  # generic bech32 strings (not addresses), both constants
        hrp = rng.choice(["a", "ln", "x1y", "split", "npub"])
        data = [rng.randrange(32) for _ in range(rng.choice([0, 1, 5, 20, 40]))]
        m = rng.choice([M1, MM])
        s = bech32.encode(hrp, data, m).decode()
        for kind, bad in mutations(s, list(B32A), extra32):
            lines.append(f"bech32.dec {T(bad)} {m}")
            ctx.check("bech32.corrupt", {"good": s, "bad": bad, "m": m}, nontrivial=False)
    ctx.stream("bech32.mutations", lines)

    lines = []
    b58base = [a for a in good_addr if not b32.is_segwit_prefixed(a)]
    rng.shuffle(b58base)
    b58base = b58base[: ctx.n(8, 60)] + [s for s in good58 if 5 < len(s) < 60][: ctx.n(4, 30)]
    for a in b58base:
        for kind, bad in mutations(a, list(B58A), list("0OIl +\xe9")):
            lines.append(f"b58.dec {T(bad)} None")
            lines.append(f"spk.from {T(bad)}") if kind in ("case", "swap", "trunc", "space", "nbsp") else None
            ctx.check("b58.corrupt", {"good": a, "bad": bad}, nontrivial=False)
    ctx.stream("b58.mutations", lines)

    # ---- ScriptPubKey.address(es) stay on their network; PreparedPoint keys (real code only) -----------------
    n_ord = 0xFFFFFFFFFFFFFFFFFFFFFFFFFFFFFFFEBAAEDCE6AF48A03BBFD25E8CD0364141
    for net in NETS:
        for kind in SPK_KINDS:
            for _ in range(ctx.n(1, 4)):
                nk = rng.choice([1, 2, 3]) if kind.startswith("p2ms") else 1
                ctx.check("spk.addresses_network", {"kind": kind, "net": net,
                                                    "qs": [rng.randrange(1, n_ord) for _ in range(nk)]})
        for compr in (True, False, None):
            ctx.check("key.prepared_point", {"net": net, "compr": compr, "q": rng.randrange(1, n_ord)})

    # ---- every key spelling x every network NAME; SLIP132 version <-> address type -----------------------------
    for net in NETS:
        for _ in range(ctx.n(1, 4)):
            ctx.check("key.spelling_network", {"net": net, "q": rng.randrange(1, n_ord)})
        for prv in (True, False):
            for k in (0, 1, 2):
                for parent in ("bip32", "slip132_p2wpkh", "slip132_p2wpkh_p2sh"):
                    path = rng.choice(["m/84h/0h/0h", "m/0h", "m/1h/2"]) if prv and rng.random() < 0.7 else \
                        rng.choice(["m/0/1", "m/7", "m"])
                    ctx.check("slip132.address_type", {"net": net, "prv": prv, "k": k, "path": path,
                                                       "parent": parent + ("_prv" if prv else "_pub")})
    from btclib import network as N
    lines = []
    allv = sorted({bytes(getattr(n, f)) for n in NETWORKS.values() for f, sz in N._KEY_SIZE if sz == 4})
    for v in allv + [bytes(4), b"\x04\x88\xb2\x1f"]:
        lines.append(f"slip132.kind {hx(v)}")
    for v in allv:
        for k in (0, 1, 2):
            lines.append(f"slip132.version {hx(v)} {k} {v in N.XPRV_VERSIONS_ALL}")
    ctx.stream("slip132", lines)
    ctx.exhaustive_streams.append("slip132")

    # ---- BIP21 URIs: escaping / repeated-parameter rule (model stream) and round trips (real code) ----------------
    names = ["label", "message", "foo", "req-x", "x", "a b", "k&v", "Label", "%", "é", "amount"]
    texts = ["", "1", "a b", "Alice+Bob", "50% off", "a&b=c#d?e", "/:@!$'()*+,;", "~_.-", "é€", "x" * 40, "%41"]
    addrs = [_BIP21_ADDR, "1BvBMSEYstWetqTFn5Au4m4GFg7xJaNVN2", "tb1qw508d6qejxtdg4y5r3zarvary0c5xw7kxpjzsx",
             _BIP21_ADDR.upper()]
    for _ in range(ctx.n(150, 1500)):
        pool = [n for n in names if n != "amount" and not n.lower().startswith("req-")]
        rng.shuffle(pool)
        others = {k: rng.choice(texts) for k in pool[: rng.randrange(0, 4)] if k not in ("label", "message")}
        ctx.check("bip21.roundtrip", {
            "addr": rng.choice(addrs), "amount": rng.choice([None, "0", "0.001", "20", "1.10000000", "20999999.9"]),
            "label": rng.choice([None] + texts), "message": rng.choice([None] + texts), "others": sorted(others.items()),
            "mask": rng.getrandbits(64)})
    for _ in range(ctx.n(150, 1500)):
        name = rng.choice(names)
        rvals = ["0.001", "20"] if name == "amount" else ["a", "b%20c", "1"]
        ctx.check("bip21.repeat", {
            "addr": rng.choice(addrs), "name": name, "v1": rng.choice(rvals), "v2": rng.choice(rvals),
            "m1": rng.choice([0, rng.getrandbits(2 * len(name)), rng.getrandbits(2 * len(name))]),
            "m2": rng.choice([0, rng.getrandbits(2 * len(name)), rng.getrandbits(2 * len(name))]),
            "between": [(rng.choice(["z", "y1", "%7A%7a"]), rng.choice(["", "1"]))][: rng.randrange(0, 2)]})
    lines = []
    ascii_names = ["label", "message", "foo", "req-x", "x", "a b", "k&v", "Label", "%", "", "="]
    ascii_texts = [t for t in texts if t.isascii()]
    for _ in range(ctx.n(400, 4000)):
        els = []
        for _ in range(rng.randrange(0, 5)):
            nm = rng.choice(ascii_names)
            el = _pct_respell(nm, rng.choice([0, 0, rng.getrandbits(2 * len(nm) + 2)]))
            if rng.random() < 0.9:
                v = rng.choice(ascii_texts)
                el += "=" + (v if rng.random() < 0.3 else _pct_respell(v, rng.getrandbits(2 * len(v) + 2)))
            els.append(rng.choice([el, el, el, "", el + "%", el + "%4", el + "%zz", "%2" + el]) if rng.random() < 0.25
                       else el)
        q = "&".join(els) + rng.choice(["", "", "", "#frag", "#a&b=c", "&"])
        if "amount" not in q.lower() and "%61" not in q.lower():
            lines.append(f"bip21.query {T(q)}")
    for tx in ascii_texts + ascii_names:
        lines.append(f"bip21.quote {T(tx)}")
    for _ in range(ctx.n(60, 600)):
        lines.append(f"bip21.quote {T(''.join(chr(rng.randrange(0, 128)) for _ in range(rng.randrange(0, 12))))}")
    ctx.stream("bip21", lines)

    # ---- WIF and extended keys (real code only) -------------------------------------------------------
    n_order = 0xFFFFFFFFFFFFFFFFFFFFFFFFFFFFFFFEBAAEDCE6AF48A03BBFD25E8CD0364141
    for _ in range(ctx.n(60)):
        q = rng.choice([1, 2, n_order - 1, rng.randrange(1, n_order), rng.randrange(1, 1 << 200)])
        ctx.check("wif.roundtrip", {"q": q, "net": rng.choice(NETS), "compr": rng.random() < 0.5})
    # model streams: WIF and xkey text (payload layouts through the Base58Check envelope)
    lines, wifs = [], []
    for _ in range(ctx.n(120)):
        q = rng.choice([1, n_order - 1, rng.randrange(1, n_order), rng.randrange(1, 1 << 100)])
        net, compr = rng.choice(NETS), rng.random() < 0.5
        lines.append(f"wif.enc {net} {q} {compr}")
        wifs.append(b58.wif_from_prv_key(q, net, compr))
    for w in wifs:
        lines.append(f"wif.dec {T(w)}")
    for _ in range(ctx.n(150)):  # payloads of the wrong size, wrong flag, unknown prefix, key out of range
        pre = rng.choice([b"\x80", b"\xef", b"\x80", b"\x00", b"\x81"])
        key = rng.choice([rng.randrange(1, n_order), 0, n_order, n_order + 1, 1]).to_bytes(32, "big")
        tail = rng.choice([b"", b"\x01", b"\x01", b"\x00", b"\x02", b"\x01\x01"])
        body = rng.choice([key, key, key, key[1:], key + b"\x00"])
        lines.append(f"wif.dec {T(base58.encode(pre + body + tail).decode())}")
    for w in wifs[: ctx.n(3, 20)]:
        for kind, bad in mutations(w, list(B58A), list("0 "), sub_positions=range(0, len(w), 7)):
            lines.append(f"wif.dec {T(bad)}")
    ctx.stream("wif", lines)
    lines = []
    for _ in range(ctx.n(100)):
        ver = rng.choice([bytes.fromhex("0488ade4"), bytes.fromhex("0488b21e"), bytes.fromhex("043587cf"),
                          common.rand_bytes(rng, 4)])
        depth = rng.choice([0, 1, 255])
        key = rng.choice([b"\x00" + common.rand_bytes(rng, 32), b"\x02" + common.rand_bytes(rng, 32)])
        line = (f"xkey.enc {hx(ver)} {depth} {hx(common.rand_bytes(rng, 4))} {rng.getrandbits(32)} "
                f"{hx(common.rand_bytes(rng, 32))} {hx(key)}")
        lines.append(line)
        out = impl(line)
        if out.startswith("ok"):
            xs = unT(out.split(" ")[1])
            lines.append(f"xkey.dec {T(xs)}")
            k = rng.randrange(len(xs))
            lines.append(f"xkey.dec {T(xs[:k] + rng.choice(B58A) + xs[k + 1:])}")
            lines.append(f"xkey.dec {T(' ' + xs + ' ')}")
    for n in (0, 4, 77, 79, 82):  # well-checksummed payloads of the wrong size
        lines.append(f"xkey.dec {T(base58.encode(common.rand_bytes(rng, n)).decode())}")
        lines.append(f"xkey.decv {T(base58.encode(common.rand_bytes(rng, n)).decode())}")
    # validity-checked reading (assert_valid): every version of every network + unknown ones x depth 0 / non-0 with
    # zero / non-zero fingerprint and index x key prefixes 00 / 01 / 02 / 03 / 04 x scalars 0, 1, n-1, n, random and
    # x-coordinates on / off the curve; records are serialized by hand (the encoder would refuse the invalid ones)
    from btclib import network as N_
    g_x = bytes.fromhex("79be667ef9dcbbac55a06295ce870b07029bfcdb2dce28d959f2815b16f81798")
    versions = sorted({bytes(getattr(n, f)) for n in NETWORKS.values() for f, sz in N_._KEY_SIZE if sz == 4})
    bodies = [g_x, common.rand_bytes(rng, 32), (5).to_bytes(32, "big"), bytes(32), (1).to_bytes(32, "big"),
              (n_order - 1).to_bytes(32, "big"), n_order.to_bytes(32, "big"),
              (2**256 - 2**32 - 977).to_bytes(32, "big"), (2**256 - 1).to_bytes(32, "big")]
    for _ in range(ctx.n(260, 2000)):
        # a valid record first (version-consistent prefix, root-consistent fingerprint / index, key in range) ...
        ver = rng.choice(versions)
        prv = ver in N_.XPRV_VERSIONS_ALL
        depth = rng.choice([0, 1, 2, 255])
        fp = bytes(4) if depth == 0 else common.rand_bytes(rng, 4)
        index = 0 if depth == 0 else rng.choice([0, 1, rng.getrandbits(32), 0x80000000])
        pre = b"\x00" if prv else rng.choice([b"\x02", b"\x03"])
        body = rng.choice([(1).to_bytes(32, "big"), (n_order - 1).to_bytes(32, "big"),
                           rng.randrange(1, n_order).to_bytes(32, "big")]) if prv else \
            rng.choice([g_x, g_x, (1).to_bytes(32, "big"), common.rand_bytes(rng, 32)])
        # ... then, four times in ten, one rule broken (or probed at its edge)
        if rng.random() < 0.4:
            what = rng.randrange(5)
            if what == 0:
                ver = rng.choice([common.rand_bytes(rng, 4), b"\x04\x88\xb2\x1f"])
            elif what == 1:
                depth, fp = 0, rng.choice([common.rand_bytes(rng, 4), b"\x00\x00\x00\x01", bytes(4)])
            elif what == 2:
                depth, index = 0, rng.choice([1, rng.getrandbits(32), 0x80000000, 0])
            elif what == 3:
                pre = rng.choice([b"\x00", b"\x02", b"\x03", b"\x01", b"\x04"])
            else:
                body = rng.choice(bodies)
        raw = ver + bytes([depth]) + fp + index.to_bytes(4, "big") + common.rand_bytes(rng, 32) + pre + body
        text = base58.encode(raw).decode()
        lines.append(f"xkey.decv {T(text)}")
        if rng.random() < 0.2:
            lines.append(f"xkey.decv {T(' ' + text + chr(10))}")
    ctx.stream("xkey", lines)

    from btclib.network import xprvversions_from_network, xpubversions_from_network
    for net in NETS:
        for is_prv, vers in ((True, xprvversions_from_network(net)), (False, xpubversions_from_network(net))):
            for ver in vers:
                depth = rng.choice([0, 1, 255])
                key = (b"\x00" + rng.randrange(1, n_order).to_bytes(32, "big")) if is_prv else \
                    bytes.fromhex("0279be667ef9dcbbac55a06295ce870b07029bfcdb2dce28d959f2815b16f81798")
                ctx.check("xkey.roundtrip", {
                    "ver": ver.hex(), "net": net, "depth": depth, "key": key.hex(),
                    "fp": (bytes(4) if depth == 0 else common.rand_bytes(rng, 4)).hex(),
                    "index": 0 if depth == 0 else rng.getrandbits(32), "cc": common.rand_bytes(rng, 32).hex()})
