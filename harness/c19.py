"""C19 — hostile input is refused with library exceptions only; predicates are total (DESIGN §3 C19).

What decides the property for exception classes is the ORACLE on the real code (`c19_core.call_spec`):
a call returns, or raises an exception `common.err_class` maps to value/type/runtime/script.  A finding
(key `<entrypoint>:<ExceptionName>`, the call as replay) is
  * any foreign exception class (IndexError, KeyError, OverflowError, UnicodeError, RecursionError,
    struct.error, AttributeError, raw TypeError/ValueError, MemoryError …),
  * a call that does not return within the watchdog (`<entrypoint>:hang`),
  * a boolean verifier that raises instead of answering (`<entrypoint>:raises:<Name>`),
  * a parser that read more of a caller's BytesIO than its own serialization (`<entrypoint>:overread`),
  * an accepted object on which a consumer (serialize, sizes, ids, sighash, engine entry, psbt roles)
    leaves the contract (`<entrypoint>-><consumer>:<ExceptionName>`).
Every callable annotated `-> bool` (functions, class / static / instance methods, properties, __eq__ / __contains__; found
by introspection) and the engine's verify_* assertions are swept in the QUICK tier by harness/c19_typed.py: each valid seed
call with one parameter at a time (then two) replaced by every hostile inhabitant of the parameter's declared type; counts
per entry point are written to evidence (class_histogram["typed.*_per_entry_point"]).
Entry points are enumerated by introspection of the btclib package on every run (c19_core); inputs
come from harness/c19_groups.py (structure-aware mutations of valid encodings, random bytes, unicode
edge strings, JSON values of the wrong type at every key, nesting to depth 10^4), in 16 processes.

Correspondence streams (model `lean/Model/C05|C08|C19` vs the real btclib, same op lines):
  pos.<class> <hex>      bytes consumed from a caller's stream and the size of what was returned
  pos.script / pos.psbtmap
  counted.witness <hex>  the generic count-prefixed model against Witness.parse
  tree <text>            the nested-grammar model against descriptors._parse_tree (through tr())
  limit <name>           generated limits against the imported modules
"""
from __future__ import annotations

import multiprocessing
import os
import time
from io import BytesIO

from . import common
from . import c19_core as C
from . import c19_gen as G
from . import c19_groups as Gr
from . import c19_seeds as S
from . import c19_stream as St
from . import c19_typed as Ty
from .common import hx, unhx

PROP = "C19"
EXE = "drv_c19"
GEN_MODULES = ["Limits", "VarInt", "Wire"]
RULE = ("entry points: every public parse/decode/deserialize/from_dict/b58decode/b64decode/from_… callable and every "
        "bool-returning predicate found by walking the btclib package; inputs from one seeded PRNG: valid encodings "
        "(objects built with btclib's constructors, vendored vectors) mutated structure-aware (every boundary value "
        "written at any offset as byte / CompactSize / 2-4-8 byte field, truncation at any offset, extension, splice), "
        "random bytes, unicode edge strings, JSON values of the wrong type at any key, nesting to depth 10^4; a case is "
        "non-trivial when the call was accepted; distinct = distinct (stream, call)")
TRUSTED = ["the exception-class oracle, the watchdog (5 s of CPU per call, 60 s wall backstop) and the consumers list are harness code (harness/c19_core.py)",
           "parser models are C05's / C08's (tied by their streams and by pos.*); Python exception classes, RecursionError, "
           "wall-clock hangs and BytesIO positions are observed by the harness only"]
ASSUMPTIONS = ["configuration integers (sizes, indexes, bit counts) passed beside the hostile bytes/text/JSON are drawn from "
               "plausible values: the property quantifies over bytes, text and JSON",
               "an object accepted under check_validity=False from a JSON document is not handed to consumers",
               "keyword pairs that the API requires together (commit/commit_hash with receipt: a documented BTClibTypeError "
               "caller error, not an invalid signature) are given together or left at their defaults by the typed generators",
               "the typed sweep (harness/c19_typed.py) hands a parameter only inhabitants of its DECLARED type (a list is not a "
               "tuple[int, int], an iterator is not a Sequence, a bytearray is not `bytes`); a bool where `int` is declared is refused "
               "with BTClibTypeError by the library's documented policy (utils.is_integer: a bool is not an integer), also out of a "
               "verifier - that one refusal is not counted as 'raises instead of answering'"]

ORACLES = {"call": C.replay_call, "trailing": St.replay_trailing}

NPROC = 16


# ----------------------------------------------------------------------------- impl side of the streams
def _cls(name):
    from . import c05_oracles as O
    return O._registry()[name].cls


_POS = {"pos.outpoint": "OutPoint", "pos.witness": "Witness", "pos.txin": "TxIn", "pos.txout": "TxOut", "pos.tx": "Tx",
        "pos.header": "BlockHeader", "pos.block": "Block",
        # the later codecs of wire_parsers_read_exactly (C05's p2p layer, xkey) ...
        "pos.msg": "Message", "pos.netaddr": "NetworkAddress", "pos.timedaddr": "TimestampedNetworkAddress", "pos.addr": "Addr",
        "pos.inventory": "Inventory", "pos.inv": "Inv", "pos.getheaders": "GetHeaders", "pos.headers": "Headers", "pos.xkey": "BIP32KeyData",
        # ... and those of more_wire_parsers_read_exactly
        "pos.ping": "Ping", "pos.feefilter": "FeeFilter", "pos.sendcmpct": "SendCmpct", "pos.getcfilters": "GetCFilters",
        "pos.cfilter": "CFilter", "pos.cfheaders": "CFHeaders", "pos.getcfcheckpt": "GetCFCheckpt", "pos.cfcheckpt": "CFCheckpt",
        "pos.ssasig": "ssa.Sig", "pos.bmssig": "bms.Sig"}
_TREE_KEYS = {}


def _tree_key(c):
    if not _TREE_KEYS:
        from btclib.to_pub_key import pub_keyinfo_from_prv_key
        for i, ch in enumerate("abcdefghijklmnopqrstuvwxyz"):
            _TREE_KEYS[ch] = pub_keyinfo_from_prv_key(1000 + i, compressed=True)[0][1:].hex()
    return _TREE_KEYS[c]


def _tree_shape(t):
    if isinstance(t, tuple) and len(t) == 2 and not hasattr(t, "_fields"):
        l, r = _tree_shape(t[0]), _tree_shape(t[1])
        return f"({l[0]},{r[0]})", max(l[1], r[1]) + 1, l[2] + r[2]
    key = str(t)
    for ch, k in _TREE_KEYS.items():
        if k in key:
            return ch, 0, 1
    return "?", 0, 1


_TH_LEAVES = {"x": [(0xC0, "OP_1")], "y": [("c0", ["OP_1"])], "z": ["OP_1"], "w": []}


def _py_tree(text):
    """the nested Python list a letter tree denotes, built WITHOUT recursion (the text nests to 10^4)"""
    stack, cur = [], None
    for ch in text:
        if ch == "{":
            stack.append([])
        elif ch == ",":
            stack[-1].append(cur)
        elif ch == "}":
            node = stack.pop()
            node.append(cur)
            cur = node
        else:
            cur = list(_TH_LEAVES[ch]) if ch in _TH_LEAVES else [(0xC0, ["OP_1"])]
    return cur


def _treehelper(text):
    from btclib.exceptions import BTClibTypeError
    from btclib.script import taproot
    try:
        info, _root = taproot.tree_helper(_py_tree(text))
    except Exception as e:  # noqa: BLE001
        if common.err_class(e).startswith("foreign"):
            return "err foreign:" + type(e).__name__
        m = str(e)
        for k, v in (("nesting levels", "deep"), ("invalid script tree node", "node"), ("invalid script tree leaf", "leaf"),
                     ("invalid leaf version type", "vtype")):
            if k in m:
                return "err " + v
        return "err stype" if isinstance(e, BTClibTypeError) else "err other:" + m[:60]
    return f"ok depth={max(len(p) for _, p in info) // 32} leaves={len(info)}"


def impl(line: str) -> str:
    t = line.split(" ")
    op = t[0]
    if op == "treehelper":
        return _treehelper(t[1])
    try:
        if op == "limit":
            return "ok " + str(_limit(t[1]))
        if op == "tree":
            from btclib.descriptors import descriptors as DS
            text = "" if len(t) < 2 else t[1]
            expr = "".join(f"pk({_tree_key(c)})" if c.islower() else c for c in text)
            d = DS.parse(f"tr({_tree_key('z')},{expr})")
            if d.tree is None:
                return "err refused"
            s, depth, leaves = _tree_shape(d.tree)
            return f"ok {s} depth={depth} leaves={leaves}"
        b = unhx(t[1])
        if op == "counted.witness":
            from btclib import var_int
            from btclib.consensus import MAX_WITNESS_STACK_ITEMS
            st = BytesIO(b)
            try:
                w = _cls("Witness").parse(st, check_validity=False)
            except Exception as e:  # noqa: BLE001
                if common.err_class(e).startswith("foreign"):
                    return "err foreign"
                try:
                    n = var_int.parse(BytesIO(b))
                    return "err toomany" if n > MAX_WITNESS_STACK_ITEMS else "err refused"
                except Exception:  # noqa: BLE001
                    return "err refused"
            return f"ok {len(w.stack)} {st.tell()}"
        if op == "pos.script":
            from btclib.script import script as SC
            sp = list(SC.op_code_spans(b))
            return f"ok {len(sp)} {sp[-1][2] if sp else 0}"
        if op == "pos.psbtmap":
            from btclib.psbt import psbt_utils
            st = BytesIO(b)
            m = psbt_utils.deserialize_map(st)
            return f"ok {st.tell()} {len(m)}"
        if op == "pos.varint":
            from btclib import var_int
            st = BytesIO(b)
            v = var_int.parse(st)
            return f"ok {st.tell()} {len(var_int.serialize(v))}"
        if op == "pos.varbytes":
            from btclib import var_bytes
            st = BytesIO(b)
            v = var_bytes.parse(st)
            return f"ok {st.tell()} {len(var_bytes.serialize(v))}"
        if op in _POS:
            st = BytesIO(b)
            o = _cls(_POS[op]).parse(st, check_validity=False)
            return f"ok {st.tell()} {len(C._ser(o))}"
    except Exception as e:  # noqa: BLE001
        c = common.err_class(e)
        if op in ("tree",):
            return "err refused" if not c.startswith("foreign") else "err foreign"
        return "err " + (c if not c.startswith("foreign") else "foreign")
    return "bad-op"


def _limit(name):
    from btclib import consensus, var_int
    from btclib.p2p import limits as pl
    from btclib.script import limits as sl
    from btclib.script import taproot
    from btclib.tx import limits as tl
    if name == "MAX_SIZE":
        return var_int.MAX_SIZE
    for m in (tl, consensus, pl, sl, taproot):
        if hasattr(m, name):
            return getattr(m, name)
    raise KeyError(name)


# ----------------------------------------------------------------------------- workers
HB_DIR = "/dev/shm"
STUCK_CPU_S = 25.0      # CPU spent on ONE call although the in-process watchdog is 5 s: an uninterruptible loop
STUCK_WALL_S = 2400.0


def _hb_path(run_id, pid):
    return os.path.join(HB_DIR, f"c19hb-{run_id}-{pid}")


def _worker(task):
    tid, run_id, group, seed, n = task
    import random
    import resource
    C.heartbeat_open(_hb_path(run_id, os.getpid()), str(tid))
    try:
        resource.setrlimit(resource.RLIMIT_AS, (6 * 2**30, 6 * 2**30))
    except (ValueError, OSError):
        pass
    C.install_watchdog()
    R = C.Recorder()
    rng = random.Random(seed)
    rng.seed_value = seed
    R.spell_rng = random.Random(seed ^ 0x5BE11)
    R.spell_rate = 1.0 if group == "spell" else 0.2
    t0 = time.time()
    try:
        if group.startswith("exhaustive:"):
            Gr.exhaustive_field_edits(R, group.split(":", 1)[1])
        elif group.startswith("everykey:"):
            Gr.json_every_key(R, group.split(":", 1)[1])
        elif group == "trailing":
            R.spell_rate = 0.0
            St.g_trailing(R, rng, n)
        elif group == "typed":
            R.spell_rate = 0.0      # the sweep spells every buffer itself
            Ty.g_typed(R, rng, n)
        elif group == "spell":
            # every seeded group once more, small, with EVERY call repeated in every spelling
            for g in ("text", "binfunc", "binary", "pred", "generic", "json"):
                Gr.GROUPS[g](R, rng, n)
        else:
            Gr.GROUPS[group](R, rng, n)
    except common.HarnessError as e:
        return {"error": f"{group}: {e}"}
    except C.Watchdog:
        return {"error": f"{group}: stray watchdog"}
    finally:
        C.heartbeat_idle()
    return {"group": group, "counts": R.counts, "digests": R.digests, "failures": R.failures, "calls": R.calls,
            "secs": time.time() - t0}


def _merge(ctx, res):
    if "error" in res:
        raise common.HarnessError(res["error"])
    for (stream, ep, outcome), k in res["counts"].items():
        ctx.count(stream, outcome, k)
        if stream == "consumers.matrix":
            h = ctx.hist.setdefault("consumers.matrix", {})
            h[ep] = h.get(ep, 0) + k
            continue
        if stream in ("trailing.class", "trailing.seeds", "trailing.reser"):
            h = ctx.hist.setdefault(stream + ("." + outcome if stream != "trailing.class" else ""), {})
            if stream == "trailing.class":
                h[ep.replace("btclib.", "")] = outcome
            else:
                h[ep.replace("btclib.", "")] = h.get(ep.replace("btclib.", ""), 0) + k
            continue
        if stream == "trailing" and outcome != "undriven":
            h = ctx.hist.setdefault("trailing.calls_per_entry_point", {})
            h[ep.replace("btclib.", "")] = h.get(ep.replace("btclib.", ""), 0) + k
        if stream in ("typed.answers", "typed.seeds"):
            # per entry point: how the bool-returning callable answered the typed-hostile sweep
            h = ctx.hist.setdefault("typed." + ("seed_calls_" if stream == "typed.seeds" else "") + outcome.split(":")[0].lower() + "_per_entry_point", {})
            h[ep.replace("btclib.", "")] = h.get(ep.replace("btclib.", ""), 0) + k
            continue
        if stream == "typed" and outcome != "undriven":
            h = ctx.hist.setdefault("typed.calls_per_entry_point", {})
            h[ep.replace("btclib.", "")] = h.get(ep.replace("btclib.", ""), 0) + k
        if stream in ("spell.accepted-vs-refused", "spell.different-values"):
            ctx.__dict__.setdefault("_c19_avr", {})[ep] = ctx.__dict__.setdefault("_c19_avr", {}).get(ep, 0) + k
            continue
        if outcome == "undriven":
            ctx.hist.setdefault("undriven_entry_points", {})[ep] = 1
        else:
            ctx.hist.setdefault("calls_per_entry_point", {})
            if not stream.endswith(".consumers"):
                ctx.hist["calls_per_entry_point"][ep] = ctx.hist["calls_per_entry_point"].get(ep, 0) + k
        st = ctx.streams.setdefault(stream + "#oracle", {"cases": 0, "failures": 0})
        st["cases"] += k
    for d, nt in res["digests"]:
        ctx.distinct.add(d)
        if nt:
            ctx.nontrivial.add(d)
    ctx.evaluations += res["calls"]
    seen = ctx.__dict__.setdefault("_c19_per_key", {})
    for f in res["failures"]:
        ctx.streams[f["stream"] + "#oracle"]["failures"] += 1
        # Ctx.fail keeps 20 findings per stream: every KEY must survive, so keys are their own stream label
        seen[f["key"]] = seen.get(f["key"], 0) + 1
        if seen[f["key"]] <= 2:
            ctx.fail("property", f["stream"] + "/" + f["key"], f["detail"], key=f["key"],
                     oracle={"oracle": f["witness"].get("_oracle", "call") if isinstance(f["witness"], dict) else "call", "witness": f["witness"]})


def _balanced(s):
    """a well-formed letter tree: a letter, or `{TREE,TREE}` (checked without recursion)"""
    st = []
    prev = ""
    for ch in s:
        if ch == "{":
            if prev not in ("", "{", ","):
                return False
            st.append(0)
        elif ch == ",":
            if not st or st[-1] != 0 or prev in ("{", ",", ""):
                return False
            st[-1] = 1
        elif ch == "}":
            if not st or st[-1] != 1 or prev in ("{", ","):
                return False
            st.pop()
        elif ch.islower():
            if prev not in ("", "{", ","):
                return False
        else:
            return False
        prev = ch
    return not st and prev != ""


# ----------------------------------------------------------------------------- correspondence streams
def _stream_lines(ctx):
    rng = ctx.rng
    lines = {"limit": [f"limit {n}" for n in ("MAX_SIZE", "MAX_TX_IN_COUNT", "MAX_TX_OUT_COUNT", "MAX_WITNESS_STACK_ITEMS",
                                             "MAX_TREE_DEPTH", "MAX_ADDR_TO_SEND", "MAX_INV_SZ", "MAX_HEADERS_RESULTS", "MAX_LOCATOR_SZ",
                                             "MAX_BLOCK_TX_INDEX", "MAX_GETCFHEADERS_SIZE", "MAX_PROTOCOL_MESSAGE_LENGTH",
                                             "MAX_SCRIPT_ELEMENT_SIZE", "MAX_SCRIPT_SIZE")]}
    n = ctx.n(250, 4000)
    pos = []
    for op, name in sorted(_POS.items()):
        seeds = [b for b, _ in S.CLASS_BIN.get(name, []) if len(b) < 1200]
        if not seeds:
            continue
        for _ in range(n):
            b = rng.choice(seeds)
            r = rng.random()
            m = b if r < 0.15 else G.mutate_bytes(rng, b, seeds)
            if rng.random() < 0.5:
                m = m + G.random_bytes(rng)[:rng.choice([0, 1, 5, 40])]      # what follows in the caller's stream
            if len(m) <= 4000:
                pos.append(f"{op} {hx(m)}")
    for _ in range(n):
        pos.append(f"pos.varint {hx(Gr._bin_seed(rng, 'varints'))}")
        pos.append(f"pos.varbytes {hx(Gr._bin_seed(rng, 'varbytes'))}")
        sc = rng.choice(S.SCRIPTS)
        pos.append(f"pos.script {hx(sc if rng.random() < 0.3 else G.mutate_bytes(rng, sc, S.SCRIPTS[:10]))}")
        mp = rng.choice(S.CLASS_BIN.get("PsbtIn") or [(b"\x00", {})])[0]
        if len(mp) < 1500:
            pos.append(f"pos.psbtmap {hx(mp if rng.random() < 0.2 else G.mutate_bytes(rng, mp))}")
    lines["pos"] = pos
    cw = []
    wseeds = [b for b, _ in S.CLASS_BIN.get("Witness", []) if len(b) < 1500] or [b"\x00"]
    for _ in range(n):
        b = rng.choice(wseeds)
        r = rng.random()
        if r < 0.2:
            m = G.varint_any(rng.choice([4_000_000, 4_000_001, 0x02000000, 0x02000001, 2**32, 2**64 - 1, 0, 1, 3]), rng) + b[1:]
        else:
            m = b if r < 0.3 else G.mutate_bytes(rng, b, wseeds)
        cw.append(f"counted.witness {hx(m)}")
    lines["counted.witness"] = cw
    trees = ["a", "{a,b}", "{a,{b,c}}", "{{a,b},{c,d}}", "{a,b}c", "{a}", "{a,b,c}", "{,a}", "{a,}", "{{a,b}", "{a,b}}", "ab", "{a,bb}"]

    def rt(d):
        if d == 0 or rng.random() < 0.3:
            return rng.choice("abcdefgh")
        return "{" + rt(d - 1) + "," + rt(d - 1) + "}"
    for _ in range(ctx.n(120, 1500)):
        s = rt(rng.choice([1, 2, 3, 5]))
        trees.append(s)
        if rng.random() < 0.5 and len(s) > 1:
            i = rng.randrange(len(s))
            trees.append(s[:i] + rng.choice(["{", "}", ",", "a", ""]) + s[i + 1:])
    for d in (126, 127, 128, 129, 130, 200):       # spines of depth d on either side: the generated MAX_TREE_DEPTH decides
        trees.append("{" * d + "a" + ",b}" * d)
        trees.append("{a," * d + "b" + "}" * d)
        trees.append("{{a,b}," * d + "c" + "}" * d)
    lines["tree"] = [f"tree {s}" for s in trees if s and " " not in s]
    # taproot.tree_helper on the Python values the same texts denote (well-formed ones; the bound under test is
    # tree_helper's own), with malformed leaves, and spines around MAX_TREE_DEPTH and far beyond the interpreter's stack
    th = [s for s in trees if _balanced(s)]
    for s in list(th[:60]):
        for bad in "xyzw":
            i = [k for k, c in enumerate(s) if c.islower()]
            if i:
                k = rng.choice(i)
                th.append(s[:k] + bad + s[k + 1:])
    for d in (127, 128, 129, 130, 1000, 3000):
        th += ["{" * d + "a" + ",b}" * d, "{a," * d + "b" + "}" * d, "{" * d + "x" + ",b}" * d, "{a," * d + "w" + "}" * d]
    lines["treehelper"] = [f"treehelper {s}" for s in th]
    return lines


# ----------------------------------------------------------------------------- run
def run(ctx):
    S.build(ctx.seed)
    for nme in S.NOTES[:12]:
        ctx.note("c19 seeds: " + nme)
    eps = C.enumerate_entry_points()
    ctx.note(f"entry points enumerated by introspection: {len(eps)} "
             f"({sum(1 for e in eps.values() if e['kind'] == 'parse')} parse/decode/from_…, "
             f"{sum(1 for e in eps.values() if e['bool_ret'])} boolean predicates, "
             f"{sum(1 for e in eps if C.is_verifier(e))} of them verifiers that must answer)")
    # -- model vs implementation
    for name, lines in _stream_lines(ctx).items():
        ctx.stream(name, lines, nontrivial=lambda ln, out: out.startswith("ok"))
        for ln in lines[:0]:
            pass
    # a foreign class seen by the streams is a property finding of its own
    for f in list(ctx.findings):
        if f.kind == "correspondence" and f.impl and "foreign" in f.impl:
            ctx.fail("property", f.stream, f"stream op `{f.op_line[:200]}` left the contract: {f.impl}", key=f"{f.stream}:foreign")
    # -- the exception-class oracle, in NPROC processes
    total = ctx.n(60000, 2_000_000)
    share = {"binary": 0.30, "binfunc": 0.13, "text": 0.18, "json": 0.10, "jsonfunc": 0.03, "pred": 0.09, "generic": 0.10,
             "textcodec": 0.01, "witness": 0.06, "deep": 0.0}
    chunk = 1500 if ctx.tier == "quick" else 12000
    tasks = []
    for g, frac in share.items():
        n = int(total * frac)
        if g == "witness":
            n //= 3           # three calls per case
        while n > 0:
            k = min(chunk, n)
            tasks.append((g, ctx.rng.getrandbits(62), k))
            n -= k
    for part in range(4):           # the four parts of the deterministic deep/digit-run case list
        tasks.append(("deep", (ctx.rng.getrandbits(60) << 2) | part, ctx.n(700, 4000)))
    for part in range(2):
        tasks.append(("psbtdegenerate", (ctx.rng.getrandbits(60) << 1) | part, 10**6))
        tasks.append(("spell", ctx.rng.getrandbits(62), ctx.n(700, 8000)))
        tasks.append(("coreimport", ctx.rng.getrandbits(62), ctx.n(1500, 40000)))
        tasks.append(("msdecode", (ctx.rng.getrandbits(60) << 1) | part, ctx.n(9000, 10**7)))
    tasks.append(("jsonint", ctx.rng.getrandbits(62), 0))    # one-byte int fields of the taproot records, every boundary value
    for part in range(4):           # every class's accepted objects through the whole introspected consumer matrix
        tasks.append(("matrix", (ctx.rng.getrandbits(56) << 2) | part, ctx.n(800, 40000)))
    for part in range(8):           # trailing bytes after every parse(stream) entry point: entry point k goes to task k mod 8
        tasks.append(("trailing", (ctx.rng.getrandbits(56) << 3) | part, ctx.n(1200, 60000)))
    for part in range(16):          # the typed-hostile sweep of every bool-returning callable: entry point k goes to task k mod 16
        tasks.append(("typed", (ctx.rng.getrandbits(56) << 4) | part, ctx.n(60, 3000)))
    if ctx.tier == "thorough":
        for name in sorted(S.CLASS_BIN):
            tasks.append((f"exhaustive:{name}", 0, 0))
        for name in sorted(S.CLASS_JSON):
            tasks.append((f"everykey:{name}", 0, 0))
        ctx.exhaustive_streams += ["binary.exhaustive (every offset x every boundary value x {byte, CompactSize, 2/4/8-byte LE, 4-byte BE} "
                                   "and truncation at every offset, on the two shortest seeds of every class)",
                                   "json.everykey (a value of every wrong type at every key of the three smallest documents of every class)"]
    else:
        for name in ("TxOut", "OutPoint"):
            if name in S.CLASS_JSON:
                tasks.append((f"everykey:{name}", 0, 0))
        for name in ("OutPoint", "TxOut", "Ping", "Inventory"):
            if name in S.CLASS_BIN:
                tasks.append((f"exhaustive:{name}", 0, 0))
    # heavy tasks first
    tasks.sort(key=lambda t: (not t[0].startswith(("deep", "psbtdeg", "exhaustive", "everykey", "json", "witness")), t[0]))
    t0 = time.time()
    mp = multiprocessing.get_context("fork")
    per_group_secs = {}
    run_id = f"{os.getpid()}"
    tick = os.sysconf("SC_CLK_TCK")
    lost = []
    with mp.Pool(min(NPROC, os.cpu_count() or 1), maxtasksperchild=8) as pool:
        pending = {tid: pool.apply_async(_worker, ((tid, run_id) + t,)) for tid, t in enumerate(tasks)}
        while pending:
            progressed = False
            for tid, ar in list(pending.items()):
                if ar.ready():
                    res = ar.get()
                    _merge(ctx, res)
                    if "group" in res:
                        g0 = res["group"].split(":")[0]
                        per_group_secs[g0] = per_group_secs.get(g0, 0) + res["secs"]
                    del pending[tid]
                    progressed = True
            if progressed:
                continue
            time.sleep(0.5)
            # a worker stuck inside one call that no signal can interrupt
            for fn in os.listdir(HB_DIR):
                if not fn.startswith(f"c19hb-{run_id}-"):
                    continue
                pid = int(fn.rsplit("-", 1)[1])
                try:
                    with open(os.path.join(HB_DIR, fn), "rb") as fh:
                        raw = fh.read().decode("utf8", "surrogatepass")
                    if not raw:
                        continue
                    wall0, cpu0, htid, consumer, wjson = raw.split("\n", 4)
                    with open(f"/proc/{pid}/stat") as fh:
                        st = fh.read().rsplit(")", 1)[1].split()
                    cpu_now = (int(st[11]) + int(st[12])) / tick
                except (OSError, ValueError, IndexError):
                    continue
                if cpu_now - float(cpu0) > STUCK_CPU_S or time.time() - float(wall0) > STUCK_WALL_S:
                    try:
                        os.kill(pid, 9)
                    except OSError:
                        pass
                    try:
                        os.unlink(os.path.join(HB_DIR, fn))
                    except OSError:
                        pass
                    try:
                        import json as _json
                        w = _json.loads(wjson)
                    except ValueError:
                        w = {"ep": "?", "args": [], "kwargs": {}, "truncated": wjson[:2000]}
                    ep = w.get("ep", "?")
                    key = f"{ep}->{C._generic(consumer)}:hang" if consumer else f"{ep}:hang"
                    ctx.streams.setdefault("stuck#oracle", {"cases": 0, "failures": 0})
                    ctx.streams["stuck#oracle"]["cases"] += 1
                    ctx.streams["stuck#oracle"]["failures"] += 1
                    ctx.fail("property", "stuck",
                             f"{ep}{' then consumer ' + consumer if consumer else ''} did not return after "
                             f"{cpu_now - float(cpu0):.0f} s of CPU and could not be interrupted (a loop inside one C call); "
                             f"the worker was killed, on {wjson[:300]}", key=key,
                             oracle={"oracle": "call", "witness": dict(w, consumer=consumer, uninterruptible=True)})
                    if int(htid) in pending:
                        del pending[int(htid)]
                        lost.append(tasks[int(htid)][0])
    for fn in os.listdir(HB_DIR):
        if fn.startswith(f"c19hb-{run_id}-"):
            try:
                os.unlink(os.path.join(HB_DIR, fn))
            except OSError:
                pass
    if lost:
        ctx.note(f"oracle: {len(lost)} task(s) lost with a killed worker (the rest of their batch was not driven): {lost}")
    ctx.note(f"oracle: {len(tasks)} tasks in {time.time() - t0:.1f} s wall; cpu seconds per group: "
             + ", ".join(f"{g}={s:.0f}" for g, s in sorted(per_group_secs.items())))
    avr = ctx.__dict__.get("_c19_avr", {})
    ctx.note("spellings: entry points where two spellings of one content are answered differently, both inside the contract "
             f"(accepted vs refused, or two values; informational: a str is text and is stripped, bytes are exact): {len(avr)}: "
             + ", ".join(f"{e.replace('btclib.', '')}×{n}" for e, n in sorted(avr.items())[:40]))
    driven = ctx.hist.get("calls_per_entry_point", {})
    undriven = sorted(e for e in eps if e not in driven)
    ctx.note(f"entry points driven: {len([e for e in eps if e in driven])} of {len(eps)}; never driven (a required parameter "
             f"of a type the generator has no values for): {len(undriven)}: " + ", ".join(u.replace('btclib.', '') for u in undriven[:60]))
    # the typed sweep: every bool-returning callable found by introspection is listed with its counts; an anchored
    # verifier that was not driven is a harness failure, never a silent gap
    beps = Ty.bool_entry_points()
    tcalls = ctx.hist.get("typed.calls_per_entry_point", {})
    tund = sorted(e.replace("btclib.", "") for e in beps if e.replace("btclib.", "") not in tcalls)
    ctx.note(f"typed sweep: {len(beps)} bool-returning callables / engine assertions found by introspection (functions, class and static methods, "
             f"instance methods, properties, __eq__/__contains__), {len(beps) - len(tund)} driven, {sum(tcalls.values())} calls; "
             f"not driven (no receiver / seed call): {tund}")
    for e in beps:
        if (C.is_verifier(e) or e in Ty.ASSERTION_EPS) and e.replace("btclib.", "") not in tcalls:
            raise common.HarnessError(f"typed sweep: anchored verifier {e} was not driven")
    # the consumer matrix: every (type, consumer) pair found by introspection, with the calls it received
    from . import c19_matrix as M
    mx = M.matrix()
    pairs = sorted({f"{q.replace('btclib.', '')}({pn})" for rows in mx.values() for q, _, pn, _, _ in rows})
    got = ctx.hist.get("consumers.matrix", {})
    ctx.note(f"consumer matrix by introspection: {len(mx)} parameter types, {len(pairs)} (consumer, parameter) pairs declared over them; "
             f"{len(got)} pairs received an accepted object in this run ({sum(got.values())} calls); the pairs never reached are those whose "
             f"type no parser of this run returned or whose other required parameters have no plausible value")
    # the trailing-bytes oracle: every parse(stream) entry point is classified and listed
    seps = St.stream_entry_points()
    tcls = ctx.hist.pop("trailing.class", {})
    tdrv = ctx.hist.get("trailing.calls_per_entry_point", {})
    by = {}
    for e in sorted(seps):
        by.setdefault(St.classify(e), []).append(e.replace("btclib.", ""))
    ctx.note(f"stream entry points (first parameter admits a BytesIO) found by introspection: {len(seps)}; with a Lean codec "
             f"(wire_parsers_read_exactly / more_wire_parsers_read_exactly / record loop; position also compared with the model by pos.*): "
             f"{len(by.get('modelled', []))}; whole-stream by design: {by.get('whole-stream', [])}; utilities: {by.get('utility', [])}")
    ctx.note(f"stream entry points without a Lean codec (trailing-bytes oracle only): {len(by.get('oracle-only', []))}: {by.get('oracle-only', [])}")
    und = [e for e in sorted(seps) if St.classify(e) != "utility" and e.replace("btclib.", "") not in tdrv]
    if und:
        raise common.HarnessError(f"trailing-bytes oracle: stream entry points without a seed encoding: {und}")
    rd = ctx.hist.get("trailing.reser.reser!=pos", {})
    if rd:
        ctx.note(f"trailing: seeds whose re-serialization is not as long as the bytes read (a normalising codec, not an over-read): {rd}")
    srefused = ctx.hist.get("typed.seed_calls_refused_per_entry_point", {})
    if srefused:
        ctx.note(f"typed sweep: seed calls that were refused (the sweep still runs from them): {srefused}")
    # declared classes must be populated
    for stream in ("binary", "text", "json", "pred", "generic", "binfunc"):
        h = ctx.hist.get(stream, {})
        if not h.get("ok") or not (h.get("value") or h.get("type")):
            raise common.HarnessError(f"stream {stream}: class histogram leaves accepted/refused empty: {h}")
    # keep the evidence file small
    cpe = ctx.hist.pop("calls_per_entry_point", {})
    ctx.hist["entry_points"] = {"driven": len(cpe), "enumerated": len(eps), "min_calls": min(cpe.values()) if cpe else 0,
                                "median_calls": sorted(cpe.values())[len(cpe) // 2] if cpe else 0}
    ctx.hist.pop("undriven_entry_points", None)
