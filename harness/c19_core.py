"""C19 core: entry-point enumeration by introspection, the guarded call, the exception-class oracle,
consumers of accepted objects, the per-task recorder."""
from __future__ import annotations

import hashlib
import importlib
import inspect
import json
import pkgutil
import re
import signal
from io import BytesIO

from . import common
from . import c19_gen as G

WATCHDOG_S = 5.0
PARSE_PAT = re.compile(r"(^|_)(parse|decode|deserialize|b58decode|b64decode|b32decode|from_dict|from_json)($|_)"
                       r"|^from_|_from_|^b\d+decode")
# boolean verifiers that must ANSWER (True/False) on every input of the declared types: the wrappers the
# property anchors (signature, proof, address-bound message, merkle branch, filter).  Other bool-returning
# predicates document refusing malformed input with a library exception; for them only a foreign class
# or a hang is a finding.
VERIFIER_PAT = re.compile(r"\.(verify|verify_|batch_verify|batch_verify_|verify_proof|dsa_verify|ssa_verify|match|match_any)$")
VERIFIER_EXCLUDE = ("btclib.script.engine",)   # engine.verify_* are assertions (-> None), except the two below
VERIFIER_INCLUDE = ("btclib.script.engine.script.dsa_verify", "btclib.script.engine.tapscript.ssa_verify")


def is_verifier(ep):
    if ep in VERIFIER_INCLUDE:
        return True
    return bool(VERIFIER_PAT.search(ep)) and not ep.startswith(VERIFIER_EXCLUDE)


PRED_PAT = re.compile(r"^(verify|is_|validate|check_|has_|batch_verify)|(^|_)verify")
SKIP_MODULES = ("btclib.fetch", "btclib.hwi")   # network / subprocess back ends
# functions that read a node's JSON replies without a parse/decode/from_ name (btclib.core_import makes no rpc call:
# it builds requests and reads `listdescriptors` / `importdescriptors` replies handed to it)
EXTRA_ENTRY_POINTS = ("btclib.core_import.watched_range", "btclib.core_import.widened_range", "btclib.core_import.assert_imported",
                      "btclib.core_import.import_request", "btclib.core_import.account_import_requests")


class Watchdog(BaseException):
    pass


def _alarm(signum, frame):
    raise Watchdog()


REAL_BACKSTOP_S = 900.0


def install_watchdog():
    """the per-call watchdog counts the CPU time of the call (robust to a loaded machine); a wall-clock
    backstop catches a call that blocks without computing"""
    signal.signal(signal.SIGPROF, _alarm)
    signal.signal(signal.SIGALRM, _alarm)


def _arm(limit):
    signal.setitimer(signal.ITIMER_PROF, limit)
    signal.setitimer(signal.ITIMER_REAL, REAL_BACKSTOP_S)


def _disarm():
    signal.setitimer(signal.ITIMER_PROF, 0)
    signal.setitimer(signal.ITIMER_REAL, 0)


# ----------------------------------------------------------------------------- entry points
_EPS = None


def enumerate_entry_points():
    """{qualified name: dict(fn, kind 'parse'|'pred', sig, bool_ret, owner)} for the whole package."""
    global _EPS
    if _EPS is not None:
        return _EPS
    import btclib
    eps = {}

    def consider(q, fn, name, static=True):
        if name.startswith("_") or name.startswith("op_"):
            return      # op_*: op code handlers of the engine, called with the engine's own stack preconditions
        try:
            sig = inspect.signature(fn)
        except (TypeError, ValueError):
            return
        ret = sig.return_annotation
        bool_ret = ret in ("bool", bool)
        kind = None
        if PARSE_PAT.search(name) and static:
            kind = "parse"
        if PRED_PAT.search(name) or bool_ret:
            kind = kind or "pred"
        if kind and static:
            eps[q] = {"fn": fn, "kind": kind, "sig": sig, "bool_ret": bool_ret}

    for mi in pkgutil.walk_packages(btclib.__path__, "btclib."):
        if any(p.startswith("_") for p in mi.name.split(".")[1:]) or mi.name.startswith(SKIP_MODULES):
            continue
        try:
            m = importlib.import_module(mi.name)
        except Exception:  # noqa: BLE001 - optional back ends
            continue
        for n, o in sorted(vars(m).items()):
            if n.startswith("_"):
                continue
            if inspect.isfunction(o) and o.__module__ == m.__name__:
                consider(f"{m.__name__}.{n}", o, n)
            elif inspect.isclass(o) and o.__module__ == m.__name__:
                for mn in sorted(dir(o)):
                    if mn.startswith("_"):
                        continue
                    raw = inspect.getattr_static(o, mn, None)
                    if isinstance(raw, (classmethod, staticmethod)):
                        consider(f"{m.__name__}.{n}.{mn}", getattr(o, mn), mn)
    for q in EXTRA_ENTRY_POINTS:
        try:
            fn = resolve(q)
            eps[q] = {"fn": fn, "kind": "parse", "sig": inspect.signature(fn), "bool_ret": False}
        except (ImportError, AttributeError, TypeError, ValueError):
            continue
    _EPS = eps
    return eps


def resolve(ep: str):
    """callable named by a dotted path (module, then attributes)"""
    parts = ep.split(".")
    for i in range(len(parts), 0, -1):
        try:
            obj = importlib.import_module(".".join(parts[:i]))
        except ImportError:
            continue
        for a in parts[i:]:
            obj = getattr(obj, a)
        return obj
    raise ImportError(ep)


# ----------------------------------------------------------------------------- the guarded call
def guarded(fn, args, kwargs, limit=WATCHDOG_S):
    """-> (outcome, value, exception)   outcome: ok | value | type | runtime | script | foreign:<Name> | hang"""
    try:
        _arm(limit)
        try:
            v = fn(*args, **kwargs)
            _disarm()
            return "ok", v, None
        except Exception as e:  # noqa: BLE001 - the class is the observation
            _disarm()
            return common.err_class(e), None, e
        finally:
            _disarm()
    except Watchdog:
        # the alarm may also land while an exception of the call is being handled: still a call that
        # used up its time
        _disarm()
        return "hang", None, None


# heartbeat: a call stuck inside one C-level loop (e.g. `x in range(2**64)` with a float x) never runs the
# signal handler, so the in-process watchdog cannot end it.  Each worker therefore writes the call it is about
# to make to a file in /dev/shm; the parent kills a worker whose CPU time has advanced far beyond the
# watchdog on one call, and records that call as a hang.
_HB = {"fd": None, "task": ""}


def heartbeat_open(path, task):
    import os
    _HB["fd"] = os.open(path, os.O_RDWR | os.O_CREAT | os.O_TRUNC, 0o600)
    _HB["task"] = task


def _hb(wjson, consumer=""):
    fd = _HB["fd"]
    if fd is None:
        return
    import os
    import time
    data = f"{time.time():.3f}\n{time.process_time():.3f}\n{_HB['task']}\n{consumer}\n{wjson}".encode("utf8", "surrogatepass")
    os.ftruncate(fd, 0)
    os.pwrite(fd, data, 0)


def heartbeat_idle():
    fd = _HB["fd"]
    if fd is not None:
        import os
        os.ftruncate(fd, 0)


# ----------------------------------------------------------------------------- spellings of one content
# btclib.alias: Octets = String = bytes | str | bytearray | memoryview, BinaryData = BytesIO | Octets.  The same
# content may arrive in every one of those spellings; for an Octets-like parameter a str is hex, for a
# String-like one it is text.
_HEX_KINDS = ("Octets", "BinaryData", "Integer", "PrvKey", "PubKey", "Key", "BIP340PubKey", "bytes|str|bytearray|memoryview",
              "_io.BytesIO|bytes|str|bytearray|memoryview", "bytes|str|bytearray|memoryview|int")
_TEXT_KINDS = ("String", "BIP32Key")


def param_kind(ann):
    """'hex' | 'text' | None, and whether a BytesIO is admitted, for a parameter annotation"""
    a = (ann if isinstance(ann, str) else getattr(ann, "__name__", str(ann))).replace(" ", "").replace("'", "")
    parts = a.split("|")
    io_ok = "BinaryData" in parts or "_io.BytesIO" in parts or "BytesIO" in parts
    if any(p in _TEXT_KINDS for p in parts):
        return "text", False
    if any(p in _HEX_KINDS for p in parts) or a in _HEX_KINDS:
        return "hex", io_ok
    if {"bytes", "str", "bytearray", "memoryview"} <= set(parts):
        return "either", io_ok      # the bare union: Octets and String are the same type, the content decides
    return None, False


def spellings(spec, kind, io_ok):
    """[(name, spec)] every accepted spelling of the content of `spec`; [] when the content has one spelling only"""
    content, was = None, None
    if isinstance(spec, dict):
        for k in ("b", "ba", "mv", "mvw", "io"):
            if k in spec and len(spec) == 1:
                content, was = bytes.fromhex(spec[k]), k
    elif isinstance(spec, str):
        was = "str"
        if kind == "either":
            try:
                kind = "hex" if bytes.fromhex(spec).hex() == spec.lower() and spec else "text"
            except ValueError:
                kind = "text"
        if kind == "hex":
            try:
                content = bytes.fromhex(spec)
            except ValueError:
                return []
            if content.hex() != spec.lower():      # spaces etc.: the str spelling is not the canonical one
                return []
        else:
            try:
                content = spec.encode("ascii")
            except UnicodeEncodeError:
                return []
    if content is None:
        return []
    out = [("bytes", {"b": content.hex()}), ("bytearray", {"ba": content.hex()}), ("memoryview", {"mv": content.hex()}),
           ("memoryview-writable", {"mvw": content.hex()})]
    if kind == "hex":
        out.append(("hex-str", content.hex()))
    elif kind == "either":
        pass
    else:
        try:
            out.append(("str", content.decode("ascii")))
        except UnicodeDecodeError:
            pass
    if io_ok:
        out.append(("BytesIO", {"io": content.hex()}))
    return out


def _norm(v, depth=0):
    if depth > 6:
        return v
    if isinstance(v, (bytes, bytearray, memoryview)):
        return bytes(v)
    if isinstance(v, (list, tuple)):
        return tuple(_norm(x, depth + 1) for x in v)
    if isinstance(v, BytesIO):
        return ("BytesIO", v.getvalue())
    return v


def _same_value(a, b):
    try:
        a, b = _norm(a), _norm(b)
        if a == b:
            return True
        if hasattr(a, "serialize") and type(a) is type(b):
            return _ser(a) == _ser(b)
        if type(a).__eq__ is object.__eq__:
            return True       # identity-only equality (generators, engines): nothing to compare
        return False
    except Exception:  # noqa: BLE001 - a comparison that cannot be made decides nothing
        return True


_SIG_CACHE = {}


def _sig_of(ep, f):
    if ep not in _SIG_CACHE:
        try:
            _SIG_CACHE[ep] = inspect.signature(f)
        except (TypeError, ValueError):
            _SIG_CACHE[ep] = None
    return _SIG_CACHE[ep]


class Recorder:
    """what one task observed; merged into ctx by the parent"""

    spell_rng = None      # a PRNG: a fraction of the calls is repeated in every spelling of one buffer argument
    spell_rate = 0.0

    def __init__(self):
        self.counts = {}      # (stream, ep, outcome) -> n
        self.digests = []     # (digest, nontrivial)
        self.failures = []    # dict(key, stream, detail, witness)
        self.hung = {}        # ep -> hangs seen in this task
        self.calls = 0

    def note(self, stream, ep, outcome, digest_src, nontrivial):
        k = (stream, ep, outcome)
        self.counts[k] = self.counts.get(k, 0) + 1
        self.digests.append((hashlib.blake2b(digest_src.encode("utf8", "surrogatepass"), digest_size=8).digest(), nontrivial))
        self.calls += 1

    def fail(self, key, stream, detail, witness):
        if sum(1 for f in self.failures if f["key"] == key) < 3:
            self.failures.append({"key": key, "stream": stream, "detail": detail, "witness": witness})


# consumers: zero-argument public methods / properties of an accepted object that must stay inside the
# contract.  Names that mutate, sign, or leave the process are not consumers.
_CONSUMER_SKIP = re.compile(r"^(wipe|close|sort_|fetch|broadcast|sign|finalize|update|add_|set_|pop|clear|remove|append|extend|insert)")


def consumer_calls(obj):
    """[(name, thunk)] for the generic consumers of a btclib object"""
    out = []
    cls = type(obj)
    if not cls.__module__.startswith("btclib"):
        return out
    for name in sorted(dir(cls)):
        if name.startswith("_") or _CONSUMER_SKIP.search(name):
            continue
        raw = inspect.getattr_static(cls, name, None)
        if isinstance(raw, property):
            out.append((name, (lambda n=name: getattr(obj, n))))
        elif inspect.isfunction(raw):
            try:
                sig = inspect.signature(raw)
            except (TypeError, ValueError):
                continue
            ps = list(sig.parameters.values())[1:]
            if all(p.default is not inspect.Parameter.empty or p.kind in (p.VAR_POSITIONAL, p.VAR_KEYWORD) for p in ps):
                out.append((name + "()", (lambda n=name: getattr(obj, n)())))
                if any(p.name == "check_validity" for p in ps):
                    out.append((name + "(check_validity=False)", (lambda n=name: getattr(obj, n)(check_validity=False))))
    return out


def specific_consumers(obj):
    """the consumers DESIGN names: sighash, engine entry, sizes, ids — for Tx and Psbt"""
    out = []
    name = type(obj).__name__
    if name == "Tx":
        from btclib.script import sig_hash
        from btclib.script.engine import verify_input, verify_transaction
        from btclib.tx import TxOut
        spks = [bytes.fromhex("0014" + "11" * 20), bytes.fromhex("5120" + "22" * 32), bytes.fromhex("76a914" + "33" * 20 + "88ac"),
                bytes.fromhex("a914" + "44" * 20 + "87"), bytes.fromhex("0020" + "55" * 32), b"\x51", b""]
        n = len(obj.vin)
        if 0 < n <= 8:
            pick = (id(obj) >> 4) % len(spks)
            for k, spk in enumerate(spks):
                if k not in (pick, (pick + 3) % len(spks)):
                    continue
                prevouts = [TxOut(100_000, spk, check_validity=False) for _ in range(n)]
                for i in range(min(n, 2)):
                    for ht in (0, 1, 3, 0x82):
                        out.append((f"sig_hash.from_tx[{k},{i},{ht}]", (lambda p=prevouts, i=i, ht=ht: sig_hash.from_tx(p, obj, i, ht))))
                    out.append((f"verify_input[{k},{i}]", (lambda p=prevouts, i=i: verify_input(p, obj, i))))
                out.append((f"verify_transaction[{k}]", (lambda p=prevouts: verify_transaction(p, obj))))
    elif name == "Psbt":
        from btclib.psbt import psbt as P
        out += [("psbt.combine([x,x])", lambda: P.combine([obj, obj])),
                ("psbt.finalize", lambda: P.finalize(obj)),
                ("psbt.extract_tx", lambda: P.extract_tx(obj)),
                ("psbt.extract_tx(cv=False)", lambda: P.extract_tx(obj, check_validity=False)),
                ("psbt.prevouts", lambda: P.prevouts(obj)),
                ("psbt.assert_signed", lambda: P.assert_signed(obj, allow_partial=True))]
        for i in range(min(len(obj.inputs), 2)):
            out.append((f"psbt.ecdsa_sig_hash[{i}]", (lambda i=i: P.ecdsa_sig_hash(obj, i))))
        from btclib.psbt import silent_payments as SP
        out += [("sp.assert_eligibility_as_valid", lambda: SP.assert_eligibility_as_valid(obj)),
                ("sp.eligible_pub_keys", lambda: SP.eligible_pub_keys(obj)),
                ("sp.assert_shares_as_valid", lambda: SP.assert_shares_as_valid(obj)),
                ("sp.assert_output_scripts_as_valid", lambda: SP.assert_output_scripts_as_valid(obj)),
                ("sp.assert_as_valid", lambda: SP.assert_as_valid(obj)),
                ("sp.output_scripts", lambda: SP.output_scripts(obj))]
        for i in range(min(len(obj.inputs), 3)):
            out.append((f"sp.input_pub_key[{i}]", (lambda i=i: SP.input_pub_key(obj.inputs[i]))))
    elif name == "Block":
        out.append(("len(transactions)", lambda: len(obj.transactions)))
    return out


def exc_name(outcome):
    return outcome.split(":", 1)[1] if outcome.startswith("foreign:") else outcome


def call_spec(R: Recorder, stream: str, ep: str, args, kwargs=None, *, fn=None, bool_ret=False,
              consumers=True, stream_check=True, limit=WATCHDOG_S):
    """Drive one entry point with one argument spec; record the outcome; -> (outcome, value).
    A fraction of the calls is then repeated with one buffer argument in every spelling btclib.alias admits."""
    kwargs = kwargs or {}
    res = _call_spec(R, stream, ep, args, kwargs, fn=fn, bool_ret=bool_ret, consumers=consumers,
                     stream_check=stream_check, limit=limit)
    rng = R.spell_rng
    if rng is not None and res[0] not in ("skipped", "hang") and rng.random() < R.spell_rate:
        _respell(R, rng, ep, list(args), kwargs, fn, bool_ret, limit)
    return res


def _respell(R, rng, ep, args, kwargs, fn, bool_ret, limit):
    try:
        f = fn or resolve(ep)
    except (ImportError, AttributeError):
        return
    sig = _sig_of(ep, f)
    if sig is None:
        return
    params = [p for p in sig.parameters.values() if p.kind in (p.POSITIONAL_ONLY, p.POSITIONAL_OR_KEYWORD)]
    cands = []
    for i, a in enumerate(args):
        if i < len(params):
            kind, io_ok = param_kind(params[i].annotation)
            if kind:
                sp = spellings(a, kind, io_ok)
                if sp:
                    cands.append((("pos", i), sp))
    for k, v in kwargs.items():
        p = sig.parameters.get(k)
        if p is not None:
            kind, io_ok = param_kind(p.annotation)
            if kind:
                sp = spellings(v, kind, io_ok)
                if sp:
                    cands.append((("kw", k), sp))
    if not cands:
        return
    (where, key), sp = rng.choice(cands)
    base = None
    for name, spec in sp:
        a2, k2 = list(args), dict(kwargs)
        if where == "pos":
            a2[key] = spec
        else:
            k2[key] = spec
        outcome, value = _call_spec(R, "spell", ep, a2, k2, fn=fn, bool_ret=bool_ret, consumers=False,
                                    stream_check=False, limit=limit)
        if outcome in ("skipped", "hang") or outcome.startswith("foreign"):
            continue
        if name == "BytesIO":
            continue          # a caller's stream is not held to "no trailing bytes": only the class oracle applies
        if base is None:
            base = (name, outcome, value, a2, k2)
            continue
        same = (outcome == "ok") == (base[1] == "ok") and (outcome != "ok" or _same_value(base[2], value))
        if not same and outcome == "ok" == base[1]:
            # a randomised function (fresh identifiers, nonces) differs from itself: nothing to compare
            o3, v3 = _call_spec(R, "spell", ep, base[3], base[4], fn=fn, bool_ret=bool_ret, consumers=False,
                                stream_check=False, limit=limit)
            if o3 == "ok" and not _same_value(base[2], v3):
                return
        if not same:
            # the property asks for an answer or a library exception in EVERY spelling (a foreign exception in one of
            # them is already a finding of the class oracle); it does not ask that a str (text, stripped) and bytes
            # (exact) agree: disagreements are an informational count
            kind = "different-values" if outcome == "ok" == base[1] else "accepted-vs-refused"
            R.counts[("spell." + kind, ep, "noted")] = R.counts.get(("spell." + kind, ep, "noted"), 0) + 1


def _call_spec(R: Recorder, stream: str, ep: str, args, kwargs=None, *, fn=None, bool_ret=False,
               consumers=True, stream_check=True, limit=WATCHDOG_S):
    kwargs = kwargs or {}
    if R.hung.get(ep, 0) >= 2:
        return "skipped", None
    witness = {"ep": ep, "args": list(args), "kwargs": kwargs}
    try:
        f = fn or resolve(ep)
        if isinstance(f, property):
            f = f.fget
        a = [G.materialize(x) for x in args]
        kw = {k: G.materialize(v) for k, v in kwargs.items()}
    except G.ArgBuild as e:
        # an argument OBJECT (mutated) was answered by its own constructor: a library refusal means there is no
        # call to make; a foreign class is a finding about that constructor
        c = common.err_class(e.exc)
        R.counts[(stream, ep, "argument-refused")] = R.counts.get((stream, ep, "argument-refused"), 0) + 1
        if c.startswith("foreign:"):
            R.fail(f"{e.name}:{exc_name(c)}", stream,
                   f"{e.name} left through {exc_name(c)} ({str(e.exc)[:160]}) while building an argument of {ep}, on {G.short(witness)}",
                   witness)
        return "skipped", None
    except Exception as e:  # noqa: BLE001
        raise common.HarnessError(f"cannot build the call {ep} {G.short(witness)}: {type(e).__name__}: {e}") from e
    wfull = json.dumps(witness, default=str, sort_keys=True)
    _hb(wfull[:20000])
    outcome, value, exc = guarded(f, a, kw, limit)
    if outcome == "hang":
        # a call that really hangs (or blows up) does so again: the verdict is kept only if a second run of the same
        # call, on freshly built arguments, also uses up its time.  One slow run on a starved machine (several
        # thorough tiers at once: the wall-clock backstop, or profiling time charged to the process by other threads)
        # is counted, not reported.
        try:
            a2 = [G.materialize(x) for x in args]
            kw2 = {k: G.materialize(v) for k, v in kwargs.items()}
            outcome2, value2, exc2 = guarded(f, a2, kw2, limit)
        except G.ArgBuild:
            outcome2, value2, exc2 = "hang", None, None
        if outcome2 != "hang":
            R.counts[(stream, ep, "slow-once")] = R.counts.get((stream, ep, "slow-once"), 0) + 1
            outcome, value, exc = outcome2, value2, exc2
    dsrc = wfull[:3000]
    R.note(stream, ep, outcome if not outcome.startswith("foreign") else "foreign", dsrc, outcome == "ok")
    if outcome == "hang":
        R.hung[ep] = R.hung.get(ep, 0) + 1
        R.fail(f"{ep}:hang", stream, f"{ep} used more than {limit:.0f} s of CPU (or blocked) on {G.short(witness)}", witness)
        return outcome, None
    if outcome.startswith("foreign:"):
        R.fail(f"{ep}:{exc_name(outcome)}", stream,
               f"{ep} left through {exc_name(outcome)} ({str(exc)[:160]}) on {G.short(witness)}", witness)
        return outcome, None
    if outcome != "ok":
        if bool_ret and is_verifier(ep):
            R.fail(f"{ep}:raises:{type(exc).__name__}", stream,
                   f"boolean predicate {ep} raised {type(exc).__name__} ({str(exc)[:160]}) instead of answering, on {G.short(witness)}",
                   witness)
        return outcome, None
    if bool_ret and not isinstance(value, bool):
        R.fail(f"{ep}:not-bool", stream, f"{ep} answered {type(value).__name__}, not a bool, on {G.short(witness)}", witness)
    # a caller's stream: no more read than the parser NEEDS.  Judged on the encoded structure itself, not against
    # a re-serialization (a parser that is lax or normalising by design re-serializes shorter without having read
    # one byte too many):  (i) every byte consumed was needed -- the same stream cut one byte short of the position
    # reached must not give the same object;  (ii) nothing after the position reached was looked at -- with a
    # different tail the parser stops at the same position with the same object.
    if stream_check and a and isinstance(a[0], BytesIO) and type(value).__module__.startswith("btclib") \
            and type(value).__eq__ is not object.__eq__:
        pos = a[0].tell()
        buf = a[0].getvalue()
        if 0 < pos <= len(buf):
            o2, v2, _ = guarded(f, [BytesIO(buf[:pos - 1])] + a[1:], kw, limit)
            if o2 == "ok" and _same_value(value, v2):
                R.fail(f"{ep}:overread", stream,
                       f"{ep} consumed {pos} bytes of the caller's stream although the first {pos - 1} give the same object, "
                       f"on {G.short(witness)}", witness)
            tail = bytes((x ^ 0xFF) for x in buf[pos:pos + 16]) or b"\xff" * 8
            s3 = BytesIO(buf[:pos] + tail)
            o3, v3, _ = guarded(f, [s3] + a[1:], kw, limit)
            if len(buf) > pos and (o3 != "ok" or s3.tell() != pos or not _same_value(value, v3)):
                R.fail(f"{ep}:looks-past", stream,
                       f"{ep} stopped at byte {pos} of the caller's stream but answers differently ({o3}, position "
                       f"{s3.tell()}) when only the bytes AFTER that position change, on {G.short(witness)}", witness)
    if consumers and value is not None and type(value).__module__.startswith("btclib"):
        from . import c19_matrix as M
        # the introspected matrix on every accepted object of the `matrix` group (and of a replay), on one in eight elsewhere
        mrows = M.matrix_consumers(value) if len(wfull) % 8 == 0 or stream in ("replay", "matrix") else []
        for cname, thunk in consumer_calls(value) + specific_consumers(value) + mrows:
            _hb(wfull[:20000], cname)
            o3, _, e3 = guarded(thunk, (), {})
            if cname.endswith(")") and "(" in cname and not cname.endswith("()") and "[" not in cname and "=" not in cname:
                R.counts[("consumers.matrix", cname, "calls")] = R.counts.get(("consumers.matrix", cname, "calls"), 0) + 1
            R.counts[(stream + ".consumers", ep, o3 if not o3.startswith("foreign") else "foreign")] = \
                R.counts.get((stream + ".consumers", ep, o3 if not o3.startswith("foreign") else "foreign"), 0) + 1
            if o3 == "hang":
                R.fail(f"{ep}->{cname}:hang", stream, f"accepted by {ep}, then {cname} did not return, on {G.short(witness)}",
                       dict(witness, consumer=cname))
            elif o3.startswith("foreign:"):
                R.fail(f"{ep}->{_generic(cname)}:{exc_name(o3)}", stream,
                       f"accepted by {ep}, then consumer {cname} left through {exc_name(o3)} ({str(e3)[:160]}) on {G.short(witness)}",
                       dict(witness, consumer=cname))
    return outcome, value


def _generic(cname):
    return re.sub(r"\[.*\]", "", cname)


def _ser(v):
    for kw in ({"check_validity": False}, {"include_witness": True, "check_validity": False}, {}):
        try:
            return v.serialize(**kw)
        except TypeError:
            continue
    return v.serialize()


def _replay_child(w, q):
    install_watchdog()
    R = Recorder()
    eps = enumerate_entry_points()
    info = eps.get(w["ep"])
    call_spec(R, "replay", w["ep"], w["args"], w.get("kwargs") or {}, bool_ret=bool(info and info["bool_ret"]))
    q.put((False, R.failures[0]["detail"]) if R.failures else (True, "inside the contract"))


def replay_call(w):
    """ORACLES['call']: re-run one recorded call under the same oracle, in a child process (a call that no
    signal can interrupt must not take the checker with it) -> (ok, detail)"""
    import multiprocessing
    mp = multiprocessing.get_context("fork")
    q = mp.Queue()
    p = mp.Process(target=_replay_child, args=(w, q))
    p.start()
    p.join(90)
    if p.is_alive():
        p.kill()
        p.join()
        return False, f"{w['ep']} did not return within 90 s and could not be interrupted"
    try:
        return q.get(timeout=5)
    except Exception:  # noqa: BLE001
        return False, f"{w['ep']}: the replay process died (exit code {p.exitcode})"
