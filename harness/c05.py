"""C05 — wire formats are canonical (DESIGN §3 C05)."""
from __future__ import annotations

from io import BytesIO

from btclib import var_int

from . import common
from .common import hx, unhx

PROP = "C05"
EXE = "drv_c05"
GEN_MODULES = ["VarInt"]
RULE = ("op lines are generated from one seeded PRNG: boundary-heavy integers and structure-aware byte "
        "mutations of valid encodings; a case is non-trivial when the implementation did not refuse it at "
        "the first check; distinct = distinct (stream, op line)")
TRUSTED = ["hand-written parser models are tied by correspondence only (Model/C05/*.lean)"]
ASSUMPTIONS = []


# ------------------------------------------------------------------ implementation side
def _varint_parse(b: bytes, max_size: int) -> str:
    s = BytesIO(b)
    try:
        v = var_int.parse(s, max_size)
    except Exception as e:  # noqa: BLE001
        c = common.err_class(e)
        if c != "value":
            return "err " + c
        msg = str(e)
        kind = ("short" if "not enough" in msg else "noncanonical" if "non-canonical" in msg
                else "toobig" if "too big" in msg else "other")
        return "err " + kind
    return f"ok {v} {hx(s.read())}"


def impl(line: str) -> str:
    t = line.split(" ")
    if t[0] == "varint.parse":
        return _varint_parse(unhx(t[1]), int(t[2]))
    return "bad-op"


# ------------------------------------------------------------------ property oracles (real code only)
def _o_varint_roundtrip(w):
    i = w["i"]
    try:
        b = var_int.serialize(i)
    except Exception as e:  # noqa: BLE001
        ok = common.err_class(e) == "value" and not (0 <= i < 2**64)
        return ok, f"serialize({i}) raised {type(e).__name__}"
    rest = bytes.fromhex(w.get("rest", ""))
    s = BytesIO(b + rest)
    try:
        v = var_int.parse(s, 2**64)
    except Exception as e:  # noqa: BLE001
        return False, f"parse(serialize({i})) raised {type(e).__name__}: {e}"
    ok = v == i and s.read() == rest and var_int._size(i) == len(b)
    return ok, f"i={i} parsed={v} size={var_int._size(i)} len={len(b)}"


def _o_varint_canonical(w):
    b = bytes.fromhex(w["b"])
    s = BytesIO(b)
    try:
        v = var_int.parse(s, 2**64)
    except Exception as e:  # noqa: BLE001
        return (common.err_class(e) == "value"), f"raised {type(e).__name__}"
    used = len(b) - len(s.read())
    return var_int.serialize(v) == b[:used], f"accepted {b[:used].hex()} as {v}"


ORACLES = {"varint.roundtrip": _o_varint_roundtrip, "varint.canonical": _o_varint_canonical}


# ------------------------------------------------------------------ run
def run(ctx):
    rng = ctx.rng
    ints = [v for v in common.boundary_ints(rng, extra=[0xFD, 0xFFFF, 0xFFFFFFFF, 2**64 - 1, var_int.MAX_SIZE])]
    for i in ints:
        ctx.check("varint.roundtrip", {"i": i, "rest": hx(common.rand_bytes(rng, rng.randrange(3))).replace("_", "")},
                  nontrivial=0 <= i < 2**64)
    lines = []
    maxes = [var_int.MAX_SIZE, 0, 1, 252, 253, 2**32, 2**64]
    for _ in range(ctx.n(3000)):
        r = rng.random()
        if r < 0.5:
            v = rng.choice(ints) if rng.random() < 0.5 else common.rand_int(rng, signed=False)
            v = abs(v) % 2**64
            b = var_int.serialize(v) + common.rand_bytes(rng, rng.randrange(4))
            if rng.random() < 0.3 and b:
                k = rng.randrange(len(b))
                b = b[:k] if rng.random() < 0.5 else b[:k] + bytes([b[k] ^ (1 << rng.randrange(8))]) + b[k + 1:]
        elif r < 0.8:
            pre = rng.choice([0xFC, 0xFD, 0xFE, 0xFF])
            width = {0xFC: 0, 0xFD: 2, 0xFE: 4, 0xFF: 8}[pre]
            v = rng.choice([0, 1, 0xFC, 0xFD, 0xFFFF, 0x10000, 0xFFFFFFFF, 0x100000000, rng.getrandbits(8 * width or 1)])
            body = (v % (256 ** width)).to_bytes(width, "little") if width else b""
            b = bytes([pre]) + body[:rng.choice([width, width, max(0, width - 1)])] + common.rand_bytes(rng, rng.randrange(3))
        else:
            b = common.rand_bytes(rng, rng.randrange(12))
        lines.append(f"varint.parse {hx(b)} {rng.choice(maxes)}")
        ctx.check("varint.canonical", {"b": b.hex()})
    ctx.stream("varint.parse", lines)
