"""C05 — wire formats are canonical (DESIGN §3 C05).

Correspondence streams (model `lean/Model/C05/*` vs the real btclib, same op lines):
  varint.parse                         CompactSize parser under every cap
  <class>.parse s|o <hex>              stream mode (BytesIO in, unread rest out) / octets mode
      (assert_no_trailing) for varbytes, outpoint, witness, txin, txout, tx, header, block, psbtmap,
      msg (p2p envelope), ping, feefilter, netaddr, addr, inventory, inv, getheaders, headers, version,
      xkey (BIP32KeyData), keyorigin, ssasig, bmssig; on acceptance the line also carries
      the model's own re-serialization and size of the parsed object (and for tx: stripped form, both
      sizes, weight, vsize, txid, wtxid).  These lines tie the PARSER (and size/weight/ids); on them the
      printed `ser=` is by T2 the consumed input, i.e. btclib's own round trip.
  <class>.ser                          the SERIALIZER tie: objects built by the constructors from generated
      fields (btclib's parser not involved); the model must parse `x.serialize()` to an object rendering as
      `x`, which with T2 of the model gives model.ser(x) == x.serialize()
  psbtmap.norm                         sorted re-emission of one PSBT input map
  psbtin.reser0|2, psbtout.reser0|2, psbtglobal.reser   typed layer: `X.parse(b).serialize()` on every map, records
      the codec normalises away included; EVERY refusal is compared (the model carries the checks that run whatever
      check_validity says: Tx.assert_valid, MoneyRange, hd key lengths, duplicated key origins); reasons are counted
  psbtin.reserv|psbtout.reserv <ver>   the same at any version number (only 0 and 2 are admitted)
  psbtin|psbtout|psbtglobal.torecs <ver> <whole>,<keyed>,<unknown>   objects built by the CONSTRUCTORS (no parser),
      each field's value through btclib's own field serializer; the model runs its serialize loop (version gate,
      finalizer rule, truthiness, order) on the same fields
  json.<class>.to / json.<class>.from  the JSON form of OutPoint, Witness, TxIn, TxOut, Tx: see harness/c05_json.py
Property oracles on the real code alone: `harness/c05_oracles.py` (round trips of every class with a
parse/serialize or to_dict/from_dict pair) and the ones below.
"""
from __future__ import annotations

import hashlib
import os
import re
from io import BytesIO

from btclib import var_bytes, var_int
from btclib.block import Block, BlockHeader
from btclib.script import Witness
from btclib.tx import OutPoint, Tx, TxIn, TxOut

from . import common
from .common import hx, unhx

PROP = "C05"
EXE = "drv_c05"
GEN_MODULES = ["VarInt", "Wire"]
RULE = ("op lines are generated from one seeded PRNG: valid objects built field by field with boundary "
        "values (integer extremes, CompactSize widths of every count/length), vendored encodings from "
        "/repo/tests, and structure-aware byte mutations of both (truncation at field boundaries, "
        "extension, length/count/marker/flag edits, non-minimal CompactSize, marker insertion/removal, "
        "all-empty witness sections); a case is non-trivial when the implementation did not refuse it; "
        "distinct = distinct (stream, op line)")
TRUSTED = ["hand-written parser/serializer models are tied by correspondence only (Model/C05/*.lean)",
           "tools/specs/wire.py reads the PSBT tables off the syntax trees of psbt_in/psbt_out/psbt (raises on an unknown shape)",
           "torecs streams: the value octets of each field come from btclib's own per-field serializers",
           "datetime.fromtimestamp/timestamp as a bijection on 0..2^32-1 (BlockHeader.time)",
           "SHA-256 of the driver (Model/Common/Sha256.lean) is modelled, validated against hashlib by the id streams",
           "JSON text layer (json module), base64, Base58Check: not modelled; round-trip oracles only"]
ASSUMPTIONS = []


# ------------------------------------------------------------------ error kinds
def kind_of(e: BaseException) -> str:
    c = common.err_class(e)
    msg = str(e)
    if c == "runtime":
        if "incomplete message" in msg:
            return "incomplete"
        return "shortbytes" if "not enough binary data" in msg else "runtime:" + msg[:40]
    if c != "value":
        return c
    if "not enough" in msg:
        return "short"
    if "non-canonical" in msg:
        return "noncanonical"
    if "too big" in msg:
        return "toobig"
    if "superfluous witness" in msg:
        return "superfluous"
    if "bytes after the" in msg:
        return "trailing"
    if "invalid decoded length" in msg:
        return "badlength"
    if "at least a map is missing" in msg:
        return "nomap"
    if "unterminated map" in msg:
        return "unterminated"
    if "duplicated key" in msg:
        return "dupkey"
    if "not a multiple of 4-bytes" in msg:
        return "invalid"
    if " count: " in msg and "invalid" in msg:
        return "badcount"
    if "invalid relay flag" in msg or "invalid announce octet" in msg:
        return "badflag"
    if "invalid checksum" in msg:
        return "badchecksum"
    if "command" in msg:
        return "badcommand"
    if "invalid payload length" in msg:
        return "toobig"
    return "value:" + msg[:40]


# ------------------------------------------------------------------ renderers (mirror Driver/C05Main.lean)
def join_with(sep, items, empty="-"):
    return sep.join(items) if items else empty


def r_outpoint(o):
    return f"{hx(o.tx_id)}:{o.vout}"


def r_witness(w):
    return join_with(",", [hx(x) for x in w.stack])


def r_txin(i):
    return f"{r_outpoint(i.prev_out)}/{hx(i.script_sig)}/{i.sequence}/{r_witness(i.script_witness)}"


def r_txout(o):
    return f"{o.value}/{hx(o.script_pub_key.script)}"


def r_tx(t):
    return (f"v={t.version} l={t.lock_time} in=[{join_with(';', [r_txin(i) for i in t.vin])}] "
            f"out=[{join_with(';', [r_txout(o) for o in t.vout])}]")


def r_header(h):
    return (f"{h.version}/{hx(h.previous_block_hash)}/{hx(h.merkle_root)}/{int(h.time.timestamp())}/"
            f"{hx(h.bits)}/{h.nonce}")


def h256(b):
    return hashlib.sha256(hashlib.sha256(b).digest()).digest()


def _tx_extra(t):
    s0 = t.serialize(include_witness=False, check_validity=False)
    return (f" stripped={hx(s0)} ssize={t._serialized_size(include_witness=False)} weight={t.weight} "
            f"vsize={t.vsize} id={hx(t.id)} wid={hx(t.hash)} segwit={'true' if t.is_segwit else 'false'}")


def _block_extra(b):
    return (f" ssize={b.stripped_size} weight={b.weight} "
            f"stripped={hx(h256(b.serialize(include_witness=False, check_validity=False)))} "
            f"segwit={'true' if b.is_segwit else 'false'}")


def _r_block(b):
    return (f"{r_header(b.header)} n={len(b.transactions)} "
            f"txs={hx(h256(''.join(r_tx(t) for t in b.transactions).encode()))}")


class _VarBytes:
    """var_bytes as a class-shaped codec for the generic runner."""

    @staticmethod
    def parse(data, check_validity=False):
        s = data if isinstance(data, BytesIO) else BytesIO(data)
        v = var_bytes.parse(s)
        if not isinstance(data, BytesIO) and s.read():
            from btclib.exceptions import BTClibValueError
            raise BTClibValueError("1 bytes after the var_bytes")
        return v


def _r_xkey(k):
    return f"{hx(k.version)}/{k.depth}/{hx(k.parent_fingerprint)}/{k.index}/{hx(k.chain_code)}/{hx(k.key)}"


def _xkey_parse(d):
    from btclib.bip32 import BIP32KeyData
    return BIP32KeyData.parse(d, check_validity=False)


def _r_netaddr(a):
    return f"{int(a.services)}/{hx(a.ip.packed)}/{a.port}"


def _r_inventory(i):
    return f"{int(i.type_code)}:{hx(i.hash)}"


def _r_version(v):
    r = "-" if v.relay is None else ("1" if v.relay else "0")
    return (f"{v.version}/{int(v.services)}/{v.timestamp}/{_r_netaddr(v.addr_recv)}/{_r_netaddr(v.addr_from)}/"
            f"{v.nonce}/{hx(v.user_agent)}/{v.start_height}/{r}")


def _p2p(name):
    import btclib.p2p as P
    cls = getattr(P, name)
    return lambda d: cls.parse(d, check_validity=False)


def _ser(o):
    return o.serialize(check_validity=False)


def _len_ser(o):
    return len(o.serialize(check_validity=False))


P2P_CLASSES = {
    "msg.parse": (_p2p("Message"), lambda m: f"{hx(m.magic)}/{hx(m.command.encode('ascii'))}/{hx(m.payload)}", _ser, _len_ser, None),
    "ping.parse": (_p2p("Ping"), lambda o: str(o.nonce), _ser, _len_ser, None),
    "feefilter.parse": (_p2p("FeeFilter"), lambda o: str(o.feerate), _ser, _len_ser, None),
    "netaddr.parse": (_p2p("NetworkAddress"), _r_netaddr, _ser, _len_ser, None),
    "addr.parse": (_p2p("Addr"), lambda o: join_with(";", [f"{a.timestamp}@{_r_netaddr(a.address)}" for a in o.addresses]),
                   _ser, _len_ser, None),
    "inventory.parse": (_p2p("Inventory"), _r_inventory, _ser, _len_ser, None),
    "inv.parse": (_p2p("Inv"), lambda o: join_with(";", [_r_inventory(i) for i in o.items]), _ser, _len_ser, None),
    "getheaders.parse": (_p2p("GetHeaders"),
                         lambda o: f"{o.version}/[{join_with(',', [hx(h) for h in o.locator])}]/{hx(o.hash_stop)}",
                         _ser, _len_ser, None),
    "headers.parse": (_p2p("Headers"), lambda o: join_with(";", [r_header(h) for h in o.headers]), _ser, _len_ser, None),
    "version.parse": (_p2p("Version"), _r_version, _ser, _len_ser, None),
    "sendcmpct.parse": (_p2p("SendCmpct"), lambda o: f"{int(o.announce)}/{o.version}", _ser, _len_ser, None),
    "getcfilters.parse": (_p2p("GetCFilters"), lambda o: f"{int(o.filter_type)}/{o.start_height}/{hx(o.stop_hash)}", _ser, _len_ser, None),
    "cfilter.parse": (_p2p("CFilter"), lambda o: f"{int(o.filter_type)}/{hx(o.block_hash)}/{hx(o.filter_bytes)}", _ser, _len_ser, None),
    "cfheaders.parse": (_p2p("CFHeaders"),
                        lambda o: f"{int(o.filter_type)}/{hx(o.stop_hash)}/{hx(o.previous_filter_header)}/[{join_with(',', [hx(h) for h in o.filter_hashes])}]",
                        _ser, _len_ser, None),
    "getcfcheckpt.parse": (_p2p("GetCFCheckpt"), lambda o: f"{int(o.filter_type)}/{hx(o.stop_hash)}", _ser, _len_ser, None),
    "cfcheckpt.parse": (_p2p("CFCheckpt"),
                        lambda o: f"{int(o.filter_type)}/{hx(o.stop_hash)}/[{join_with(',', [hx(h) for h in o.filter_headers])}]",
                        _ser, _len_ser, None),
}


CLASSES = {
    # op: (parse(data)->obj, render, serialize(obj), size(obj), extra(obj))
    "xkey.parse": (_xkey_parse, _r_xkey, lambda o: o.serialize(check_validity=False), lambda o: 78, None),
    "varbytes.parse": (lambda d: _VarBytes.parse(d), hx, var_bytes.serialize, var_bytes._size, None),
    "outpoint.parse": (lambda d: OutPoint.parse(d, check_validity=False), r_outpoint,
                       lambda o: o.serialize(check_validity=False), lambda o: o._serialized_size(), None),
    "witness.parse": (lambda d: Witness.parse(d, check_validity=False), r_witness,
                      lambda o: o.serialize(check_validity=False), lambda o: o._serialized_size(), None),
    "txin.parse": (lambda d: TxIn.parse(d, check_validity=False), r_txin,
                   lambda o: o.serialize(check_validity=False), lambda o: o._serialized_size(), None),
    "txout.parse": (lambda d: TxOut.parse(d, check_validity=False), r_txout,
                    lambda o: o.serialize(check_validity=False), lambda o: o._serialized_size(), None),
    "tx.parse": (lambda d: Tx.parse(d, check_validity=False), r_tx,
                 lambda o: o.serialize(include_witness=True, check_validity=False), lambda o: o.size, _tx_extra),
    "header.parse": (lambda d: BlockHeader.parse(d, check_validity=False), r_header,
                     lambda o: o.serialize(check_validity=False), lambda o: o._serialized_size(),
                     lambda o: f" hash={hx(o.hash)}"),
    "block.parse": (lambda d: Block.parse(d, check_validity=False), _r_block,
                    lambda o: o.serialize(include_witness=True, check_validity=False), lambda o: o.size,
                    _block_extra),
}


def _ssa_parse(d):
    from btclib.ecc import ssa
    return ssa.Sig.parse(d, check_validity=False)


def _bms_parse(d):
    from btclib.ecc import bms
    return bms.Sig.parse(d, check_validity=False)


def _ko_parse(d):
    from btclib.bip32 import BIP32KeyOrigin
    return BIP32KeyOrigin.parse(d, check_validity=False)


CLASSES.update(P2P_CLASSES)
CLASSES.update({
    "ssasig.parse": (_ssa_parse, lambda o: f"{o.r}/{o.s}", _ser, _len_ser, None),
    "bmssig.parse": (_bms_parse, lambda o: f"{o.rf}/{o.dsa_sig.r}/{o.dsa_sig.s}", _ser, _len_ser, None),
    "keyorigin.parse": (_ko_parse, lambda o: f"{hx(o.master_fingerprint)}/[{join_with(',', [str(i) for i in o.der_path])}]",
                        _ser, _len_ser, None),
})
OCTETS_ONLY = {"version.parse", "keyorigin.parse"}


def run_class(op: str, mode: str, b: bytes) -> str:
    parse, render, ser, size, extra = CLASSES[op]
    try:
        if mode == "s":
            s = BytesIO(b)
            obj = parse(s)
            rest = s.read()
        else:
            obj = parse(b)
            rest = b""
    except Exception as e:  # noqa: BLE001 - the class and message are the observation
        return "err " + kind_of(e)
    try:  # an accepted object that then fails to serialize is an observation, not a harness crash
        tail = f"ser={hx(ser(obj))} size={size(obj)}{extra(obj) if extra else ''}"
    except Exception as e:  # noqa: BLE001
        tail = f"ser=!{type(e).__name__}"
    return f"ok {render(obj)} rest={hx(rest)} {tail}"


def _varint_parse(b: bytes, max_size: int) -> str:
    s = BytesIO(b)
    try:
        v = var_int.parse(s, max_size)
    except Exception as e:  # noqa: BLE001
        return "err " + kind_of(e)
    return f"ok {v} {hx(s.read())}"


def impl(line: str) -> str:
    t = line.split(" ")
    if t[0] == "varint.parse":
        return _varint_parse(unhx(t[1]), int(t[2]))
    if t[0] in CLASSES and len(t) == 3:
        return run_class(t[0], t[1], unhx(t[2]))
    from . import c05_extra
    if t[0] in c05_extra.OPS and len(t) == 3:
        return c05_extra.OPS[t[0]](t[1], unhx(t[2]))
    return "bad-op"   # json.* lines are answered from the objects / dicts themselves (harness/c05_json.py)


# ------------------------------------------------------------------ property oracles (real code only)
def _o_varint_roundtrip(w):
    i = w["i"]
    try:
        b = var_int.serialize(i)
    except Exception as e:  # noqa: BLE001
        ok = common.err_class(e) == "value" and not (0 <= i < 2**64)
        return ok, f"serialize({i}) raised {type(e).__name__}"
    rest = bytes.fromhex(w.get("rest", ""))
    s = BytesIO(b + rest)
    try:
        v = var_int.parse(s, 2**64)
    except Exception as e:  # noqa: BLE001
        return False, f"parse(serialize({i})) raised {type(e).__name__}: {e}"
    ok = v == i and s.read() == rest and var_int._size(i) == len(b)
    return ok, f"i={i} parsed={v} size={var_int._size(i)} len={len(b)}"


def _o_varint_canonical(w):
    b = bytes.fromhex(w["b"])
    s = BytesIO(b)
    try:
        v = var_int.parse(s, 2**64)
    except Exception as e:  # noqa: BLE001
        return (common.err_class(e) == "value"), f"raised {type(e).__name__}"
    used = len(b) - len(s.read())
    return var_int.serialize(v) == b[:used], f"accepted {b[:used].hex()} as {v}"


def _o_wire_canonical(w):
    """T2 on the real code: whatever `X.parse` accepts (stream mode) re-serializes to exactly the bytes it
    consumed, its size is their number, and octets mode accepts iff nothing is left."""
    op, b = w["op"], bytes.fromhex(w["b"])
    parse, _render, ser, size, _ = CLASSES[op]
    s = BytesIO(b)
    try:
        obj = parse(b) if op in OCTETS_ONLY else parse(s)
    except Exception as e:  # noqa: BLE001
        c = common.err_class(e)
        return c in ("value", "runtime"), f"{op} refused with {type(e).__name__}: {str(e)[:80]}"
    used = len(b) if op in OCTETS_ONLY else len(b) - len(s.read())
    try:
        out = ser(obj)
    except Exception as e:  # noqa: BLE001
        return False, f"{op} accepted {b[:used].hex()[:120]} but serialize raised {type(e).__name__}: {e}"
    if out != b[:used]:
        return False, f"{op} accepted {b[:used].hex()[:120]} but re-serializes to {out.hex()[:120]}"
    if size(obj) != used:
        return False, f"{op} size {size(obj)} != {used} bytes consumed"
    try:
        parse(b)
        whole = True
    except Exception:  # noqa: BLE001
        whole = False
    if whole != (used == len(b)):
        return False, f"{op} octets mode accepted={whole} with {len(b) - used} trailing bytes"
    return True, f"{op} accepted {used} bytes"


def _o_wire_roundtrip(w):
    """T1 on the real code: parse(serialize(x) ‖ rest) == (x, rest) for the object x = parse(b)."""
    op, b, rest = w["op"], bytes.fromhex(w["b"]), bytes.fromhex(w.get("rest", ""))
    parse, _render, ser, _size, _ = CLASSES[op]
    if op in OCTETS_ONLY:
        rest = b""
    try:
        x = parse(b)
    except Exception as e:  # noqa: BLE001
        return common.err_class(e) in ("value", "runtime"), "not an encoding"
    try:
        out = ser(x)
    except Exception as e:  # noqa: BLE001
        return False, f"{op}: serialize(parse(b)) raised {type(e).__name__}: {e}"
    s = BytesIO(out + rest)
    try:
        y = parse(out) if op in OCTETS_ONLY else parse(s)
    except Exception as e:  # noqa: BLE001
        return False, f"{op}: parse(serialize(x)) raised {type(e).__name__}: {e}"
    left = b"" if op in OCTETS_ONLY else s.read()
    return (y == x and left == rest), f"{op}: equal={y == x} rest_ok={left == rest}"


ORACLES = {"varint.roundtrip": _o_varint_roundtrip, "varint.canonical": _o_varint_canonical,
           "wire.canonical": _o_wire_canonical, "wire.roundtrip": _o_wire_roundtrip}

from . import c05_extra  # noqa: E402
ORACLES.update(c05_extra.ORACLES)

try:  # direct round-trip oracles for every class with a parse/serialize or to_dict/from_dict pair
    from . import c05_oracles
    ORACLES.update(c05_oracles.ORACLES)
except ImportError:  # pragma: no cover
    c05_oracles = None


# ------------------------------------------------------------------ generators
class Parts:
    """A serialization kept as named parts, so that mutations know the field boundaries."""

    def __init__(self):
        self.parts = []  # (kind, bytes) kind in {"int","count","len","bytes","marker","hash"}

    def add(self, kind, b):
        self.parts.append((kind, bytes(b)))
        return self

    def extend(self, other):
        self.parts += other.parts
        return self

    def bytes(self):
        return b"".join(b for _, b in self.parts)

    def boundaries(self):
        out, n = [0], 0
        for _, b in self.parts:
            n += len(b)
            out.append(n)
        return out


def vi(n):
    return var_int.serialize(n)


LEN_CHOICES = [0, 0, 1, 1, 2, 5, 20, 22, 34, 75, 76, 107, 252, 253, 254, 255, 256, 520]


BIG_P = 0.004   # probability of a 64 KiB script (CompactSize width 3 -> 5); raised in the thorough tier


def g_script(rng, big_ok=False):
    n = rng.choice(LEN_CHOICES)
    if big_ok and rng.random() < BIG_P:
        n = rng.choice([65535, 65536])
    return common.rand_bytes(rng, n) if n < 600 else bytes([rng.getrandbits(8)]) * n


def g_u32(rng):
    return rng.choice([0, 1, 2, 0xFFFFFFFE, 0xFFFFFFFF, 0x80000000, 0x7FFFFFFF, rng.getrandbits(32), rng.getrandbits(8)])


def p_outpoint(rng):
    txid = rng.choice([b"\x00" * 32, b"\xff" * 32, common.rand_bytes(rng, 32)])
    return Parts().add("hash", txid).add("int", g_u32(rng).to_bytes(4, "little"))


def p_varbytes(rng, big_ok=False):
    s = g_script(rng, big_ok)
    return Parts().add("len", vi(len(s))).add("bytes", s)


def p_txin(rng):
    return p_outpoint(rng).extend(p_varbytes(rng, True)).add("int", g_u32(rng).to_bytes(4, "little"))


def g_amount(rng):
    return rng.choice([0, 1, 546, 5000000000, 2099999997690000, 2099999997690001, 2**63 - 1, -1, -2**63,
                       rng.getrandbits(40), rng.getrandbits(63)])


def p_txout(rng):
    return Parts().add("int", g_amount(rng).to_bytes(8, "little", signed=True)).extend(p_varbytes(rng, True))


def p_witness(rng, allow_empty=True):
    n = rng.choice([0, 1, 1, 2, 2, 3, 5]) if allow_empty else rng.choice([1, 2, 3])
    if rng.random() < 0.01:
        n = rng.choice([252, 253])
    p = Parts().add("count", vi(n))
    # a stack of empty items only (`Witness([b""])`) is a non-empty stack: `is_segwit` is about the stack
    hollow = n > 0 and rng.random() < 0.15
    for _ in range(n):
        p.extend(p_varbytes(rng) if n < 50 and not hollow else Parts().add("len", b"\x00"))
    return p


def p_tx(rng, force=None):
    nin = rng.choice([1, 1, 1, 2, 3, 0])
    nout = rng.choice([1, 1, 2, 3, 0])
    r = rng.random()
    if r < 0.015:
        nin = rng.choice([252, 253])
    elif r < 0.03:
        nout = rng.choice([252, 253])
    if force == "segwit":
        nin = max(nin, 1)
    segwit = nin > 0 and (rng.random() < 0.5 if force is None else force == "segwit")
    p = Parts().add("int", g_u32(rng).to_bytes(4, "little"))
    if segwit:
        p.add("marker", b"\x00\x01")
    p.add("count", vi(nin))
    small = nin > 50
    for _ in range(nin):
        p.extend(p_outpoint(rng).add("len", b"\x00").add("int", b"\xff" * 4) if small else p_txin(rng))
    p.add("count", vi(nout))
    for _ in range(nout):
        p.extend(Parts().add("int", b"\x01" + b"\x00" * 7).add("len", b"\x00") if nout > 50 else p_txout(rng))
    if segwit:
        some = False
        for k in range(nin):
            w = p_witness(rng)
            if k == nin - 1 and not some and w.parts[0][1] == b"\x00":
                w = p_witness(rng, allow_empty=False)
            some = some or w.parts[0][1] != b"\x00"
            p.extend(w)
    p.add("int", g_u32(rng).to_bytes(4, "little"))
    return p


def p_header(rng):
    v = rng.choice([1, 2, 0x20000000, 0x7FFFFFFF, -1, 0, -2**31, rng.getrandbits(31)])
    t = rng.choice([0, 1231006505, 2**32 - 1, rng.getrandbits(32)])
    return (Parts().add("int", v.to_bytes(4, "little", signed=True)).add("hash", common.rand_bytes(rng, 32))
            .add("hash", common.rand_bytes(rng, 32)).add("int", t.to_bytes(4, "little"))
            .add("hash", rng.choice([bytes.fromhex("ffff001d"), common.rand_bytes(rng, 4)]))
            .add("int", g_u32(rng).to_bytes(4, "little")))


def p_block(rng):
    n = rng.choice([0, 1, 2, 3])
    p = p_header(rng).add("count", vi(n))
    shape = rng.choice(["any", "any", "first-only", "first-only", "later-only", "none"])
    for k in range(n):
        if shape == "any":
            force = None
        elif shape == "first-only":   # a witness in the coinbase position only
            force = "segwit" if k == 0 else "plain"
        elif shape == "later-only":
            force = "plain" if k == 0 else "segwit"
        else:
            force = "plain"
        p.extend(p_tx(rng, force))
    return p


def p_xkey(rng):
    ver = rng.choice([bytes.fromhex("0488b21e"), bytes.fromhex("0488ade4"), bytes.fromhex("043587cf"), common.rand_bytes(rng, 4)])
    key = rng.choice([b"\x00", b"\x02", b"\x03"]) + common.rand_bytes(rng, 32)
    return (Parts().add("bytes", ver).add("int", bytes([rng.choice([0, 1, 255, rng.getrandbits(8)])]))
            .add("bytes", common.rand_bytes(rng, 4)).add("int", g_u32(rng).to_bytes(4, "big"))
            .add("hash", common.rand_bytes(rng, 32)).add("bytes", key))


def p_msg(rng):
    cmd = rng.choice([b"version", b"verack", b"ping", b"inv", b"sendaddrv2x", b"", b"twelve_bytes", common.rand_bytes(rng, 3)])
    if rng.random() < 0.15:
        cmd = bytes(rng.randrange(32, 127) for _ in range(rng.randrange(0, 13)))
    pay = common.rand_bytes(rng, rng.choice([0, 0, 1, 8, 36, 300]))
    bad = rng.random()
    raw = cmd.ljust(12, b"\x00")
    if bad < 0.08:
        raw = cmd[:5] + b"\x00" + b"x" + b"\x00" * 12
        raw = raw[:12]                                      # text after the padding
    elif bad < 0.14:
        raw = (bytes([rng.choice([1, 31, 127, 200])]) + cmd).ljust(12, b"\x00")[:12]   # non-printable
    chk = h256(pay)[:4]
    if 0.14 <= bad < 0.3:
        j = rng.randrange(4)
        chk = chk[:j] + bytes([chk[j] ^ (1 << rng.randrange(8))]) + chk[j + 1:]
    ln = len(pay)
    if 0.3 <= bad < 0.35:
        ln = rng.choice([4_000_001, 2**32 - 1, len(pay) + 1])
    return (Parts().add("hash", rng.choice([bytes.fromhex("f9beb4d9"), common.rand_bytes(rng, 4)])).add("bytes", raw)
            .add("int", ln.to_bytes(4, "little")).add("hash", chk).add("bytes", pay))


def p_netaddr(rng):
    ip = rng.choice([b"\x00" * 16, b"\x00" * 10 + b"\xff\xff" + common.rand_bytes(rng, 4), common.rand_bytes(rng, 16)])
    return (Parts().add("int", rng.choice([0, 1, 1033, 2**64 - 1, rng.getrandbits(64)]).to_bytes(8, "little"))
            .add("hash", ip).add("int", rng.choice([0, 8333, 65535, rng.getrandbits(16)]).to_bytes(2, "big")))


def _count(rng, small, cap):
    r = rng.random()
    if r < 0.9:
        return rng.choice(small)
    return rng.choice([cap, cap + 1, 252, 253])


def p_addr(rng):
    n = _count(rng, [0, 1, 2, 3], 1000)
    p = Parts().add("count", vi(n))
    for _ in range(n if n < 300 else 3):
        p.add("int", g_u32(rng).to_bytes(4, "little")).extend(p_netaddr(rng))
    return p


def p_inventory(rng):
    t = rng.choice([0, 1, 2, 3, 4, 5, 0x40000001, 0x40000002, 2**32 - 1, rng.getrandbits(32)])
    return Parts().add("int", t.to_bytes(4, "little")).add("hash", common.rand_bytes(rng, 32))


def p_inv(rng):
    n = _count(rng, [0, 1, 2, 5], 50000)
    p = Parts().add("count", vi(n))
    for _ in range(n if n < 300 else 2):
        p.extend(p_inventory(rng))
    return p


def p_getheaders(rng):
    n = _count(rng, [0, 1, 2, 10], 101)
    n = min(n, 253)
    p = Parts().add("int", rng.choice([70016, -1, 0, -2**31, 2**31 - 1]).to_bytes(4, "little", signed=True)).add("count", vi(n))
    for _ in range(n):
        p.add("hash", common.rand_bytes(rng, 32))
    return p.add("hash", rng.choice([b"\x00" * 32, common.rand_bytes(rng, 32)]))


def p_headers(rng):
    n = _count(rng, [0, 1, 2, 3], 2000)
    p = Parts().add("count", vi(n))
    for k in range(n if n < 300 else 2):
        p.extend(p_header(rng)).add("count", b"\x01" if rng.random() < 0.04 else b"\x00")
    return p


def p_version(rng):
    p = (Parts().add("int", rng.choice([70016, 0, -1, 2**31 - 1]).to_bytes(4, "little", signed=True))
         .add("int", rng.getrandbits(rng.choice([1, 12, 64])).to_bytes(8, "little"))
         .add("int", rng.choice([0, 1700000000, -1, 2**63 - 1, -2**63]).to_bytes(8, "little", signed=True)))
    p.extend(p_netaddr(rng)).extend(p_netaddr(rng)).add("int", rng.getrandbits(64).to_bytes(8, "little"))
    ua = rng.choice([b"", b"/Satoshi:25.0.0/", common.rand_bytes(rng, 256), common.rand_bytes(rng, 257)])
    p.add("len", vi(len(ua))).add("bytes", ua)
    p.add("int", rng.choice([0, 800000, -1]).to_bytes(4, "little", signed=True))
    r = rng.random()
    if r < 0.3:
        p.add("marker", b"\x01")
    elif r < 0.55:
        p.add("marker", b"\x00")
    elif r < 0.65:
        p.add("marker", bytes([rng.choice([2, 3, 255])]))
    return p


def p_sig64(rng):
    e = lambda: rng.choice([b"\x00" * 32, b"\xff" * 32, common.rand_bytes(rng, 32)])  # noqa: E731
    return Parts().add("hash", e()).add("hash", e())


def p_keyorigin(rng):
    p = Parts().add("hash", common.rand_bytes(rng, 4))
    for _ in range(rng.choice([0, 1, 3, 5, 255, 256] if rng.random() < 0.1 else [0, 1, 2, 3, 5])):
        p.add("int", rng.choice([0, 1, 0x80000000, 0x8000002C, 0xFFFFFFFF, rng.getrandbits(32)]).to_bytes(4, "little"))
    return p


def p_hashes(rng, cap):
    n = min(_count(rng, [0, 1, 2, 5], cap), 253)
    p = Parts().add("count", vi(n) if rng.random() < 0.97 else vi(cap + 1))
    for _ in range(n):
        p.add("hash", common.rand_bytes(rng, 32))
    return p


def _ft(rng):
    return Parts().add("int", bytes([rng.choice([0, 0, 1, 255])]))


GENS = {"sendcmpct.parse": lambda r: Parts().add("marker", bytes([r.choice([0, 1, 1, 2, 255])])).add("int", r.choice([1, 2, 2**64 - 1]).to_bytes(8, "little")),
        "getcfilters.parse": lambda r: _ft(r).add("int", g_u32(r).to_bytes(4, "little")).add("hash", common.rand_bytes(r, 32)),
        "cfilter.parse": lambda r: _ft(r).add("hash", common.rand_bytes(r, 32)).extend(p_varbytes(r)),
        "cfheaders.parse": lambda r: _ft(r).add("hash", common.rand_bytes(r, 32)).add("hash", common.rand_bytes(r, 32)).extend(p_hashes(r, 2000)),
        "getcfcheckpt.parse": lambda r: _ft(r).add("hash", common.rand_bytes(r, 32)),
        "cfcheckpt.parse": lambda r: _ft(r).add("hash", common.rand_bytes(r, 32)).extend(p_hashes(r, 2000)),
        "ssasig.parse": p_sig64,
        "bmssig.parse": lambda r: Parts().add("int", bytes([r.choice([0, 26, 27, 31, 42, 43, 255])])).extend(p_sig64(r)),
        "keyorigin.parse": p_keyorigin, "msg.parse": p_msg, "ping.parse": lambda r: Parts().add("int", r.getrandbits(r.choice([1, 64])).to_bytes(8, "little")),
        "feefilter.parse": lambda r: Parts().add("int", r.choice([0, 1000, -1, 2**63 - 1, -2**63]).to_bytes(8, "little", signed=True)),
        "netaddr.parse": p_netaddr, "addr.parse": p_addr, "inventory.parse": p_inventory, "inv.parse": p_inv,
        "getheaders.parse": p_getheaders, "headers.parse": p_headers, "version.parse": p_version,
        "xkey.parse": p_xkey, "varbytes.parse": lambda r: p_varbytes(r, True), "outpoint.parse": p_outpoint, "witness.parse": p_witness,
        "txin.parse": p_txin, "txout.parse": p_txout, "tx.parse": p_tx, "header.parse": p_header,
        "block.parse": p_block}


def nonminimal(b: bytes, rng) -> bytes:
    """the same CompactSize value in a wider (non-canonical) form"""
    if not b:
        return b
    if b[0] < 0xFD:
        v = b[0]
    else:
        v = int.from_bytes(b[1:], "little")
    w = rng.choice([w for w in (2, 4, 8) if v < 256**w and w + 1 > len(b)] or [8])
    return bytes([{2: 0xFD, 4: 0xFE, 8: 0xFF}[w]]) + (v % 256**w).to_bytes(w, "little")


def mutate(p: Parts, rng) -> bytes:
    """one structure-aware mutation of a valid encoding"""
    b = p.bytes()
    bounds = p.boundaries()
    r = rng.random()
    idx = [i for i, (k, _) in enumerate(p.parts) if k in ("count", "len", "marker")]
    if r < 0.22:  # truncate at / next to a field boundary
        k = rng.choice(bounds) + rng.choice([0, 0, -1, 1])
        return b[:max(0, min(len(b), k))]
    if r < 0.32:  # extend
        return b + rng.choice([b"\x00", b"\x01", b"\xff", common.rand_bytes(rng, rng.randrange(1, 5))])
    if r < 0.62 and idx:  # edit a count / length / marker byte
        i = rng.choice(idx)
        kind, part = p.parts[i]
        at = bounds[i]
        if rng.random() < 0.3:
            new = nonminimal(part, rng) if kind != "marker" else rng.choice([b"\x00\x00", b"\x00\x02", b"\x01\x01", b"\x00"])
        else:
            x = part[0]
            y = rng.choice([x + 1, x - 1, 0, 1, 0xFC, 0xFD, 0xFE, 0xFF]) % 256
            new = bytes([y]) + part[1:]
        return b[:at] + new + b[at + len(part):]
    if r < 0.72:  # marker games: insert or drop `00 01` after the first 4 bytes
        if b[4:6] == b"\x00\x01":
            return b[:4] + b[6:]
        return b[:4] + b"\x00\x01" + b[4:]
    if r < 0.80:  # all-empty witness section / extra empty witness before the last 4 bytes
        k = rng.choice([1, 1, 2, 3])
        return b[:-4] + b"\x00" * k + b[-4:] if len(b) >= 4 else b + b"\x00"
    if r < 0.92 and b:  # flip / replace one byte anywhere
        k = rng.randrange(len(b))
        return b[:k] + bytes([rng.choice([b[k] ^ (1 << rng.randrange(8)), 0, 0xFF, 0xFD])]) + b[k + 1:]
    # drop a whole part
    if len(p.parts) > 1:
        i = rng.randrange(len(p.parts))
        return b"".join(x for j, (_, x) in enumerate(p.parts) if j != i)
    return b


# ------------------------------------------------------------------ objects built from fields (serializer tie)
def objects(rng):
    """{op: object} built by the constructors from generated fields -- never through `parse` -- so that the
    `<class>.ser` streams tie btclib's *serializer* to the model independently of btclib's parser: the
    model must parse `x.serialize()` to an object that renders as `x` and re-serializes to the same octets
    (by T2 of the model that makes `model.ser(x) == x.serialize()`)."""
    from datetime import datetime, timezone
    import btclib.p2p as P
    from btclib.bip32 import BIP32KeyData, BIP32KeyOrigin
    from btclib.ecc import bms, dsa, ssa
    from btclib.script import ScriptPubKey
    cv = {"check_validity": False}
    u32 = lambda: g_u32(rng)  # noqa: E731
    rb = lambda n: common.rand_bytes(rng, n)  # noqa: E731

    def outpoint():
        return OutPoint(rb(32), u32(), **cv)

    def wit(allow_empty=True):
        n = rng.choice([0, 1, 2, 3] if allow_empty else [1, 2])
        return Witness([rb(rng.choice([0, 0, 1, 33, 72])) for _ in range(n)], **cv)

    def txin(w=None):
        return TxIn(outpoint(), g_script(rng), u32(), Witness() if w is None else w, **cv)

    def txout():
        return TxOut(g_amount(rng), ScriptPubKey(g_script(rng), "mainnet", check_validity=False), **cv)

    def tx():
        nin, nout = rng.choice([1, 1, 2, 3]), rng.choice([0, 1, 2, 3])
        seg = rng.random() < 0.5
        vin = [txin(wit() if seg else None) for _ in range(nin)]
        if seg and not any(i.script_witness.stack for i in vin):
            vin[-1] = txin(wit(False))
        return Tx(u32(), u32(), vin, [txout() for _ in range(nout)], **cv)

    def header():
        t = datetime.fromtimestamp(rng.choice([0, 1231006505, 2**32 - 1, rng.getrandbits(32)]), timezone.utc)
        return BlockHeader(rng.choice([1, 2, 0x20000000, -1, -2**31, 2**31 - 1]), rb(32), rb(32), t, rb(4), u32(), **cv)

    def netaddr():
        return P.NetworkAddress(rng.getrandbits(rng.choice([1, 12, 64])), rb(16), rng.getrandbits(16), **cv)

    def inventory():
        return P.Inventory(rng.choice([0, 1, 2, 5, 0x40000001, rng.getrandbits(32)]), rb(32), **cv)

    i32 = lambda: rng.choice([0, 70016, -1, -2**31, 2**31 - 1])  # noqa: E731
    out = {
        "outpoint.parse": outpoint(), "witness.parse": wit(), "txin.parse": txin(), "txout.parse": txout(),
        "tx.parse": tx(), "header.parse": header(),
        "block.parse": Block(header(), [tx() for _ in range(rng.choice([0, 1, 2]))], **cv),
        "xkey.parse": BIP32KeyData(rb(4), rng.getrandbits(8), rb(4), u32(), rb(32), rb(33), **cv),
        "ping.parse": P.Ping(rng.getrandbits(64), **cv),
        "feefilter.parse": P.FeeFilter(rng.choice([0, 1000, -1, 2**63 - 1, -2**63]), **cv),
        "netaddr.parse": netaddr(),
        "addr.parse": P.Addr([P.TimestampedNetworkAddress(u32(), netaddr(), **cv) for _ in range(rng.choice([0, 1, 3]))], **cv),
        "inventory.parse": inventory(),
        "inv.parse": P.Inv([inventory() for _ in range(rng.choice([0, 1, 4]))], **cv),
        "getheaders.parse": P.GetHeaders(i32(), [rb(32) for _ in range(rng.choice([0, 1, 3]))], rb(32), **cv),
        "headers.parse": P.Headers([header() for _ in range(rng.choice([0, 1, 2]))], **cv),
        "version.parse": P.Version(i32(), rng.getrandbits(64), rng.choice([0, -1, 1700000000, 2**63 - 1]), netaddr(), netaddr(),
                                   rng.getrandbits(64), rb(rng.choice([0, 16, 256])), i32(), rng.choice([None, True, False]), **cv),
        "msg.parse": P.Message(rb(4), rng.choice(["ping", "version", "", "twelve_bytes", "a b~"]), rb(rng.choice([0, 1, 40])), **cv),
        "ssasig.parse": ssa.Sig(rng.getrandbits(256), rng.getrandbits(256), **cv),
        "bmssig.parse": bms.Sig(rng.getrandbits(8), dsa.Sig(rng.getrandbits(256), rng.getrandbits(256), check_validity=False), **cv),
        "keyorigin.parse": BIP32KeyOrigin(rb(4), [u32() for _ in range(rng.choice([0, 1, 3, 6]))], **cv),
        "sendcmpct.parse": P.SendCmpct(rng.choice([False, True]), rng.choice([1, 2, 2**64 - 1, rng.getrandbits(64)]), **cv),
        "getcfilters.parse": rng.choice([P.GetCFilters, P.GetCFHeaders])(rng.choice([0, 1, 255]), u32(), rb(32), **cv),
        "cfilter.parse": P.CFilter(rng.choice([0, 255]), rb(32), g_script(rng), **cv),
        "cfheaders.parse": P.CFHeaders(rng.choice([0, 7]), rb(32), rb(32), [rb(32) for _ in range(rng.choice([0, 1, 3]))], **cv),
        "getcfcheckpt.parse": P.GetCFCheckpt(rng.choice([0, 1, 255]), rb(32), **cv),
        "cfcheckpt.parse": P.CFCheckpt(rng.choice([0, 9]), rb(32), [rb(32) for _ in range(rng.choice([0, 1, 4]))], **cv),
        "getblocks=getheaders.parse": P.GetBlocks(i32(), [rb(32) for _ in range(rng.choice([0, 2]))], rb(32), **cv),
        "pong=ping.parse": P.Pong(rng.getrandbits(64), **cv),
        "getdata=inv.parse": P.GetData([inventory() for _ in range(rng.choice([0, 2]))], **cv),
        "notfound=inv.parse": P.NotFound([inventory() for _ in range(rng.choice([0, 1]))], **cv),
        "varbytes.parse": g_script(rng),
    }
    return out


def ser_case(op, x):
    """op line and implementation-side answer computed from the object alone (no btclib parse)"""
    _parse, render, ser, size, extra = CLASSES[op]
    b = ser(x)
    return f"{op} o {hx(b)}", f"ok {render(x)} rest=_ ser={hx(b)} size={size(x)}{extra(x) if extra else ''}"


# ------------------------------------------------------------------ vendored seeds
_SEEDS = None


def seeds():
    """hex strings found under /repo/tests that some wire parser accepts: {op: [bytes]}"""
    global _SEEDS
    if _SEEDS is not None:
        return _SEEDS
    found = {op: [] for op in ("tx.parse", "header.parse", "block.parse")}
    cands = set()
    root = "/repo/tests"
    for d, _, fs in os.walk(root):
        for f in sorted(fs):
            p = os.path.join(d, f)
            try:
                if f.endswith(".bin") and os.path.getsize(p) < 2_500_000:
                    cands.add(open(p, "rb").read())
                    continue
                if not f.endswith((".py", ".json", ".txt", ".hex", ".csv")) or os.path.getsize(p) > 3_000_000:
                    continue
                txt = open(p, encoding="utf8", errors="ignore").read()
            except OSError:
                continue
            for m in re.finditer(r"(?<![0-9a-fA-F])(?:[0-9a-fA-F]{2}){60,}(?![0-9a-fA-F])", txt):
                if len(m.group(0)) <= 2_400_000:
                    cands.add(bytes.fromhex(m.group(0)))
    for b in sorted(cands, key=lambda x: (len(x), x)):
        for op in found:
            if op == "header.parse" and len(b) != 80:
                continue
            if op == "block.parse" and len(b) < 81:
                continue
            try:
                CLASSES[op][0](b)
            except Exception:  # noqa: BLE001
                continue
            found[op].append(b)
            break
    _SEEDS = found
    return found


# ------------------------------------------------------------------ run
def run(ctx):
    global BIG_P
    rng = ctx.rng
    BIG_P = 0.02 if ctx.tier == "thorough" else 0.004
    # ---- CompactSize (spine slice)
    ints = [v for v in common.boundary_ints(rng, extra=[0xFD, 0xFFFF, 0xFFFFFFFF, 2**64 - 1, var_int.MAX_SIZE])]
    for i in ints:
        ctx.check("varint.roundtrip", {"i": i, "rest": hx(common.rand_bytes(rng, rng.randrange(3))).replace("_", "")},
                  nontrivial=0 <= i < 2**64)
    lines = []
    maxes = [var_int.MAX_SIZE, 0, 1, 252, 253, 2**32, 2**64]
    for _ in range(ctx.n(3000)):
        r = rng.random()
        if r < 0.5:
            v = rng.choice(ints) if rng.random() < 0.5 else common.rand_int(rng, signed=False)
            v = abs(v) % 2**64
            b = var_int.serialize(v) + common.rand_bytes(rng, rng.randrange(4))
            if rng.random() < 0.3 and b:
                k = rng.randrange(len(b))
                b = b[:k] if rng.random() < 0.5 else b[:k] + bytes([b[k] ^ (1 << rng.randrange(8))]) + b[k + 1:]
        elif r < 0.8:
            pre = rng.choice([0xFC, 0xFD, 0xFE, 0xFF])
            width = {0xFC: 0, 0xFD: 2, 0xFE: 4, 0xFF: 8}[pre]
            v = rng.choice([0, 1, 0xFC, 0xFD, 0xFFFF, 0x10000, 0xFFFFFFFF, 0x100000000, rng.getrandbits(8 * width or 1)])
            body = (v % (256 ** width)).to_bytes(width, "little") if width else b""
            b = bytes([pre]) + body[:rng.choice([width, width, max(0, width - 1)])] + common.rand_bytes(rng, rng.randrange(3))
        else:
            b = common.rand_bytes(rng, rng.randrange(12))
        lines.append(f"varint.parse {hx(b)} {rng.choice(maxes)}")
        ctx.check("varint.canonical", {"b": b.hex()})
    ctx.stream("varint.parse", lines)

    # ---- wire classes: valid objects, mutations, vendored seeds
    per_class = {"sendcmpct.parse": 60, "getcfilters.parse": 60, "cfilter.parse": 100, "cfheaders.parse": 120,
                 "getcfcheckpt.parse": 50, "cfcheckpt.parse": 100, "ssasig.parse": 80, "bmssig.parse": 80, "keyorigin.parse": 150, "msg.parse": 400, "ping.parse": 60, "feefilter.parse": 60, "netaddr.parse": 100, "addr.parse": 150,
                 "inventory.parse": 80, "inv.parse": 150, "getheaders.parse": 150, "headers.parse": 150,
                 "version.parse": 250, "xkey.parse": 150, "varbytes.parse": 300, "outpoint.parse": 200, "witness.parse": 400, "txin.parse": 400,
                 "txout.parse": 400, "tx.parse": 1200, "header.parse": 200, "block.parse": 120}
    sd = seeds()
    for op, gen in GENS.items():
        lines = []
        n = ctx.n(per_class[op], per_class[op] * 12)
        pool = []
        for k in range(n):
            p = gen(rng)
            r = rng.random()
            if r < 0.40:
                b = p.bytes()
                cls = "valid"
            elif r < 0.47:
                b = p.bytes() + common.rand_bytes(rng, rng.randrange(1, 4))
                cls = "valid+rest"
            else:
                b = mutate(p, rng)
                cls = "mutated"
            mode = "s" if rng.random() < 0.6 and op not in OCTETS_ONLY else "o"
            lines.append(f"{op} {mode} {hx(b)}")
            ctx.count("c05.input_class", f"{op}:{cls}")
            pool.append(b)
        # vendored encodings and mutations of them (byte-level: boundaries unknown)
        vend = sd.get(op, [])
        take = vend if ctx.tier == "thorough" else [v for v in vend if len(v) < 200_000][:ctx.n(60)]
        for v in take:
            lines.append(f"{op} o {hx(v)}")
            ctx.count("c05.input_class", f"{op}:vendored")
            pool.append(v)
            if len(v) < 5000:
                for _ in range(3):
                    p = Parts().add("int", v[:4]).add("count", v[4:5]).add("bytes", v[5:-4]).add("int", v[-4:])
                    m = mutate(p, rng)
                    lines.append(f"{op} {rng.choice('so')} {hx(m)}")
                    ctx.count("c05.input_class", f"{op}:vendored-mutated")
                    pool.append(m)
        ctx.stream(op, lines)
        # property oracles on the real code alone, on a sample of the same inputs
        for b in pool[:ctx.n(250, 2500)]:
            if len(b) > 100_000:
                continue
            ctx.check("wire.canonical", {"op": op, "b": b.hex()})
            ctx.check("wire.roundtrip", {"op": op, "b": b.hex(), "rest": common.rand_bytes(rng, rng.randrange(3)).hex()},
                      nontrivial=False)

    # ---- serializer tie: objects built from fields, btclib's parser not involved on the implementation side
    per_op = {}
    for _ in range(ctx.n(120, 2500)):
        for op, x in objects(rng).items():
            try:       # `name=op`: a class that shares the wire layout (and the model codec) of another one
                per_op.setdefault(op.split("=")[0], []).append(ser_case(op.split("=")[-1], x))
            except Exception as e:  # noqa: BLE001 - e.g. an amount the signed field cannot hold
                ctx.count("c05.ser.unserializable", f"{op}:{type(e).__name__}")
    for op, cases in per_op.items():
        ctx.correspond(op.replace(".parse", "") + ".ser", EXE, cases)

    from . import c05_extra, c05_json
    c05_extra.run(ctx)
    c05_json.run(ctx, objects)
    if c05_oracles is not None and hasattr(c05_oracles, "run"):
        c05_oracles.run(ctx)
    else:
        ctx.note("harness/c05_oracles.py missing: per-class round-trip oracles not run")
