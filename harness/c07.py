"""C07 — BIP32 derivation obeys the BIP's equations and its algebraic laws (DESIGN §3 C07).

Correspondence: the Lean model (Model/C07/Bip32.lean over `Btc.EC.ops secp256k1` + the Lean HMAC-SHA512 /
hash160, Model/C07/DerPath.lean) against the real btclib, in-process, on BOTH backends
(`set_libsecp256k1_serving`).  Extended keys travel as their six fields (btclib's own parse/serialize is
used to obtain them; the 78-byte codec is C05's).  Property oracles (`ORACLES`) evaluate the property on
the real code alone: split-composition, neuter-commutation, crack, refusals, field equations, path
spellings, version pairing, the BIP44/BIP85 formulas, the official BIP32 vectors.
"""
from __future__ import annotations

import contextlib
import hashlib
import hmac as _hmac
import json
import os

from btclib import b32, b58, bip44, bip85, network, slip132
from btclib.bip32 import bip32, der_path
from btclib.bip32.bip32 import BIP32KeyData
from btclib.curves import curve as _curve
from btclib.curves import secp256k1
from btclib.exceptions import BTClibValueError
from btclib.hashes import hash160

from . import c07_bip85, common, shared
from .common import hx, unhx

PROP = "C07"
EXE = "drv_c07"
GEN_MODULES = ["Bip32"]
RULE = ("op lines from one seeded PRNG: seeds 16..64 bytes (+ out-of-range), every xprv/xpub version x network, "
        "paths of depth 0..12 (+ the 255 boundary) over {0,1,2^31-1,2^31,2^31+1,2^32-1,random}, valid and malformed "
        "keys, forced versions; every stream is run on the Python backend and on libsecp256k1; a case is "
        "non-trivial when the implementation answered (did not refuse); distinct = distinct (stream, op line)")
TRUSTED = [
    "HMAC-SHA512 / SHA-256 / RIPEMD-160 / SHAKE256 (Model/C07/Shake256.lean) of the model are validated against hashlib each run, not verified",
    "no curve-level assumption is left for secp256k1: cofactor one (Btc.E2E.secpCofactorOne), primality of p and n, the "
    "non-zero discriminant and Lawful (opsSub secpOk) (C01) are all PROVED; the `*_secp256k1` theorems carry T1/T2/T3 to the "
    "executed Btc.EC.ops secp256k1 with no hypothesis on the curve (the generic `*_ec_cofactor_one` forms keep `hcof`)",
    "hand-written BIP32 / der_path models (Model/C07) are tied by correspondence only",
    "the invalid-child / invalid-master-key branches (IL >= n, zero child, infinity) and the BIP85 WIF / XPRV key-range refusals are reached with a stubbed hmac.new on both sides",
    "the BIP85 dice model reads a budget of 64*rolls+256 trials and answers `fuel` beyond it (the code reads on); never hit",
]
ASSUMPTIONS = ["secp256k1 only (BIP32 is defined for no other curve)",
               "path text restricted to Latin-1 in the der_path model"]

H = der_path._HARDENED_OFFSET
N = secp256k1.n
INDEXES = [0, 1, 2, H - 1, H, H + 1, 2**32 - 1]
PRV_VERSIONS = sorted(network.XPRV_VERSIONS_ALL)
PUB_VERSIONS = sorted(network.XPUB_VERSIONS_ALL)
VECTORS = "/repo/tests/bip32/_data/bip32_test_vectors.json"


# ------------------------------------------------------------------ plumbing
@contextlib.contextmanager
def backend(serving: bool):
    old = _curve.is_libsecp256k1_serving()
    _curve.set_libsecp256k1_serving(serving=serving)
    try:
        yield
    finally:
        _curve.set_libsecp256k1_serving(serving=old)


class _FakeHmac:
    """`hmac` as bip32.py sees it, answering a fixed digest for messages ending in one 4-byte index."""

    def __init__(self, index: int, digest: bytes):
        self.suffix = index.to_bytes(4, "big")
        self.forced = digest

    def new(self, key, msg=None, digestmod=""):
        real = _hmac.new(key, msg, digestmod)
        if msg is not None and bytes(msg)[-4:] == self.suffix:
            forced = self.forced

            class _D:
                def digest(self_inner):
                    return forced
            return _D()
        return real


@contextlib.contextmanager
def mac(tok: str):
    if tok == "_":
        yield
        return
    i, h = tok.split(":")
    old = bip32.hmac
    bip32.hmac = _FakeHmac(int(i), bytes.fromhex(h))
    try:
        yield
    finally:
        bip32.hmac = old


def xtok(x) -> str:
    return f"{hx(x.version)} {x.depth} {hx(x.parent_fingerprint)} {x.index} {hx(x.chain_code)} {hx(x.key)}"


def xof(t) -> BIP32KeyData:
    return BIP32KeyData(unhx(t[0]), int(t[1]), unhx(t[2]), int(t[3]), unhx(t[4]), unhx(t[5]), check_validity=False)


def ptok(p) -> str:
    return ",".join(str(i) for i in p) if p else "_"


def pof(s):
    return [] if s == "_" else [int(v) for v in s.split(",")]


def kind(e: BaseException) -> str:
    c = common.err_class(e)
    if c != "value":
        return c if not c.startswith("foreign") else "foreign"
    m = str(e)
    table = [
        ("final depth greater than", "depth"), ("invalid hardened derivation from public", "hardened"),
        ("not a valid scalar", "child-il"), ("child private key is zero", "child-zero"),
        ("point at infinity", "child-inf"), ("not a parent's child", "not-child"),
        ("hardened child derivation", "hardened-child"), ("is not a private key", "not-private"),
        ("not a private key", "not-private"), ("is not a public key", "not-public"),
        ("invalid private key", "bad-key"), ("invalid public key", "bad-key"),
        ("unknown extended key version", "bad-version"), ("unknown xprv version", "bad-version"),
        ("invalid version forced", "bad-version"), ("too few bits", "seed"), ("too many bits", "seed"),
        ("unhardened account/master", "account"), ("invalid private derivation at", "account"),
        ("invalid branch number", "account"), ("invalid address index", "account"),
        ("bip85", "path"),
        ("length", "bad-field"), ("size", "bad-field"), ("invalid index", "bad-field"), ("invalid depth", "bad-field"),
        ("zero depth with", "bad-field"),
    ]
    for sub, k in table:
        if sub in m:
            return k
    return "other:" + m[:40]


def _x(fn):
    try:
        return "ok " + xtok(fn())
    except Exception as e:  # noqa: BLE001
        return "err " + kind(e)


def _b(fn):
    try:
        return "ok " + hx(fn())
    except Exception as e:  # noqa: BLE001
        return "err " + kind(e)


def _forced(tok):
    return None if tok == "none" else unhx(tok)


def _spell(line: str, x: BIP32KeyData, path):
    """The same call in another of the spellings `derive` accepts (text key, text path, bytes path)."""
    h = hashlib.blake2b(line.encode(), digest_size=2).digest()
    xk = x
    if h[0] % 3 == 0:
        try:
            xk = x.b58encode()
        except Exception:  # noqa: BLE001 - invalid key: keep the object, it is refused the same way
            xk = x
    pp = path
    if all(0 <= i <= 0xFFFFFFFF for i in path):
        if h[1] % 4 == 1 and len(path) <= 255:
            pp = der_path.str_from_der_path(path, hardening="'" if h[1] & 4 else "h")
            if h[1] & 8:
                pp = pp.replace("h", "H").replace("m", "M").replace("/", " / ")
        elif h[1] % 4 == 2:
            pp = b"".join(i.to_bytes(4, "little") for i in path)
        elif h[1] % 4 == 3 and len(path) == 1:
            pp = path[0]
    return xk, pp


def _spell_path(line, path):
    """One of the DerPath spellings of the same index list (list / text / bytes / single int)."""
    h = hashlib.blake2b(line.encode(), digest_size=1).digest()[0]
    if not all(0 <= i <= 0xFFFFFFFF for i in path) or len(path) > 255:
        return path
    if h % 4 == 1:
        return der_path.str_from_der_path(path, hardening="'" if h & 4 else "h")
    if h % 4 == 2:
        return b"".join(i.to_bytes(4, "little") for i in path)
    if h % 4 == 3 and len(path) == 1:
        return path[0]
    return path


def impl(line: str) -> str:
    t = line.split(" ")
    op = t[0]
    if op == "bip32.derive":
        x, path, forced = xof(t[2:8]), pof(t[8]), _forced(t[9])
        xk, pp = _spell(line, x, path)
        with mac(t[1]):
            if isinstance(xk, str) or hashlib.blake2b(line.encode(), digest_size=1).digest()[0] & 1:
                # text entry point: derive() then btclib's own decoder for the fields
                return _x(lambda: BIP32KeyData.b58decode(bip32.derive(xk, pp, forced)))
            return _x(lambda: bip32.derive_(xk, pp, forced))
    if op == "bip32.raw":
        with mac(t[1]):
            return _x(lambda: bip32._derive(xof(t[2:8]), pof(t[8]), _forced(t[9])))
    if op == "bip32.fold":
        x, p = xof(t[2:8]), pof(t[8])
        with mac(t[1]):
            r = _x(lambda: bip32._derive(x, p, None))
        # where T1 (`deriveB_eq_fold`) says the BIP fold and `_derive` refuse alike, the refusal is compared by name
        exact = (x.key[:1] == b"\x00" or all(i < H for i in p)) and x.depth + len(p) <= 255
        return r if r.startswith("ok") or exact else "err any"
    if op == "bip32.tweaks":
        try:
            with mac(t[1]):
                tw = bip32.pub_key_derivation_tweaks(unhx(t[2]), unhx(t[3]), _spell_path(line, pof(t[4])))
            return "ok " + (",".join(b.hex() for b in tw) if tw else "_")
        except Exception as e:  # noqa: BLE001
            return "err " + kind(e)
    if op == "bip32.neuter":
        return _x(lambda: bip32.xpub_from_xprv_(xof(t[1:7])))
    if op == "bip32.fp":
        return _b(lambda: bip32.fingerprint(xof(t[1:7])))
    if op == "bip32.valid":
        try:
            xof(t[1:7]).assert_valid()
            return "ok"
        except Exception as e:  # noqa: BLE001
            return "err " + kind(e)
    if op == "bip32.root":
        return _x(lambda: bip32.rootxprv_from_seed_(unhx(t[1]), unhx(t[2])))
    if op == "bip32.ser":
        try:
            return "ok " + hx(xof(t[1:7]).serialize())
        except Exception as e:  # noqa: BLE001
            return "err any" if common.err_class(e) == "value" else "err " + kind(e)
    if op == "bip32.parse":
        try:
            return "ok " + xtok(BIP32KeyData.parse(unhx(t[1])))
        except Exception as e:  # noqa: BLE001
            return "err any" if common.err_class(e) == "value" else "err " + kind(e)
    if op == "bip32.rootm":
        with mac(t[1]):
            return _x(lambda: bip32.rootxprv_from_seed_(unhx(t[2]), unhx(t[3])))
    if op == "bip32.crack":
        with mac(t[1]):
            return _x(lambda: BIP32KeyData.b58decode(bip32.crack_prv_key_var(xof(t[2:8]), xof(t[8:14]))))
    if op == "bip32.account":
        return _x(lambda: bip32.derive_from_account_(xof(t[1:7]), int(t[7]), int(t[8]), t[9] == "True", int(t[10])))
    if op == "bip32.range":
        try:
            ks = bip32.derive_from_account_range_(xof(t[1:7]), int(t[7]), pof(t[8]), t[9] == "True", int(t[10]))
            return "ok " + " | ".join(xtok(k) for k in ks)
        except Exception as e:  # noqa: BLE001
            return "err " + kind(e)
    if op in ("bip85.app", "shake256"):
        return c07_bip85.impl(line, xof, xtok, kind)
    if op == "bip85.entropy":
        return _b(lambda: bip85.entropy_from_der_path(xof(t[1:7]), pof(t[7])))
    if op == "ver.pub":
        try:
            return "ok " + hx(network.xpubversion_from_xprvversion(unhx(t[1])))
        except Exception as e:  # noqa: BLE001
            return "err " + kind(e)
    if op in ("path.parse", "path.parse380"):
        s = unhx(t[1]).decode("latin-1")
        try:
            return "ok " + ptok(der_path.indexes_from_der_path(s, bip380_enforced=op.endswith("380")))
        except Exception as e:  # noqa: BLE001
            return "err " + _pkind(e)
    if op == "path.str":
        try:
            return "ok " + hx(der_path.str_from_der_path(pof(t[1]), None, unhx(t[2]).decode("latin-1")).encode("latin-1"))
        except Exception as e:  # noqa: BLE001
            return "err " + _pkind(e)
    if op == "path.bytes":
        try:
            return "ok " + hx(der_path.bytes_from_der_path(pof(t[1])))
        except Exception as e:  # noqa: BLE001
            return "err " + _pkind(e)
    if op == "path.frombytes":
        try:
            return "ok " + ptok(der_path.indexes_from_der_path(unhx(t[1])))
        except Exception as e:  # noqa: BLE001
            return "err " + _pkind(e)
    return "bad-op"


def _pkind(e):
    c = common.err_class(e)
    if c != "value":
        return c if not c.startswith("foreign") else "foreign"
    m = str(e)
    if "depth greater" in m:
        return "depth"
    if "hardening symbol" in m:
        return "hardening"
    if "multiple of 4" in m:
        return "size"
    if "invalid derivation index" in m or "invalid index" in m:
        return "index"
    return "other:" + m[:40]


# ------------------------------------------------------------------ generators
def rand_index(rng):
    r = rng.random()
    if r < 0.55:
        return rng.choice(INDEXES)
    if r < 0.75:
        return rng.randrange(0, H)
    if r < 0.95:
        return rng.randrange(H, 2**32)
    return rng.choice([3, 44 + H, 49 + H, 84 + H, 86 + H, 1000000000])


def rand_path(rng, max_len=12, hardened_ok=True):
    n = rng.choice([0, 1, 1, 2, 2, 3, 3, 4, 5, 6, 8, max_len])
    p = [rand_index(rng) for _ in range(n)]
    if not hardened_ok:
        p = [i % H for i in p]
    return p


def rand_seed(rng):
    return common.rand_bytes(rng, rng.choice([16, 16, 17, 20, 24, 32, 32, 33, 48, 63, 64, 64]))


def make_pool(rng, n_roots):
    """Valid extended keys of both kinds, every version, assorted depths (incl. the 255 boundary)."""
    prv, pub = [], []
    for k in range(n_roots):
        v = PRV_VERSIONS[k % len(PRV_VERSIONS)]
        root = bip32.rootxprv_from_seed_(rand_seed(rng), v)
        prv.append(root)
        x = root
        for _ in range(rng.randrange(0, 3)):
            x = bip32.derive_(x, rand_path(rng, 4))
            prv.append(x)
        # a key placed near the depth bound: depth is a field, so it is set directly
        d = rng.choice([200, 250, 253, 254, 255])
        prv.append(BIP32KeyData(x.version, d, common.rand_bytes(rng, 4), rand_index(rng), x.chain_code, x.key))
    for x in prv:
        pub.append(bip32.xpub_from_xprv_(x))
    return prv, pub


def malform(rng, x):
    f = dict(version=x.version, depth=x.depth, parent_fingerprint=x.parent_fingerprint, index=x.index,
             chain_code=x.chain_code, key=x.key)
    c = rng.randrange(12)
    if c == 0:
        f["version"] = common.rand_bytes(rng, 4)
    elif c == 1:
        f["version"] = x.version[:3]
    elif c == 2:
        f["key"] = bytes([rng.choice([0, 1, 2, 3, 4])]) + x.key[1:]
    elif c == 3:
        f["key"] = b"\x00" + rng.choice([0, N, N + 1, 2**256 - 1, N - 1, 1]).to_bytes(32, "big")
    elif c == 4:
        f["key"] = bytes([rng.choice([2, 3])]) + common.rand_bytes(rng, 32)   # half of these are no x-coordinate
    elif c == 5:
        f["key"] = x.key[:-1]
    elif c == 6:
        f["chain_code"] = x.chain_code + b"\x00"
    elif c == 7:
        f["depth"] = rng.choice([0, 256, 300])
    elif c == 8:
        f["index"] = rng.choice([2**32, 2**32 + 5])
    elif c == 9:
        f["depth"], f["parent_fingerprint"] = 0, rng.choice([b"\x00" * 4, b"\x00\x00\x00\x01"])
        f["index"] = rng.choice([0, 1])
    elif c == 10:
        f["parent_fingerprint"] = b"\x00" * 3
    else:  # a private key under a public version and the other way round
        f["version"] = network.xpubversion_from_xprvversion(x.version) if x.version in network.XPRV_VERSIONS_ALL \
            else rng.choice(PRV_VERSIONS)
    return BIP32KeyData(**f, check_validity=False)


def _is_valid(x):
    try:
        x.assert_valid()
    except Exception:  # noqa: BLE001
        return False
    return True


def rand_forced(rng, x):
    r = rng.random()
    if r < 0.6:
        return "none"
    if r < 0.75:
        same = PRV_VERSIONS if x.version in network.XPRV_VERSIONS_ALL else PUB_VERSIONS
        return hx(rng.choice(same))
    if r < 0.85:
        other = PUB_VERSIONS if x.version in network.XPRV_VERSIONS_ALL else PRV_VERSIONS
        return hx(rng.choice(other))
    if r < 0.9:
        return hx(common.rand_bytes(rng, 4))
    if r < 0.95:
        return hx(common.rand_bytes(rng, rng.choice([3, 5])))
    return "_"   # b"": falsy, so "not forced"


# ------------------------------------------------------------------ property oracles (real code only)
def _fields(x):
    return (x.version, x.depth, x.parent_fingerprint, x.index, x.chain_code, x.key)


def _wkey(w):
    return xof(w["x"].split(" "))


def _o_split(w):
    """derive along p in one call == derive along any split of p (all split points)."""
    x, p = _wkey(w), w["p"]
    with backend(w["serving"]):
        try:
            whole = bip32.derive_(x, p)
        except BTClibValueError as e:
            # then every split must be refused somewhere too
            for j in range(len(p) + 1):
                try:
                    bip32.derive_(bip32.derive_(x, p[:j]), p[j:])
                    return False, f"whole path refused ({e}) but split at {j} answered"
                except BTClibValueError:
                    pass
            return True, "refused on every split"
        for j in range(len(p) + 1):
            part = bip32.derive_(bip32.derive_(x, p[:j]), p[j:])
            if _fields(part) != _fields(whole):
                return False, f"split at {j}: {xtok(part)} != {xtok(whole)}"
        # field equations on the real code alone
        if p:
            par = bip32.derive_(x, p[:-1])
            ok = (whole.index == p[-1] and whole.depth == x.depth + len(p)
                  and whole.parent_fingerprint == bip32.fingerprint(par) and whole.version == x.version)
            if not ok:
                return False, f"fields: {xtok(whole)} parent {xtok(par)}"
    return True, f"{len(p) + 1} splits"


def _o_neuter(w):
    """unhardened p: neuter(derive(xprv, p)) == derive(neuter(xprv), p); definedness agrees."""
    x, p = _wkey(w), w["p"]
    with backend(w["serving"]):
        try:
            a = bip32.xpub_from_xprv_(bip32.derive_(x, p))
        except BTClibValueError as e:
            a = e
        try:
            b = bip32.derive_(bip32.xpub_from_xprv_(x), p)
        except BTClibValueError as e:
            b = e
    if isinstance(a, Exception) or isinstance(b, Exception):
        return isinstance(a, Exception) and isinstance(b, Exception), f"definedness: {a!r} vs {b!r}"
    return _fields(a) == _fields(b), f"{xtok(a)} vs {xtok(b)}"


def _o_crack(w):
    """crack(neuter(parent), child_i) == parent for unhardened i; refused for hardened i."""
    x, i = _wkey(w), w["i"]
    with backend(w["serving"]):
        child = bip32.derive_(x, [i])
        xpub = bip32.xpub_from_xprv_(x)
        try:
            got = bip32.crack_prv_key_var(xpub, child)
        except BTClibValueError as e:
            return i >= H, f"refused: {e}"
    return i < H and got == x.b58encode(), f"i={i} got={got[:20]}"


def _o_hardened_pub(w):
    """a hardened index anywhere in the path of a public key is refused (with the library's error)."""
    x, p = _wkey(w), w["p"]
    with backend(w["serving"]):
        try:
            r = bip32.derive_(x, p)
        except BTClibValueError as e:
            return True, str(e)[:60]
        except Exception as e:  # noqa: BLE001
            return False, f"foreign {type(e).__name__}"
    return False, f"answered {xtok(r)}"


def _o_depth(w):
    """final depth 255 is derived, 256 refused, and the answer's depth is the sum."""
    x, p = _wkey(w), w["p"]
    with backend(w["serving"]):
        try:
            r = bip32.derive_(x, p)
        except BTClibValueError as e:
            return x.depth + len(p) > 255 or "depth" not in str(e), str(e)[:60]
    return x.depth + len(p) <= 255 and r.depth == x.depth + len(p), f"depth {r.depth}"


def _o_invalid_child(w):
    """with the HMAC forced to an invalid left half / to the offset that zeroes the child, index i is
    refused with the library's error naming i — never answered with the key of another index."""
    x, p, tok = _wkey(w), w["p"], w["mac"]
    i = int(tok.split(":")[0])
    with backend(w["serving"]):
        others = []
        for d in (1, 2):
            q = [(j + d) % 2**31 + (H if j >= H else 0) if j == i else j for j in p]
            try:
                others.append(_fields(bip32.derive_(x, q)))
            except BTClibValueError:
                pass
        with mac(tok):
            try:
                r = bip32.derive_(x, p)
            except BTClibValueError as e:
                return f"invalid child index {i}" in str(e), str(e)[:80]
            except Exception as e:  # noqa: BLE001
                return False, f"foreign {type(e).__name__}: {e}"
    return False, f"answered {xtok(r)} (next-index key: {_fields(r) in others})"


def _o_vectors(w):
    """BIP32's official vectors: derive(root(seed), path) gives the listed xprv and xpub."""
    seed, path, xpub, xprv = w["seed"], w["path"], w["xpub"], w["xprv"]
    with backend(w["serving"]):
        root = bip32.rootxprv_from_seed(seed)
        a = bip32.derive(root, path)
        b = bip32.xpub_from_xprv(a)
    return a == xprv and b == xpub, f"{path}: {a[:16]} {b[:16]}"


def _o_path_roundtrip(w):
    p, hsym = w["p"], w["h"]
    s = der_path.str_from_der_path(p, hardening=hsym)
    ok = der_path.indexes_from_der_path(s) == p
    for sym in ("h", "'", "H"):
        ok = ok and der_path.indexes_from_der_path(s.replace(hsym, sym)) == p
    ok = ok and der_path.indexes_from_der_path(der_path.bytes_from_der_path(p)) == p
    ok = ok and der_path.indexes_from_der_path(s[2:] if p else "") == p           # without the leading m
    ok = ok and der_path.indexes_from_der_path(s, bip380_enforced=False) == p
    if p:
        ok = ok and der_path.indexes_from_der_path(s[2:], bip380_enforced=True) == p
    # key origin (fingerprint + path): wire, bracket-text and json forms read back to the same object
    from btclib.bip32.key_origin import BIP32KeyOrigin
    fp = bytes.fromhex(w.get("fp", "deadbeef"))
    o = BIP32KeyOrigin(fp, p)
    ok = ok and BIP32KeyOrigin.parse(o.serialize()) == o and BIP32KeyOrigin.from_description(o.description) == o
    ok = ok and BIP32KeyOrigin.from_dict(o.to_dict()) == o and list(o.der_path) == p
    ok = ok and o.serialize() == fp + der_path.bytes_from_der_path(p)
    return ok, s[:80]


def _o_version_pairing(w):
    name = w["network"]
    prv = network.xprvversions_from_network(name)
    pub = network.xpubversions_from_network(name)
    ok = len(prv) == len(pub) == 5 and len(set(prv)) == 5 and len(set(pub)) == 5
    for a, b in zip(prv, pub):
        ok = ok and network.xpubversion_from_xprvversion(a) == b
        ok = ok and network.network_type_from_xkeyversion(a) == network.network_type_from_xkeyversion(b) \
            == network.NETWORKS[name].network_type
        ok = ok and a in network.XPRV_VERSIONS_ALL and b in network.XPUB_VERSIONS_ALL and a not in network.XPUB_VERSIONS_ALL
    return ok, name


def _o_bip85(w):
    """bip85.entropy = HMAC-SHA512("bip-entropy-from-k", k) of the derived child key."""
    x, p = _wkey(w), w["p"]
    with backend(w["serving"]):
        e = bip85.entropy_from_der_path(x, p)
        k = bip32.derive_(x, p).key[1:]
    return e == _hmac.new(b"bip-entropy-from-k", k, "sha512").digest(), e.hex()[:16]


_ENC = {"p2pkh": b58.p2pkh, "p2wpkh-p2sh": b58.p2wpkh_p2sh, "p2wpkh": b32.p2wpkh}


def _o_bip44(w):
    """address_from_der_path(x, full path) = encoder[purpose](derive(x, the levels x has not walked))."""
    x, p = _wkey(w), w["p"]
    with backend(w["serving"]):
        try:
            a = bip44.address_from_der_path(x, p)
        except BTClibValueError as e:
            return w["expect_refusal"], str(e)[:60]
        st = bip44.SCRIPT_TYPE_FROM_PURPOSE[p[0] - H]
        key = bip32.derive_(x, p[x.depth:])
        net = network.network_from_xkeyversion(x.version)
        if st == "p2tr":
            from btclib.script.taproot import output_pubkey
            want = b32.p2tr(output_pubkey(key)[0], net)
        else:
            want = _ENC[st](key, net)
    return (not w["expect_refusal"]) and a == want, a


def _o_account(w):
    x, b, idx = _wkey(w), w["b"], w["idx"]
    with backend(w["serving"]):
        rng_ = bip32.derive_from_account_range(x, b, idx)
        one = [bip32.derive_from_account(x, b, a) for a in idx]
        path = [bip32.derive(x, f"m/{b}/{a}") for a in idx]
    return rng_ == one == path, f"{len(idx)} addresses"


def _o_slip132(w):
    """p2wpkh_xkey & co = derive with the network's own version of the wanted kind."""
    x, p = _wkey(w), w["p"]
    net = network.NETWORKS[network.network_from_xkeyversion(x.version)]
    with backend(w["serving"]):
        got = [slip132.p2pkh_xkey(x, p, False), slip132.p2wpkh_p2sh_xkey(x, p, False), slip132.p2wpkh_xkey(x, p, False)]
        base = bip32.derive_(x, p)
    prv = x.is_private
    want_v = [net.bip32_prv if prv else net.bip32_pub,
              net.slip132_p2wpkh_p2sh_prv if prv else net.slip132_p2wpkh_p2sh_pub,
              net.slip132_p2wpkh_prv if prv else net.slip132_p2wpkh_pub]
    ok = True
    for g, v in zip(got, want_v):
        d = BIP32KeyData.b58decode(g)
        ok = ok and d.version == v and _fields(d)[1:] == _fields(base)[1:]
    return ok, got[0][:12]


BOUNDARY = [H - 1, H, H + 1, 2**32 - 1]


def _boundary_calls(x, acct, i, acct_prv=None):
    """Every public API of the C07 modules that takes indexes, with a PUBLIC parent, index `i` placed where the API
    reads an index.  -> [(name, thunk, reference thunk or None)]; the reference is what an unhardened `i` must give."""
    from btclib.bip32.key_origin import BIP32KeyOrigin  # noqa: F401
    xb = x.b58encode()
    txt = der_path.str_from_der_path([i])
    le = i.to_bytes(4, "little")
    d1 = lambda: _fields(bip32.derive_(x, [i]))                                  # noqa: E731
    d3 = lambda: _fields(bip32.derive_(x, [0, i, 1]))                            # noqa: E731
    tw1 = lambda: [_hmac.new(x.chain_code, x.key + i.to_bytes(4, "big"), "sha512").digest()[:32]]  # noqa: E731
    acc = lambda b, a: (lambda: _fields(bip32.derive_(acct, [b, a])))            # noqa: E731
    calls = [
        ("derive_/list", lambda: _fields(bip32.derive_(x, [i])), d1),
        ("derive_/int", lambda: _fields(bip32.derive_(x, i)), d1),
        ("derive_/bytes", lambda: _fields(bip32.derive_(x, le)), d1),
        ("derive_/text", lambda: _fields(bip32.derive_(x, txt)), d1),
        ("derive/text", lambda: _fields(BIP32KeyData.b58decode(bip32.derive(xb, txt))), d1),
        ("derive_/mid", lambda: _fields(bip32.derive_(x, [0, i, 1])), d3),
        ("derive_/first", lambda: _fields(bip32.derive_(x, [i, 0])), None),
        ("tweaks/list", lambda: bip32.pub_key_derivation_tweaks(x.key, x.chain_code, [i]), tw1),
        ("tweaks/int", lambda: bip32.pub_key_derivation_tweaks(x.key, x.chain_code, i), tw1),
        ("tweaks/bytes", lambda: bip32.pub_key_derivation_tweaks(x.key, x.chain_code, le), tw1),
        ("tweaks/text", lambda: bip32.pub_key_derivation_tweaks(x.key, x.chain_code, txt), tw1),
        ("tweaks/last", lambda: bip32.pub_key_derivation_tweaks(x.key, x.chain_code, [0, 1, i])[:0], lambda: []),
        ("tweaks/first", lambda: bip32.pub_key_derivation_tweaks(x.key, x.chain_code, [i, 0])[:1], tw1),
        ("tweaks/bip328", lambda: bip32.pub_key_derivation_tweaks(x.key, bip32.BIP328_CHAIN_CODE, [i])[:0], lambda: []),
        ("account_/branch", lambda: _fields(bip32.derive_from_account_(acct, i, 0, False, 2**32)), acc(i, 0)),
        ("account_/index", lambda: _fields(bip32.derive_from_account_(acct, 0, i, False, 2**32)), acc(0, i)),
        ("account/index", lambda: _fields(BIP32KeyData.b58decode(bip32.derive_from_account(acct.b58encode(), 1, i, True, 2**32))), acc(1, i)),
        ("range_/branch", lambda: [_fields(k) for k in bip32.derive_from_account_range_(acct, i, [0], False, 2**32)], lambda: [acc(i, 0)()]),
        ("range_/index", lambda: [_fields(k) for k in bip32.derive_from_account_range_(acct, 0, [0, i], False, 2**32)],
         lambda: [acc(0, 0)(), acc(0, i)()]),
        ("range/index", lambda: [_fields(BIP32KeyData.b58decode(k)) for k in
                                 bip32.derive_from_account_range(acct, 1, [i], True, 2**32)], lambda: [acc(1, i)()]),
        ("slip132.p2pkh_xkey", lambda: _fields(BIP32KeyData.b58decode(slip132.p2pkh_xkey(x, [i], False)))[1:], lambda: d1()[1:]),
        ("slip132.p2wpkh_xkey", lambda: _fields(BIP32KeyData.b58decode(slip132.p2wpkh_xkey(x, [0, i], False)))[1:], None),
        ("slip132.p2wpkh_p2sh_xkey", lambda: _fields(BIP32KeyData.b58decode(slip132.p2wpkh_p2sh_xkey(x, txt, False)))[1:],
         lambda: d1()[1:]),
    ]
    if acct_prv is not None:
        # the account-level guards do not depend on the kind of key: a PRIVATE account refuses the same indexes
        accp = lambda b, a: (lambda: _fields(bip32.derive_(acct_prv, [b, a])))    # noqa: E731
        calls += [
            ("account_/branch/prv", lambda: _fields(bip32.derive_from_account_(acct_prv, i, 0, False, 2**32)), accp(i, 0)),
            ("account_/index/prv", lambda: _fields(bip32.derive_from_account_(acct_prv, 0, i, False, 2**32)), accp(0, i)),
            ("range_/branch/prv", lambda: [_fields(k) for k in bip32.derive_from_account_range_(acct_prv, i, [0], False, 2**32)],
             lambda: [accp(i, 0)()]),
            ("range_/index/prv", lambda: [_fields(k) for k in bip32.derive_from_account_range_(acct_prv, 1, [i, 0], True, 2**32)],
             lambda: [accp(1, i)(), accp(1, 0)()]),
        ]
        if acct_prv.depth == 3:
            mainp = network.network_type_from_xkeyversion(acct_prv.version) == "main"
            basep = [44 + H, (0 if mainp else 1) + H, acct_prv.index]
            encp = lambda p_: (lambda: b58.p2pkh(bip32.derive_(acct_prv, p_[3:]), network.network_from_xkeyversion(acct_prv.version)))  # noqa: E731
            calls += [
                ("bip44/change/prv", lambda: bip44.address_from_der_path(acct_prv, basep + [i, 0]), encp(basep + [i, 0])),
                ("bip44/index/prv", lambda: bip44.address_from_der_path(acct_prv, basep + [0, i]), encp(basep + [0, i])),
            ]
    if acct.depth == 3:
        main = network.network_type_from_xkeyversion(acct.version) == "main"
        base = [44 + H, (0 if main else 1) + H, acct.index]
        enc = lambda p_: (lambda: b58.p2pkh(bip32.derive_(acct, p_[3:]), network.network_from_xkeyversion(acct.version)))  # noqa: E731
        calls += [
            ("bip44/change", lambda: bip44.address_from_der_path(acct, base + [i, 0]), enc(base + [i, 0])),
            ("bip44/index", lambda: bip44.address_from_der_path(acct, base + [0, i]), enc(base + [0, i])),
        ]
    return calls


def _o_boundary(w):
    """Public parent, index i in {2^31-1, 2^31, 2^31+1, 2^32-1} through EVERY index-taking public API of the C07
    modules (not only `derive`): a hardened index is refused with the library's error — never answered —, an
    unhardened one is answered with what `derive_` / the HMAC equation gives."""
    x, acct, i = _wkey(w), xof(w["acct"].split(" ")), w["i"]
    acct_prv = xof(w["acct_prv"].split(" ")) if w.get("acct_prv") else None
    bad = []
    with backend(w["serving"]):
        for name, call, ref in _boundary_calls(x, acct, i, acct_prv):
            if w.get("api") and name != w["api"]:
                continue
            try:
                got = call()
            except BTClibValueError:
                if i < H:
                    bad.append(f"{name}: unhardened {i} refused")
                continue
            except Exception as e:  # noqa: BLE001
                bad.append(f"{name}: foreign {type(e).__name__}: {e}")
                continue
            if i >= H:
                bad.append(f"{name}: hardened index {i} ANSWERED")
            elif ref is not None and got != ref():
                bad.append(f"{name}: answer differs from the reference")
    return not bad, "; ".join(bad)[:400] or f"i={i}"


def _o_bip85_leading_zero(w):
    """A derived child whose 32-byte private key begins with a zero byte (searched for: about 1 path in 256):
    bip85 entropy is HMAC-SHA512("bip-entropy-from-k", the 32 bytes) — the leading zero is key material, not padding."""
    x, p = _wkey(w), w["p"]
    with backend(w["serving"]):
        child = bip32.derive_(x, p)
        e = bip85.entropy_from_der_path(x, p)
    k = child.key[1:]
    if len(k) != 32 or k[0] != 0:
        return False, "witness is not a leading-zero child (generator defect)"
    want = _hmac.new(b"bip-entropy-from-k", k, "sha512").digest()
    return e == want, f"key {k.hex()[:8]}.. entropy {e.hex()[:16]} want {want.hex()[:16]}"


def find_leading_zero_paths(rng, roots, want, tries=4000):
    """Search hardened BIP85 paths whose child private key starts with 0x00 (both one and two zero bytes count)."""
    out = []
    for _ in range(tries):
        if len(out) >= want:
            break
        x = rng.choice(roots)
        p = [bip85._PURPOSE + H, rng.randrange(H, 2**32), rng.randrange(H, 2**32)]
        with backend(True):
            k = bip32.derive_(x, p).key
        if k[1] == 0:
            out.append((x, p))
    return out


def _o_tweaks_invalid_child(w):
    """pub_key_derivation_tweaks with the HMAC forced to IL >= n / to the offset that sends the child to infinity:
    refused with the library's error naming the index, on the bindings arm and on the Python arm alike."""
    tok = w["mac"]
    i = int(tok.split(":")[0])
    with backend(w["serving"]):
        with mac(tok):
            try:
                r = bip32.pub_key_derivation_tweaks(bytes.fromhex(w["key"]), bytes.fromhex(w["cc"]), w["p"])
            except BTClibValueError as e:
                return f"invalid child index {i}" in str(e), str(e)[:80]
            except Exception as e:  # noqa: BLE001
                return False, f"foreign {type(e).__name__}: {e}"
    return False, f"answered {len(r)} tweaks"


def _o_root_invalid(w):
    """rootxprv_from_seed with HMAC-SHA512("Bitcoin seed", seed) forced to a left half of zero / >= n: refused with the
    library's error — no master key is answered."""
    with mac(w["mac"]):
        try:
            r = bip32.rootxprv_from_seed(bytes.fromhex(w["seed"]))
        except BTClibValueError as e:
            return True, str(e)[:60]
        except Exception as e:  # noqa: BLE001
            return False, f"foreign {type(e).__name__}: {e}"
    return False, f"answered {r[:20]}"


def _o_tweaks(w):
    """pub_key_derivation_tweaks: parent point + (sum of tweaks)·G is the derived public key; each tweak is the
    step's own HMAC left half; a hardened index is refused."""
    from btclib.curves import bytes_from_point, mult, point_from_octets
    x, p = _wkey(w), w["p"]
    with backend(w["serving"]):
        try:
            tw = bip32.pub_key_derivation_tweaks(x.key, x.chain_code, p)
        except BTClibValueError as e:
            return any(i >= H for i in p), str(e)[:60]
        if any(i >= H for i in p) or len(tw) != len(p):
            return False, "hardened path answered / wrong count"
        Q = point_from_octets(x.key)
        t = sum(int.from_bytes(b, "big") for b in tw) % N
        if t:
            Q = secp256k1.add_var(Q, mult(t))
        want = bip32.derive_(x, p).key
        for j, (i, b) in enumerate(zip(p, tw)):
            par = bip32.derive_(x, p[:j])
            hm = _hmac.new(par.chain_code, par.key + i.to_bytes(4, "big"), "sha512").digest()
            if hm[:32] != b:
                return False, f"tweak at {i} is not the HMAC left half"
    return bytes_from_point(Q) == want, f"{len(tw)} tweaks"


ORACLES = {
    "tweaks.sum": _o_tweaks, "refuse.root-invalid-left-half": _o_root_invalid, "refuse.tweaks-invalid-child": _o_tweaks_invalid_child, "refuse.hardened-boundary": _o_boundary, "bip85.leading-zero": _o_bip85_leading_zero,
    "law.split": _o_split, "law.neuter": _o_neuter, "law.crack": _o_crack,
    "refuse.hardened-pub": _o_hardened_pub, "refuse.depth": _o_depth, "refuse.invalid-child": _o_invalid_child,
    "vectors.bip32": _o_vectors, "path.roundtrip": _o_path_roundtrip, "version.pairing": _o_version_pairing,
    "bip85.apps.reference": lambda w: c07_bip85.oracle_apps(w, xof, backend),
    "bip85.apps.vectors": lambda w: c07_bip85.oracle_vectors(w, xof, backend),
    "bip85.formula": _o_bip85, "bip44.formula": _o_bip44, "account.range": _o_account, "slip132.version": _o_slip132,
}


def _safe(fn):
    def g(w):
        try:
            return fn(w)
        except Exception as e:  # noqa: BLE001 - an oracle that cannot be evaluated on the real code has failed
            return False, f"raised {type(e).__name__}: {e}"
    g.__doc__ = fn.__doc__
    return g


ORACLES = {k: _safe(v) for k, v in ORACLES.items()}


# ------------------------------------------------------------------ run
def _both(ctx, name, lines, **kw):
    for serving in (False, True):
        with backend(serving):
            ctx.stream(f"{name}/{'libsecp' if serving else 'python'}", lines, **kw)


def _forced_cases(rng, prv, pub, n):
    """op lines + witnesses reaching the three invalid-child branches with a forced HMAC answer."""
    out = []
    valid_prv = [x for x in prv if x.depth < 200]
    for _ in range(n):
        x = rng.choice(valid_prv)
        pre = rand_path(rng, 3)
        i = rng.choice([5, 77, H + 5, 1000, H + 1000])
        pre = [j for j in pre if j != i]
        post = [j for j in rand_path(rng, 2) if j != i]
        public = rng.random() < 0.5
        if public:
            pre, post, i = [j % H for j in pre], [j % H for j in post], i % H
            pre, post = [j for j in pre if j != i], [j for j in post if j != i]
        parent = bip32.derive_(x, pre)
        k = int.from_bytes(parent.key[1:], "big")
        ir = common.rand_bytes(rng, 32)
        il = rng.choice([N, N + 1, 2**256 - 1, N - k, N - k, N - 1, (N - k + 1) % N, 1, 0])
        start = bip32.xpub_from_xprv_(x) if public else x
        tok = f"{i}:{(il.to_bytes(32, 'big') + ir).hex()}"
        out.append((start, pre + [i] + post, tok, il >= N or il == N - k))
    return out


def _guard(ctx, fn):
    """A section whose generator cannot even run on the real code is itself a finding (not a harness crash)."""
    try:
        fn()
    except common.HarnessError:
        raise
    except Exception as e:  # noqa: BLE001
        import traceback
        tb = traceback.extract_tb(e.__traceback__)
        where = next((f"{t.filename.split('/')[-1]}:{t.lineno}" for t in reversed(tb) if "/repo/" in t.filename), "harness")
        ctx.oracle(f"section.{fn.__name__}", False, f"real code raised {type(e).__name__}: {e} (at {where}) while building cases",
                   key=f"section.{fn.__name__}")


def run(ctx):
    rng = ctx.rng
    shared.validate_hashes(ctx, EXE)
    try:
        prv, pub = make_pool(rng, ctx.n(12, 40))
    except Exception as e:  # noqa: BLE001
        ctx.oracle("section.pool", False, f"real code raised {type(e).__name__}: {e} while deriving the key pool", key="section.pool")
        return
    allk = prv + pub

    def s01_version_pairing():  # version pairing (translated table vs the real function), every prefix x every network
        vlines = [f"ver.pub {hx(v)}" for v in PRV_VERSIONS + PUB_VERSIONS] + \
                 [f"ver.pub {hx(common.rand_bytes(rng, rng.choice([4, 4, 3])))}" for _ in range(20)]
        ctx.stream("version.pub", vlines)
        for name in network.NETWORKS:
            ctx.check("version.pairing", {"network": name})


    def s02_official_vectors():  # official vectors: as oracle on the real code and as corpus for the model
        vec = json.load(open(VECTORS))
        vlines = []
        for seed, rows in vec.items():
            root = bip32.rootxprv_from_seed_(seed)
            vlines.append(f"bip32.root {seed} {hx(root.version)}")
            for path, xpub, xprv in rows:
                for serving in (False, True):
                    ctx.check("vectors.bip32", {"seed": seed, "path": path, "xpub": xpub, "xprv": xprv, "serving": serving})
                idx = der_path.indexes_from_der_path(path)
                vlines.append(f"bip32.derive _ {xtok(root)} {ptok(idx)} none")
                vlines.append(f"bip32.fold _ {xtok(root)} {ptok(idx)}")
                vlines.append(f"bip32.neuter {xtok(BIP32KeyData.b58decode(xprv))}")
                vlines.append(f"path.parse {hx(path.encode())}")
        _both(ctx, "vectors.model", vlines)


    def s03_master_key():  # master key from seed
        lines = []
        for _ in range(ctx.n(60, 600)):
            seed = rand_seed(rng) if rng.random() < 0.85 else common.rand_bytes(rng, rng.choice([0, 1, 15, 65, 66, 128]))
            r = rng.random()
            v = rng.choice(PRV_VERSIONS) if r < 0.8 else rng.choice(PUB_VERSIONS) if r < 0.9 else \
                common.rand_bytes(rng, rng.choice([4, 3, 5]))
            lines.append(f"bip32.root {hx(seed)} {hx(v)}")
        ctx.stream("bip32.root", lines)
        # the HMAC forced (keyed by the seed's last four bytes, on both sides): I_L zero / n / above n refused, n - 1 and 1 answered
        fl = []
        for _ in range(ctx.n(40, 400)):
            seed = rand_seed(rng)
            il = rng.choice([0, N, N + 1, 2**256 - 1, N - 1, 1, rng.randrange(1, N)])
            tok = f"{int.from_bytes(seed[-4:], 'big')}:{(il.to_bytes(32, 'big') + common.rand_bytes(rng, 32)).hex()}"
            fl.append(f"bip32.rootm {tok} {hx(seed)} {hx(rng.choice(PRV_VERSIONS))}")
            if il == 0 or il >= N:
                ctx.check("refuse.root-invalid-left-half", {"seed": seed.hex(), "mac": tok})
        ctx.stream("bip32.root-forced", fl)


    def s04_derive_public():  # derive: public entry point (object / text / bytes spellings), all fields compared
        lines, raw, fold = [], [], []
        for _ in range(ctx.n(500, 6000)):
            x = rng.choice(allk)
            if rng.random() < 0.12:
                x = malform(rng, x)
            p = rand_path(rng, 12, hardened_ok=x.key[:1] == b"\x00" or rng.random() < 0.15)
            if rng.random() < 0.03:
                p = p + [rng.choice([2**32, 2**32 + 1])]
            if x.depth >= 200 and rng.random() < 0.7:
                p = [rand_index(rng) % (H if x.key[0] else 2**32) for _ in range(max(0, 255 - x.depth + rng.choice([-1, 0, 0, 1])))]
            f = rand_forced(rng, x)
            lines.append(f"bip32.derive _ {xtok(x)} {ptok(p)} {f}")
            # `_derive` is private: its contract is a key its caller has validated and indexes already read
            if all(i < 2**32 for i in p) and _is_valid(x):
                raw.append(f"bip32.raw _ {xtok(x)} {ptok(p)} {f}")
                fold.append(f"bip32.fold _ {xtok(x)} {ptok(p)}")
        # the 255 boundary from depth 0 (a long walk, few of them)
        for _ in range(ctx.n(2, 10)):
            x = rng.choice([k for k in allk if k.depth == 0])
            for ln in (255, 256):
                p = [rand_index(rng) % (H if x.key[0] else 2**32) for _ in range(ln)]
                lines.append(f"bip32.derive _ {xtok(x)} {ptok(p)} none")
                fold.append(f"bip32.fold _ {xtok(x)} {ptok(p)}")
        _both(ctx, "bip32.derive", lines)
        _both(ctx, "bip32.raw", raw)
        # the BIP's plain fold of single steps against the real _derive: the last-step optimisation is invisible
        _both(ctx, "bip32.fold", fold[: ctx.n(300, 3000)])


    def s05_invalid_child():  # invalid-child branches (HMAC forced on both sides)
        fl = []
        for start, p, tok, bad in _forced_cases(rng, prv, pub, ctx.n(40, 600)):
            fl.append(f"bip32.raw {tok} {xtok(start)} {ptok(p)} none")
            fl.append(f"bip32.fold {tok} {xtok(start)} {ptok(p)}")
            if bad:
                for serving in (False, True):
                    ctx.check("refuse.invalid-child", {"x": xtok(start), "p": p, "mac": tok, "serving": serving})
        _both(ctx, "bip32.invalid-child", fl)


    def s06_neuter_fingerprint():  # neuter, fingerprint, validity
        lines = []
        for _ in range(ctx.n(120, 2000)):
            x = rng.choice(allk)
            if rng.random() < 0.35:
                x = malform(rng, x)
            lines += [f"bip32.neuter {xtok(x)}", f"bip32.fp {xtok(x)}", f"bip32.valid {xtok(x)}"]
        _both(ctx, "bip32.neuter-fp-valid", lines)


    def s15_serialization():  # the 78 bytes: serialize / parse on valid and malformed keys, mutated byte strings
        lines = []
        for _ in range(ctx.n(150, 2500)):
            x = rng.choice(allk)
            if rng.random() < 0.3:
                x = malform(rng, x)
            lines.append(f"bip32.ser {xtok(x)}")
            try:
                b = bytearray(x.serialize(check_validity=False))
            except Exception:  # noqa: BLE001 - a field that cannot be written (depth 256, index 2^32)
                continue
            r = rng.random()
            if r < 0.25 and b:
                b[rng.randrange(len(b))] ^= 1 << rng.randrange(8)
            elif r < 0.32:
                b = b[:-1] if rng.random() < 0.5 else b + b"\x00"
            elif r < 0.4 and len(b) >= 13:
                b[4] = 0                                     # depth 0 with whatever fingerprint / index was there
            if b:
                lines.append(f"bip32.parse {hx(bytes(b))}")
        _both(ctx, "bip32.serialization", lines)

    def s07_crack():  # crack
        lines = []
        for _ in range(ctx.n(60, 1000)):
            par = rng.choice([x for x in prv if x.depth < 255])
            i = rand_index(rng)
            child = bip32.derive_(par, [i])
            xpub = bip32.xpub_from_xprv_(par)
            r = rng.random()
            if r < 0.15:
                child = rng.choice(prv)                      # not the parent's child
            elif r < 0.25:
                xpub, child = child, xpub                    # roles swapped
            elif r < 0.3:
                child = malform(rng, child)
            lines.append(f"bip32.crack _ {xtok(xpub)} {xtok(child)}")
            for serving in (False, True):
                ctx.check("law.crack", {"x": xtok(par), "i": i, "serving": serving}, nontrivial=i < H)
        _both(ctx, "bip32.crack", lines)


    def s08_account_level():  # account-level derivation
        lines = []
        accounts = [x for x in allk if x.depth < 250]
        for _ in range(ctx.n(60, 1000)):
            x = rng.choice(accounts)
            b = rng.choice([0, 1, 1, 2, 0xFFFF, 0x10000, H, H + 1])
            a = rng.choice([0, 1, 5, 0xFFFF, 0x10000, H - 1, H])
            only = rng.random() < 0.6
            mx = rng.choice([0xFFFF, 0xFFFF, 10, H, 2**32])
            lines.append(f"bip32.account {xtok(x)} {b} {a} {only} {mx}")
            idx = [rng.choice([0, 1, 2, 7, 0xFFFF, 0x10000, H]) for _ in range(rng.randrange(0, 4))]
            lines.append(f"bip32.range {xtok(x)} {b} {ptok(idx)} {only} {mx}")
        _both(ctx, "bip32.account", lines)
        for _ in range(ctx.n(10, 100)):
            x = rng.choice([k for k in accounts if k.index >= H])
            ctx.check("account.range", {"x": xtok(x), "b": rng.choice([0, 1]), "idx": [rng.randrange(0, 0x10000) for _ in range(3)],
                                        "serving": rng.random() < 0.5})


    def s09_the_laws():  # the laws on the real code alone
        for _ in range(ctx.n(40, 600)):
            x = rng.choice([k for k in allk if k.depth < 200])
            p = rand_path(rng, 8, hardened_ok=x.key[:1] == b"\x00")
            ctx.check("law.split", {"x": xtok(x), "p": p, "serving": rng.random() < 0.5})
        for _ in range(ctx.n(40, 600)):
            x = rng.choice([k for k in prv if k.depth < 200])
            ctx.check("law.neuter", {"x": xtok(x), "p": rand_path(rng, 8, hardened_ok=False), "serving": rng.random() < 0.5})
        for _ in range(ctx.n(30, 300)):
            x = rng.choice([k for k in pub if k.depth < 200])
            p = rand_path(rng, 6, hardened_ok=False)
            p.insert(rng.randrange(len(p) + 1), rng.randrange(H, 2**32))
            ctx.check("refuse.hardened-pub", {"x": xtok(x), "p": p, "serving": rng.random() < 0.5})
        for _ in range(ctx.n(30, 300)):
            x = rng.choice([k for k in pub if k.depth < 200])
            p = rand_path(rng, 6, hardened_ok=rng.random() < 0.15)
            ctx.check("tweaks.sum", {"x": xtok(x), "p": p, "serving": rng.random() < 0.5}, nontrivial=all(i < H for i in p))
        for _ in range(ctx.n(12, 60)):
            x = rng.choice([k for k in allk if k.depth >= 250])
            room = 255 - x.depth
            for ln in {max(0, room - 1), room, room + 1}:
                p = [rng.randrange(0, H) for _ in range(ln)]
                ctx.check("refuse.depth", {"x": xtok(x), "p": p, "serving": rng.random() < 0.5}, nontrivial=ln <= room)


    def s10_path_spellings():  # path spellings
        lines = []
        for _ in range(ctx.n(150, 3000)):
            p = [rand_index(rng) for _ in range(rng.choice([0, 1, 2, 3, 5, 12]))]
            hsym = rng.choice(["h", "'"])
            ctx.check("path.roundtrip", {"p": p, "h": hsym, "fp": common.rand_bytes(rng, 4).hex()})
            lines.append(f"path.str {ptok(p)} {hx(rng.choice(['h', chr(39), 'H', '', 'hh', 'x']).encode())}")
            lines.append(f"path.bytes {ptok(p + ([2**32] if rng.random() < 0.1 else []))}")
            b = der_path.bytes_from_der_path(p) + common.rand_bytes(rng, rng.choice([0, 0, 0, 1, 2, 4]))
            lines.append(f"path.frombytes {hx(b)}")
            s = der_path.str_from_der_path(p, hardening=hsym)
            s = _mutate_path_text(rng, s)
            op = "path.parse380" if rng.random() < 0.3 else "path.parse"
            lines.append(f"{op} {hx(s.encode('latin-1'))}")
        # boundary: 2^31-1 / 2^31 as plain numbers and with markers, long paths around the 255 cap
        for s in ["m", "", "/", "m/", "M", "m/m", "2147483647", "2147483648", "2147483647h", "2147483648h", "m/0h/0'/0H",
                  "m/-0", "m/+1", "m/1_0", "m/1__0", "m/_1", "m/1_", "m/ 1 /2", "m/0x10", "m/١", "m/h", "m/'",
                  "/".join(["m"] + ["0"] * 255), "/".join(["m"] + ["0"] * 256), "/".join(["0"] * 256), "0/m", "m/0 h", "m/0h ",
              "m/5\x1ch", "m/\x1c5", "m/5\x1c", "m/5\xa0h", "m/\x855'", "m/5\x1f/1", "m/ \x1d 7 \x1e"]:
            try:
                b = s.encode("latin-1")
            except UnicodeEncodeError:
                continue
            lines += [f"path.parse {hx(b)}", f"path.parse380 {hx(b)}"]
        ctx.stream("path.spellings", lines)


    def s11_thin_layers():  # thin layers: BIP85 entropy, BIP44 address formula, SLIP132 versions
        lines = []
        for _ in range(ctx.n(40, 600)):
            x = rng.choice([k for k in allk if k.depth < 200])
            r = rng.random()
            p = [bip85._PURPOSE + H] + [rng.randrange(H, 2**32) for _ in range(rng.choice([1, 2, 2, 3, 5]))]
            good = len(p) >= 3
            if r < 0.15:
                p[rng.randrange(len(p))] %= H
                good = False
            elif r < 0.25:
                p[0] = rng.choice([bip85._PURPOSE, 44 + H])
                good = False
            lines.append(f"bip85.entropy {xtok(x)} {ptok(p)}")
            if good and x.key[0] == 0:
                ctx.check("bip85.formula", {"x": xtok(x), "p": p, "serving": rng.random() < 0.5})
        _both(ctx, "bip85.entropy", lines)
        roots = [k for k in prv if k.depth == 0]
        for _ in range(ctx.n(40, 400)):
            root = rng.choice(roots)
            main = network.network_type_from_xkeyversion(root.version) == "main"
            purpose = rng.choice([44, 49, 84, 86])
            coin = (0 if main else 1) if rng.random() < 0.85 else rng.choice([0, 1, 2])
            p = [purpose + H, coin + H, rng.randrange(0, 5) + H, rng.choice([0, 1]), rng.randrange(0, 1000)]
            depth = rng.choice([0, 0, 3, 3, 4, 5])
            x = bip32.derive_(root, p[:depth])
            if depth >= 3 and rng.random() < 0.5:
                x = bip32.xpub_from_xprv_(x)
            refuse = coin != (0 if main else 1)
            ctx.check("bip44.formula", {"x": xtok(x), "p": p, "expect_refusal": refuse, "serving": rng.random() < 0.5},
                      nontrivial=not refuse)
        for _ in range(ctx.n(20, 200)):
            x = rng.choice([k for k in allk if k.depth < 200])
            p = rand_path(rng, 3, hardened_ok=x.key[:1] == b"\x00")
            ctx.check("slip132.version", {"x": xtok(x), "p": p, "serving": rng.random() < 0.5})

    def s12_hardened_boundary():  # the 2^31 boundary through every index-taking public API, public parent
        roots = [k for k in prv if k.depth == 0]
        lines, acc_lines = [], []
        for _ in range(ctx.n(3, 12)):
            root = rng.choice(roots)
            main = network.network_type_from_xkeyversion(root.version) == "main"
            acct_prv = bip32.derive_(root, [44 + H, (0 if main else 1) + H, rng.randrange(5) + H])
            acct = bip32.xpub_from_xprv_(acct_prv)
            x = rng.choice([k for k in pub if k.depth < 200])
            for ak in (acct, acct_prv):
                for b_, a_ in [(0, i_) for i_ in BOUNDARY] + [(i_, 0) for i_ in BOUNDARY]:
                    acc_lines.append(f"bip32.account {xtok(ak)} {b_} {a_} False {2**32}")
                    acc_lines.append(f"bip32.range {xtok(ak)} {b_} {ptok([0, a_])} False {2**32}")
            for i in BOUNDARY + [0, 1, rng.randrange(H), rng.randrange(H, 2**32)]:
                for serving in (False, True):
                    ctx.check("refuse.hardened-boundary",
                              {"x": xtok(x), "acct": xtok(acct), "acct_prv": xtok(acct_prv), "i": i, "serving": serving},
                              nontrivial=i < H)
                for path in ([i], [0, i], [i, 1], [0, 1, i]):
                    lines.append(f"bip32.tweaks _ {hx(x.key)} {hx(x.chain_code)} {ptok(path)}")
        for _ in range(ctx.n(80, 1500)):
            x = rng.choice(pub)
            key, cc = x.key, x.chain_code
            r = rng.random()
            if r < 0.05:
                key = bytes([rng.choice([0, 1, 4, 5])]) + key[1:]
            elif r < 0.1:
                key = bytes([rng.choice([2, 3])]) + common.rand_bytes(rng, 32)
            elif r < 0.13:
                key = key[:-1]
            elif r < 0.16:
                cc = cc + b"\x00"
            elif r < 0.2:
                key = rng.choice(prv).key
            p = rand_path(rng, 6, hardened_ok=rng.random() < 0.2)
            if rng.random() < 0.03:
                p = p + [2**32]
            lines.append(f"bip32.tweaks _ {hx(key)} {hx(cc)} {ptok(p)}")
        _both(ctx, "bip32.tweaks", lines)
        _both(ctx, "bip32.account-boundary", acc_lines)
        # the invalid-child branches of pub_key_derivation_tweaks (HMAC forced on both sides, both arms):
        # IL >= n refused; parent k·G with IL = n - k is the child at infinity, refused with the LIBRARY's error
        from btclib.curves import bytes_from_point, mult
        fl = []
        five_g = bytes_from_point(mult(5))
        for _ in range(ctx.n(30, 400)):
            i = rng.choice([0, 5, 77, 1000, H - 1])
            ir = common.rand_bytes(rng, 32)
            if rng.random() < 0.4:
                key, cc, pre, k = five_g, common.rand_bytes(rng, 32), [], 5
            else:
                xp = rng.choice([k_ for k_ in prv if k_.depth < 200])
                pre = [j for j in rand_path(rng, 3, hardened_ok=False) if j != i]
                k = int.from_bytes(bip32.derive_(xp, pre).key[1:], "big")
                xq = bip32.xpub_from_xprv_(xp)
                key, cc = xq.key, xq.chain_code
            post = [j for j in rand_path(rng, 2, hardened_ok=False) if j != i]
            il = rng.choice([N - k, N - k, N - k, N, N + 1, 2**256 - 1, N - 1, (N - k + 1) % N, 1, 0])
            tok = f"{i}:{(il.to_bytes(32, 'big') + ir).hex()}"
            path = pre + [i] + post
            fl.append(f"bip32.tweaks {tok} {hx(key)} {hx(cc)} {ptok(path)}")
            if il >= N or il == N - k:
                for serving in (False, True):
                    ctx.check("refuse.tweaks-invalid-child", {"key": key.hex(), "cc": cc.hex(), "p": path, "mac": tok,
                                                              "serving": serving})
        _both(ctx, "bip32.tweaks-invalid-child", fl)

    def s13_bip85_leading_zero():  # bip85 on children whose private key begins with a zero byte
        roots = [k for k in prv if k.depth < 200]
        found = find_leading_zero_paths(rng, roots, ctx.n(3, 24), tries=ctx.n(6000, 40000))
        if not found:
            ctx.note("bip85.leading-zero: no leading-zero child found in this run's search")
        lines = []
        for x, p in found:
            for serving in (False, True):
                ctx.check("bip85.leading-zero", {"x": xtok(x), "p": p, "serving": serving})
            lines.append(f"bip85.entropy {xtok(x)} {ptok(p)}")
        _both(ctx, "bip85.leading-zero", lines)

    def s14_bip85_applications():  # BIP85 applications: model stream (Lean SHAKE256 validated first) + reference oracle
        ctx.stream("bip85.shake256", c07_bip85.shake_lines(rng, ctx.n(20, 200)))
        for serving in (False, True):
            ctx.check("bip85.apps.vectors", {"serving": serving})
        good = [k for k in prv if k.depth < 200]
        keys = good * 6 + [k for k in pub if k.depth < 200][:3] + [malform(rng, rng.choice(good)) for _ in range(3)]
        lines = []
        vroot = BIP32KeyData.b58decode(json.load(open(c07_bip85.VECTORS))["master_bip32_root_key"])
        for app, a in [("rolls", [10, 6, 0]), ("hex", [64, 0]), ("pwd64", [21, 0]), ("pwd85", [12, 0]), ("wif", [0]), ("xprv", [0]),
                       ("bip39", [12, 0, 0]), ("bip39", [18, 0, 0]), ("bip39", [24, 0, 0]), ("rsa", [4096, 0, None, 80])]:
            lines.append(c07_bip85.line_of(vroot, app, a, xtok))
        # every dice width at least once per run, on the vector root
        for sides in c07_bip85.SIDES:
            lines.append(c07_bip85.line_of(vroot, "rolls", [12, sides, 1], xtok))
            for serving in (False, True):
                ctx.check("bip85.apps.reference", {"x": xtok(vroot), "app": "rolls", "args": [12, sides, 1], "serving": serving},
                          nontrivial=sides < H)
        for x, app, a in c07_bip85.gen_cases(rng, keys, ctx.n(160, 2500)):
            lines.append(c07_bip85.line_of(x, app, a, xtok))
            if _is_valid(x):
                ctx.check("bip85.apps.reference", {"x": xtok(x), "app": app, "args": a, "serving": rng.random() < 0.5})
        lines += c07_bip85.forced_lines(rng, good, ctx.n(40, 400), xtok, N)
        _both(ctx, "bip85.apps", lines)

    for fn in (s14_bip85_applications, s15_serialization, s01_version_pairing, s02_official_vectors, s03_master_key, s04_derive_public, s05_invalid_child, s06_neuter_fingerprint, s07_crack, s08_account_level, s09_the_laws, s10_path_spellings, s11_thin_layers,
               s12_hardened_boundary, s13_bip85_leading_zero):
        _guard(ctx, fn)


def _mutate_path_text(rng, s):
    r = rng.random()
    if r < 0.35:
        return s
    if r < 0.5:
        return s.replace("h", "H") if rng.random() < 0.5 else s[2:] if len(s) > 2 else s
    if r < 0.65:
        return s.replace("/", rng.choice([" / ", "//", "/ ", " /"])) + rng.choice(["", "/", " ", "/ "])
    if r < 0.75:
        return s.replace("m", rng.choice(["M", " m", "m ", "mm", ""]), 1)
    k = rng.randrange(len(s) + 1)
    ins = rng.choice(["_", "+", "-", " ", "h", "'", "H", "0", "9", "/", "x", "\t", "\xa0", "\x85", "\x1c", "m", "2147483648",
                      "4294967296"])
    if rng.random() < 0.5 and k < len(s):
        return s[:k] + ins + s[k + 1:]
    return s[:k] + ins + s[k:]
