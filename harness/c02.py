"""C02 — ECDSA: signatures verify, verification is the SEC 1 equation, recovery, RFC 6979, DER (DESIGN §3 C02)."""
from __future__ import annotations

import hashlib
from contextlib import contextmanager

from btclib.curves import CURVES, Curve, mult, secp256k1
from btclib.curves.curve import is_libsecp256k1_serving, set_libsecp256k1_serving
from btclib.ecc import bms, dsa
from btclib.ecc.rfc6979_nonce import _rfc6979_nonce_, challenge_

from . import common, shared
from .common import hx, unhx

PROP = "C02"
EXE = "drv_c02"
GEN_MODULES = ["Ecdsa", "VarInt"]
RULE = ("toy curves: every (c, q, k, lower_s) for signing, every (r, s) in 0..n+1 x every key point for verification, "
        "every key_id for recovery; catalogued curves: seeded random + boundary scalars/messages with sha256/sha1/sha512; "
        "DER: structure-aware mutations of valid encodings + random strings; every secp256k1 line is evaluated under BOTH "
        "backends (libsecp256k1 serving on/off) and the two answers must coincide; bms: every flag x address type x low-s / "
        "high-s twin x both arms; histories: every (build, use, use) dispatch state of a dsa.Signer; non-trivial = not refused at the "
        "first check; distinct = distinct (stream, op line)")
TRUSTED = [
    "Lawful for Btc.EC.ops C is PROVED by C01 (lawful_ec / lawfulGroup_ec) on the n-torsion carrier for CurveOk curves; "
    "CurveOk is instantiated at secp256k1 (kernel evaluation + Pratt certificates for p and n; cofactor one proved: "
    "Btc.E2E.secpCofactorOne) and a 31-point toy curve only: the other catalogued curves and the harness's toy curves are "
    "tied by correspondence",
    "HMAC/SHA/RIPEMD executables in Lean are validated against hashlib each run, not verified",
    "modelled, tied by correspondence only: RFC 6979 byte plumbing (plus independent in-harness RFC 6979 oracles), "
    "DER reader, public entry-point glue (argument checks, dispatch to libsecp256k1, libsecp256k1's own x-coordinate "
    "test; the model's test isXCoord (Euler's criterion) is proved complete and stream-compared with btclib's Jacobi loop), "
    "the magic-message digest, address decoding and base64 spelling above bms.sign / bms.assert_as_valid (T8d itself is proved about the EXECUTED runs over raw EC.ops pairs: bms_sign_then_verify_ec_raw / bms_sign_then_verify_secp256k1, through the carrier-to-raw run equalities bms_run_eq_secp256k1; the driver's environment is bmsEnvRaw (secSer 32) hash160), "
    "the bindings arm of bms and dsa.Signer (oracles bms.matrix, signer.history)",
    "points with y = 0 (2-torsion, only on even-order toy curves) are infinity for the GroupOps abstraction as for "
    "btclib's affine API: verification cases whose K is such a point, and recovery candidates lifted from a 2-torsion "
    "x, are decided by the brute-force SEC 1 oracle only",
]
ASSUMPTIONS = [
    "secp256k1: none (primality of p, n and cofactor one are proved)",
    "generic CurveOk curve, ARBITRARY keys (ecdsa_verify_api_is_sec1_ec_cofactor_one only): cofactor one (hcof); keys "
    "built from G or in the n-torsion carrier need no assumption",
    "p = 3 (mod 4) on the E2E recovery theorems only (lift_x); sign/verify E2E theorems hold on every odd prime field",
    "bms_sign_then_verify (abstract groups): p < 2n, serialization a function of the group element, complete x-coordinate "
    "screen; bms_sign_then_verify_ec / _ec_raw: CurveOk, p = 3 (mod 4), p < 2n; bms_sign_then_verify_secp256k1 / "
    "bms_run_eq_secp256k1: none",
    "primality of n for curves other than secp256k1 (secp256k1: proved, Btc.E2E.secp256k1_p_prime/_n_prime)",
    "unforgeability is not a theorem",
]

HF = {"sha256": hashlib.sha256, "sha1": hashlib.sha1, "sha512": hashlib.sha512}

# ------------------------------------------------------------------ curves
# (p, a, b, G, n, h): tests' low-cardinality curves + brute-forced ones with a TRUE cofactor 2, 3, 4
TOY = {
    "t13_11": (13, 7, 6, (1, 1), 11, 1),      # n < p, h = 1   (tests: ec13_11)
    "t19_13c2": (19, 1, 9, (0, 3), 13, 2),    # group order 26: true cofactor 2, has a 2-torsion point
    "t23_19": (23, 9, 7, (5, 4), 19, 1),      # n < p, h = 1   (tests: ec23_19)
    "t13_19": (13, 0, 2, (1, 9), 19, 1),      # n > p          (tests: ec13_19)
    "t23_11c3": (23, 1, 11, (7, 4), 11, 3),   # true cofactor 3: x_K // n reaches 2
    "t19_13n2": (19, 0, 2, (4, 16), 13, 2),   # nominal cofactor 2 (13 points; tests: ec19_13)
    "t37_11c4": (37, 1, 10, (1, 7), 11, 4),   # true cofactor 4 (G checked to have order n by the group table below)
    "t23_31": (23, 5, 1, (0, 1), 31, 1),      # n > p          (tests: ec23_31)
    "t23_13c2": (23, 1, 18, (0, 8), 13, 2),   # true cofactor 2
    "t17_13": (17, 6, 8, (0, 12), 13, 2),     # p = 1 mod 8: sign/verify only (shared model has no Tonelli-Shanks)
    "t17_23": (17, 3, 5, (1, 14), 23, 1),     # p = 1 mod 8: sign/verify only
    "t19_23": (19, 2, 9, (0, 16), 23, 1),
    "t11_13": (11, 1, 6, (2, 4), 13, 1),      # n > p, small (brute-forced)
}
QUICK_TOY = ["t13_11", "t19_13c2", "t11_13", "t23_11c3"]
_CURVES: dict[str, Curve] = {}


def token(name: str) -> str:
    if name in TOY:
        p, a, b, G, n, h = TOY[name]
        return f"toy:{p}:{a}:{b}:{G[0]}:{G[1]}:{n}:{h}"
    return name


def curve(tok: str) -> Curve:
    if tok not in _CURVES:
        if tok.startswith("toy:"):
            p, a, b, gx, gy, n, h = (int(x) for x in tok.split(":")[1:])
            _CURVES[tok] = Curve(p, a, b, (gx, gy), n, h, False)
        else:
            _CURVES[tok] = CURVES[tok]
    return _CURVES[tok]


def sqrt_ok(ec) -> bool:
    return ec.p % 4 == 3 or ec.p % 8 == 5


class Table:
    """Independent brute-force group of a toy curve: affine chord-and-tangent with an honest point at
    infinity (None) and honest 2-torsion points (x, 0)."""

    def __init__(self, ec):
        self.p, self.a, self.b, self.n = ec.p, ec._a, ec._b, ec.n
        p = self.p
        self.points = [(x, y) for x in range(p) for y in range(p) if (y * y - (x * x * x + self.a * x + self.b)) % p == 0]
        self.G = ec.G
        self.torsion_x = {x for (x, y) in self.points if y == 0}
        self.keys = [P for P in self.points if P[1] != 0]
        # the constructor's own order check is not relied upon (it accepts generators of order 2n on even-order
        # curves): the harness only uses toy curves whose G has order exactly n in the brute-force group
        if self.mul(self.n, self.G) is not None or any(self.mul(d, self.G) is None for d in range(1, self.n)):
            raise common.HarnessError(f"toy curve {ec!r}: G does not have order n in the brute-force group")

    def add(self, P, Q):
        if P is None:
            return Q
        if Q is None:
            return P
        p = self.p
        if P[0] == Q[0]:
            if (P[1] + Q[1]) % p == 0:
                return None
            lam = (3 * P[0] * P[0] + self.a) * pow(2 * P[1], -1, p) % p
        else:
            lam = (Q[1] - P[1]) * pow(Q[0] - P[0], -1, p) % p
        x = (lam * lam - P[0] - Q[0]) % p
        return x, (lam * (P[0] - x) - P[1]) % p

    def mul(self, m, P):
        R = None
        for _ in range(m):
            R = self.add(R, P)
        return R

    def K(self, c, Q, r, s):
        w = pow(s, -1, self.n)
        return self.add(self.mul(c * w % self.n, self.G), self.mul(r * w % self.n, Q))

    def sec1_verify(self, c, Q, r, s):
        """SEC 1 v2 4.1.4 by the group table."""
        if not (0 < r < self.n and 0 < s < self.n):
            return False
        K = self.K(c, Q, r, s)
        return K is not None and K[0] % self.n == r


_TABLES: dict[str, Table] = {}


def table(tok) -> Table:
    if tok not in _TABLES:
        _TABLES[tok] = Table(curve(tok))
    return _TABLES[tok]


def digest_for(c: int, ec, hf="sha256") -> bytes:
    """a digest whose challenge is c (toy curves: nlen <= 8)."""
    size = HF[hf]().digest_size
    assert ec.nlen <= 8 and 0 <= c < 2 ** ec.nlen
    return bytes([c << (8 - ec.nlen)]) + bytes(size - 1)


# ------------------------------------------------------------------ backends
@contextmanager
def serving(flag: bool):
    old = is_libsecp256k1_serving()
    set_libsecp256k1_serving(serving=flag)
    try:
        yield
    finally:
        set_libsecp256k1_serving(serving=old)


def both(fn, secp: bool) -> str:
    """evaluate under both backends when the curve is secp256k1; they must agree."""
    if not secp:
        with serving(False):
            return fn()
    with serving(True):
        a = fn()
    with serving(False):
        b = fn()
    return a if a == b else f"backend-divergence lib=[{a}] py=[{b}]"


from btclib import exceptions as _E  # noqa: E402


def _err_class(e: BaseException) -> str:
    """common.err_class without its per-call imports (no script error can arise here)."""
    if isinstance(e, _E.BTClibValueError):
        return "value"
    if isinstance(e, _E.BTClibTypeError):
        return "type"
    if isinstance(e, _E.BTClibRuntimeError):
        return "runtime"
    return common.err_class(e)


def _call(fn, render) -> str:
    try:
        v = fn()
    except Exception as e:  # noqa: BLE001
        c = _err_class(e)
        return "err " + (c if not c.startswith("foreign") else "foreign")
    return render(v)


def _pt(ec, QJ):
    Q = ec.aff_from_jac_var(QJ)
    return "inf" if Q[1] == 0 else f"ok {Q[0]} {Q[1]}"


def _pt2(Q):
    return "inf" if Q[1] == 0 else f"ok {Q[0]} {Q[1]}"


def _oi(s):
    return None if s == "-" else int(s)


# ------------------------------------------------------------------ implementation side
def impl(line: str) -> str:
    try:
        return _impl(line)
    except Exception as e:  # noqa: BLE001 - never let the real code's surprise take the harness down
        return f"err escaped:{type(e).__name__}"


def _impl(line: str) -> str:  # noqa: C901, PLR0911, PLR0912
    t = line.split(" ")
    op = t[0]
    if op.startswith("der.") or op.startswith("bms."):
        return _impl_der_bms(t)
    ec = curve(t[1]) if op != "ecdsa.verifyder" else secp256k1
    secp = ec == secp256k1
    if op == "ecdsa.sign":
        c, q, k, ls = int(t[2]), int(t[3]), int(t[4]), t[5] == "1"
        return both(lambda: _call(lambda: dsa._sign_recoverable_(c, q, k, ls, ec),
                                  lambda v: f"ok {v[0].r} {v[0].s} {v[1]}"), secp)
    if op == "ecdsa.vcore":
        c, qx, qy, r, s, ls = int(t[2]), int(t[3]), int(t[4]), int(t[5]), int(t[6]), t[7] == "1"
        return both(lambda: _call(lambda: dsa._assert_as_valid_(c, (qx, qy, 1), r, s, ec, ec._fixed_points, lower_s=ls),
                                  lambda _v: "ok"), secp)
    if op == "ecdsa.verify_":
        hf, m, qx, qy, r, s = HF[t[2]], unhx(t[3]), int(t[4]), int(t[5]), int(t[6]), int(t[7])

        def f():
            sig = dsa.Sig(r, s, ec, check_validity=False)
            b = dsa.verify_(m, (qx, qy), sig, hf)
            # the acceptance set of the boolean and of the asserting spelling must be one set
            try:
                dsa.assert_as_valid_(m, (qx, qy), sig, hf)
                a = True
            except Exception as e:  # noqa: BLE001
                a = False
                if _err_class(e) not in ("value", "runtime"):
                    return "err foreign"
            return f"ok {b} {a}"
        return both(lambda: _call(f, lambda v: v), secp)
    if op == "ecdsa.verifyder":
        hf, m, qx, qy, sg = HF[t[1]], unhx(t[2]), int(t[3]), int(t[4]), unhx(t[5])
        return both(lambda: _call(lambda: dsa.verify_(m, (qx, qy), sg, hf), lambda v: f"ok {v}"), True)
    if op == "ecdsa.challenge":
        return _call(lambda: challenge_(unhx(t[3]), ec, HF[t[2]]), lambda v: f"ok {v}")
    if op == "rfc.nonce":
        return _call(lambda: _rfc6979_nonce_(int(t[3]), int(t[4]), ec, HF[t[2]], unhx(t[5]) or None), lambda v: f"ok {v}")
    if op == "ecdsa.signmsg":
        hf, m, q, k, ls, gr = HF[t[2]], unhx(t[3]), int(t[4]), _oi(t[5]), t[6] == "1", t[7] == "1"
        return both(lambda: _call(lambda: dsa.sign_(m, q, k, ls, ec, hf, grind=gr), lambda v: f"ok {v.r} {v.s}"), secp)
    if op == "ecdsa.signrec":
        hf, m, q, k, ls = HF[t[2]], unhx(t[3]), int(t[4]), _oi(t[5]), t[6] == "1"
        return both(lambda: _call(lambda: dsa.sign_recoverable_(m, q, k, ls, ec, hf),
                                  lambda v: f"ok {v[0].r} {v[0].s} {v[1]}"), secp)
    if op == "ecdsa.recover":
        kid, c, r, s, ls = int(t[2]), int(t[3]), int(t[4]), int(t[5]), t[6] == "1"
        return both(lambda: _call(lambda: dsa._recover_pub_key_(kid, c, r, s, ec, lower_s=ls), lambda v: _pt(ec, v)), secp)
    if op == "ecdsa.recoverall":
        c, r, s, ls = int(t[2]), int(t[3]), int(t[4]), t[5] == "1"
        return both(lambda: _call(lambda: dsa._recover_pub_keys_(c, r, s, ec, lower_s=ls),
                                  lambda v: "ok" + "".join(" %d %d" % ec.aff_from_jac_var(Q) for Q in v)), secp)
    if op == "ecdsa.recover_":
        hf, kid, m, r, s = HF[t[2]], int(t[3]), unhx(t[4]), int(t[5]), int(t[6])
        return both(lambda: _call(lambda: dsa.recover_pub_key_(kid, m, dsa.Sig(r, s, ec, check_validity=False), hf), _pt2), secp)
    if op == "ecdsa.recoverall_":
        hf, m, r, s = HF[t[2]], unhx(t[3]), int(t[4]), int(t[5])
        return both(lambda: _call(lambda: dsa.recover_pub_keys_(m, dsa.Sig(r, s, ec, check_validity=False), hf),
                                  lambda v: "ok" + "".join(" %d %d" % Q for Q in v)), secp)
    if op == "ecdsa.crack_":
        hf = HF[t[2]]
        m1, r1, s1, m2, r2, s2 = unhx(t[3]), int(t[4]), int(t[5]), unhx(t[6]), int(t[7]), int(t[8])
        return _call(lambda: dsa.crack_prv_key_var_(m1, dsa.Sig(r1, s1, ec, check_validity=False),
                                                    m2, dsa.Sig(r2, s2, ec, check_validity=False), hf),
                     lambda v: f"ok {v[0]} {v[1]}")
    return "bad-op"


def _impl_der_bms(t) -> str:
    op = t[0]
    if op == "der.parse":
        return _call(lambda: dsa.Sig.parse(unhx(t[2]), check_validity=False, strict=t[1] == "1"), lambda v: f"ok {v.r} {v.s}")
    if op == "der.parsev":
        return both(lambda: _call(lambda: dsa.Sig.parse(unhx(t[2]), strict=t[1] == "1"), lambda v: f"ok {v.r} {v.s}"), True)
    if op == "der.ser":
        return _call(lambda: dsa.Sig(int(t[1]), int(t[2]), check_validity=False).serialize(check_validity=False),
                     lambda v: "ok " + hx(v))
    if op == "bms.sign":
        return _bms_sign_line(t)
    if op == "bms.verify":
        return _bms_verify_line(t)
    if op == "bms.flag":
        return _bms_flag(int(t[1]), t[2] == "1", t[3])
    if op == "bms.read":
        return _bms_read(int(t[1]), t[2])
    return "bad-op"


def bms_addr_payload(addr: str):
    """(type token, 20-octet payload) of an address, as the model's `Bms.Addr`"""
    from btclib.b32 import is_segwit_prefixed, witness_from_address
    from btclib.b58 import h160_from_address
    if is_segwit_prefixed(addr):
        return "p2wpkh", witness_from_address(addr)[1]
    typ, h160, _ = h160_from_address(addr)
    return ("p2pkh" if typ == "p2pkh" else "p2sh"), h160


def bms_digest(msg: bytes) -> bytes:
    """the digest dsa.sign_recoverable / recover_pub_key work on: hf(magic_message(msg))"""
    from btclib.hashes import magic_message
    return hashlib.sha256(magic_message(msg)).digest()


def _bms_sign_line(t) -> str:
    # bms.sign <digest> <q> <compressed> <type|-> <payload|-> <msg> <addr|->
    from btclib.b58 import wif_from_prv_key
    mm, q, comp, msg, addr = unhx(t[1]), int(t[2]), t[3] == "1", unhx(t[6]), (None if t[7] == "-" else t[7])
    if bms_digest(msg) != mm or (addr is not None and bms_addr_payload(addr) != (t[4], unhx(t[5]))):
        raise common.HarnessError(f"bms.sign line inconsistent: {t}")
    wif = wif_from_prv_key(q, "mainnet", comp)
    return both(lambda: _call(lambda: bms.sign(msg, wif, addr), lambda v: f"ok {v.rf} {v.dsa_sig.r} {v.dsa_sig.s}"), True)


def _bms_verify_line(t) -> str:
    # bms.verify <digest> <type> <payload> <rf> <r> <s> <msg> <addr>
    mm, rf, r, s, msg, addr = unhx(t[1]), int(t[4]), int(t[5]), int(t[6]), unhx(t[7]), t[8]
    if bms_digest(msg) != mm or bms_addr_payload(addr) != (t[2], unhx(t[3])):
        raise common.HarnessError(f"bms.verify line inconsistent: {t}")
    sig = bms.Sig(rf, dsa.Sig(r, s, check_validity=False), check_validity=False)
    with serving(False):
        py = _call(lambda: bms.assert_as_valid(msg, addr, sig), lambda _v: "ok")
        pyb = bms.verify(msg, addr, sig)
    with serving(True):
        lib = _call(lambda: bms.assert_as_valid(msg, addr, sig), lambda _v: "ok")
        libb = bms.verify(msg, addr, sig)
    # the exception CLASS of a refusal is compared on the Python arm; the arms must agree on the verdict
    if (py == "ok") != (lib == "ok") or pyb != (py == "ok") or libb != (lib == "ok"):
        return f"backend-divergence lib=[{lib} {libb}] py=[{py} {pyb}]"
    return py


_BMS_Q = 0xC0FFEE
_BMS_MSG = b"C02 recovery flag probe"
_BMS_CACHE: dict = {}


def _bms_material(compressed: bool):
    """one fixed key: wif, the three addresses, and the key_id its signature of _BMS_MSG carries."""
    if compressed not in _BMS_CACHE:
        from btclib.b32 import p2wpkh
        from btclib.b58 import p2pkh, p2wpkh_p2sh, wif_from_prv_key
        wif = wif_from_prv_key(_BMS_Q, "mainnet", compressed)
        addrs = {"p2pkh": p2pkh(wif)}
        if compressed:
            addrs["p2sh"] = p2wpkh_p2sh(wif)
            addrs["p2wpkh"] = p2wpkh(wif)
        else:
            # an uncompressed key owns no segwit address: hand bms the compressed key's, it must refuse
            cw = wif_from_prv_key(_BMS_Q, "mainnet", True)
            addrs["p2sh"] = p2wpkh_p2sh(cw)
            addrs["p2wpkh"] = p2wpkh(cw)
        _, kid = dsa.sign_recoverable(__import__("btclib.hashes", fromlist=["magic_message"]).magic_message(_BMS_MSG), _BMS_Q)
        _BMS_CACHE[compressed] = (wif, addrs, kid)
    return _BMS_CACHE[compressed]


def _bms_flag(kid: int, compressed: bool, typ: str) -> str:
    """the flag bms.sign writes, observed on the real function with dsa.sign_recoverable's key_id forced to kid."""
    wif, addrs, _ = _bms_material(compressed)
    orig = dsa.sign_recoverable
    try:
        dsa.sign_recoverable = lambda m, q: (orig(m, q)[0], kid)
        return _call(lambda: bms.sign(_BMS_MSG, wif, addrs[typ]), lambda v: f"ok {v.rf}")
    finally:
        dsa.sign_recoverable = orig


def _bms_read(rf: int, typ: str) -> str:
    """what bms.assert_as_valid reads out of a flag: the key_id and compression it asks recovery for (observed by
    intercepting the recovery call, both backends) and whether an address of type typ whose hash matches is accepted."""
    seen = {}
    wif, addrs, kid0 = _bms_material(True)
    sig0 = bms.sign(_BMS_MSG, wif)
    outs = []
    for flag in (True, False):
        with serving(flag):
            o1, o2 = bms._libsecp256k1_recover_sec_, dsa.recover_pub_key
            r1, r2 = bms.bytes_from_point, bms.hash160

            def rec_sec(key_id, m, s, compressed, *, lower_s):
                seen["kid"], seen["comp"] = key_id, compressed
                return b"\x02" + bytes(32)

            def rec_pt(key_id, m, s, hf):
                seen["kid"] = key_id
                return (1, 1)

            def bfp(Q, compressed=True):
                seen["comp"] = compressed
                return b"\x02" + bytes(32)
            h160 = {"p2pkh": None, "p2sh": None, "p2wpkh": None}
            from btclib.b32 import witness_from_address
            from btclib.b58 import h160_from_address
            target = witness_from_address(addrs[typ])[1] if typ == "p2wpkh" else h160_from_address(addrs[typ])[1]
            bms._libsecp256k1_recover_sec_, dsa.recover_pub_key = rec_sec, rec_pt
            bms.bytes_from_point, bms.hash160 = bfp, (lambda _b: target)
            try:
                sig = bms.Sig(rf, sig0.dsa_sig, check_validity=False)
                try:
                    bms.assert_as_valid(_BMS_MSG, addrs[typ], sig)
                    acc = True
                except Exception as e:  # noqa: BLE001
                    if _err_class(e) not in ("value", "runtime"):
                        return "err foreign"
                    acc = False
            finally:
                bms._libsecp256k1_recover_sec_, dsa.recover_pub_key = o1, o2
                bms.bytes_from_point, bms.hash160 = r1, r2
            if "kid" not in seen:   # refused before recovery (flag out of range)
                outs.append(f"ok {(rf - 27) % 4 if rf >= 27 else 0} {rf > 30} {acc} norecover")
            else:
                outs.append(f"ok {seen['kid']} {seen['comp']} {acc}")
            seen.clear()
    a, b = outs
    if a.replace(" norecover", "") != b.replace(" norecover", ""):
        return f"backend-divergence lib=[{a}] py=[{b}]"
    return a.replace(" norecover", "")


# ------------------------------------------------------------------ property oracles (real code only)
def _o_chain_toy(w):
    """sign -> verify -> recover on a toy curve, private core functions, both lower_s."""
    ec = curve(w["curve"])
    c, q, k = w["c"], w["q"], w["k"]
    Q = mult(q, ec.G, ec)
    out = []
    for ls in (False, True):
        try:
            sig, kid = dsa._sign_recoverable_(c, q, k, ls, ec)
        except Exception as e:  # noqa: BLE001
            if _err_class(e) != "runtime":
                return False, f"sign raised {type(e).__name__}: {e}"
            out.append("refused")
            continue
        if not (0 < sig.r < ec.n and 0 < sig.s < ec.n):
            return False, f"sign returned out-of-range ({sig.r},{sig.s})"
        if ls and sig.s > ec.n // 2:
            return False, f"lower_s signature has high s={sig.s}"
        try:
            dsa._assert_as_valid_(c, (Q[0], Q[1], 1), sig.r, sig.s, ec, ec._fixed_points, lower_s=ls)
        except Exception as e:  # noqa: BLE001
            return False, f"own signature refused (lower_s={ls}): {type(e).__name__}: {e}"
        m = digest_for(c, ec)
        if not dsa.verify_(m, Q, sig):
            return False, f"verify_ False on own signature r={sig.r} s={sig.s} lower_s={ls}"
        if sqrt_ok(ec):
            try:
                R = ec.aff_from_jac_var(dsa._recover_pub_key_(kid, c, sig.r, sig.s, ec, lower_s=ls))
            except Exception as e:  # noqa: BLE001
                return False, f"recover(key_id={kid}) raised {type(e).__name__}: {e} (r={sig.r} s={sig.s} lower_s={ls})"
            if R != Q:
                return False, f"recover(key_id={kid}) = {R} != signer's {Q} (r={sig.r} s={sig.s} lower_s={ls})"
            Rs = dsa.recover_pub_keys_(m, sig)
            if Q not in Rs:
                return False, f"signer's key {Q} not among recover_pub_keys_ {Rs}"
            for R in Rs:
                if R[1] == 0 or not dsa.verify_(m, R, sig):   # y = 0: regression of `recover-returns-y0-point` (fae8d2e3)
                    return False, f"recovered key {R} does not verify r={sig.r} s={sig.s}"
        out.append(f"{sig.r},{sig.s},{kid}")
    return True, " ".join(out)


def _o_sec1_toy(w):
    """verify_ on a toy curve answers exactly the SEC 1 equation computed by the brute-force group table."""
    tok = w["curve"]
    ec, T = curve(tok), table(tok)
    c, Q, r, s = w["c"], tuple(w["Q"]), w["r"], w["s"]
    want = T.sec1_verify(c, Q, r, s)
    try:
        got = dsa.verify_(digest_for(c, ec), Q, dsa.Sig(r, s, ec, check_validity=False))
    except Exception as e:  # noqa: BLE001
        return False, f"verify_ raised {type(e).__name__}: {e}"
    return got is want, f"verify_={got} SEC1={want}"


def _o_chain_pub(w):
    """public API chain on a catalogued curve: sign_ -> verify_ -> recover; determinism; low-s; both backends."""
    ec, hf = curve(w["curve"]), HF[w["hf"]]
    m, q, ls = bytes.fromhex(w["m"]), w["q"], w["lower_s"]
    Q = mult(q, ec.G, ec)
    res = []
    for flag in ((True, False) if ec == secp256k1 else (False,)):
        with serving(flag):
            try:
                sig = dsa.sign_(m, q, None, ls, ec, hf, grind=w["grind"])
                sig2 = dsa.sign_(m, q, None, ls, ec, hf, grind=w["grind"])
                sigr, kid = dsa.sign_recoverable_(m, q, None, ls, ec, hf)
            except Exception as e:  # noqa: BLE001
                return False, f"sign_ raised {type(e).__name__}: {e}"
            if (sig.r, sig.s) != (sig2.r, sig2.s):
                return False, "sign_ is not deterministic"
            if ls and (sig.s > ec.n // 2 or sigr.s > ec.n // 2):
                return False, "high s from lower_s=True"
            if w["grind"] and not dsa._is_low_r(sig.r, ec):
                return False, f"grind=True returned a high r {sig.r}"
            if not w["grind"] and (sig.r, sig.s) != (sigr.r, sigr.s):
                return False, "sign_(grind=False) and sign_recoverable_ differ"
            for sg in (sig, sigr):
                if not dsa.verify_(m, Q, sg, hf):
                    return False, f"own signature does not verify (serving={flag})"
                if dsa.Sig.parse(sg.serialize(check_validity=False), check_validity=False) != \
                        dsa.Sig(sg.r, sg.s, check_validity=False) and ec == secp256k1:
                    return False, "DER round trip differs"
            flipped = dsa.Sig(sig.r, ec.n - sig.s, ec, check_validity=False)
            if not dsa.verify_(m, Q, flipped, hf):
                return False, "the malleated (n - s) twin is refused"
            if dsa.verify_(m, Q, dsa.Sig(sig.r, (sig.s + 1) % ec.n or 1, ec, check_validity=False), hf):
                return False, "s + 1 verifies"
            if sqrt_ok(ec):
                R = dsa.recover_pub_key_(kid, m, sigr, hf)
                if R != Q:
                    return False, f"recover_pub_key_(key_id={kid}) is not the signer's key (serving={flag})"
                if Q not in dsa.recover_pub_keys_(m, sig, hf):
                    return False, "signer's key not among recover_pub_keys_"
            res.append((sig.r, sig.s, sigr.r, sigr.s, kid))
    if len(set(res)) != 1:
        return False, f"backends differ: {res}"
    return True, "ok"


def _o_der_roundtrip(w):
    r, s = w["r"], w["s"]
    sig = dsa.Sig(r, s, check_validity=False)
    b = sig.serialize(check_validity=False)
    for strict in (True, False):
        try:
            back = dsa.Sig.parse(b, check_validity=False, strict=strict)
        except Exception as e:  # noqa: BLE001
            return False, f"parse(serialize({r},{s}), strict={strict}) raised {type(e).__name__}: {e}"
        if (back.r, back.s) != (r, s):
            return False, f"parse(serialize({r},{s})) = ({back.r},{back.s})"
    return True, b.hex()[:80]


def _o_der_canonical(w):
    b = bytes.fromhex(w["b"])
    try:
        sig = dsa.Sig.parse(b, check_validity=False, strict=True)
    except Exception as e:  # noqa: BLE001
        ok = _err_class(e) == "value"
        return ok, f"refused with {type(e).__name__}"
    try:
        lax = dsa.Sig.parse(b, check_validity=False, strict=False)
    except Exception as e:  # noqa: BLE001
        return False, f"strict accepts, lax raises {type(e).__name__}"
    if (lax.r, lax.s) != (sig.r, sig.s):
        return False, "strict and lax read different signatures"
    again = sig.serialize(check_validity=False)
    return again == b, f"accepted {b.hex()[:80]} as ({sig.r},{sig.s}), canonical form {again.hex()[:80]}"


def _o_bms(w):
    """bms.sign -> bms.verify per address type; a flag of another type's range is refused."""
    from btclib.b32 import p2wpkh
    from btclib.b58 import p2pkh, p2wpkh_p2sh, wif_from_prv_key
    q, compressed, msg = w["q"], w["compressed"], bytes.fromhex(w["msg"])
    wif = wif_from_prv_key(q, "mainnet", compressed)
    addrs = {"p2pkh": p2pkh(wif)}
    if compressed:
        addrs["p2sh"], addrs["p2wpkh"] = p2wpkh_p2sh(wif), p2wpkh(wif)
    for flag in (True, False):
        with serving(flag):
            for typ, addr in addrs.items():
                sig = bms.sign(msg, wif, addr)
                base = {"p2pkh": 31 if compressed else 27, "p2sh": 35, "p2wpkh": 39}[typ]
                if not base <= sig.rf < base + 4:
                    return False, f"{typ}: flag {sig.rf} outside {base}..{base + 3}"
                if not bms.verify(msg, addr, sig):
                    return False, f"{typ}: own signature refused (serving={flag})"
                if bms.verify(msg + b"x", addr, sig):
                    return False, f"{typ}: verifies another message"
                for other, oaddr in addrs.items():
                    want = other == typ or (typ == "p2pkh" and compressed)   # Electrum rule: 31..34 speak for all three
                    if bms.verify(msg, oaddr, sig) != want:
                        return False, f"flag {sig.rf} ({typ}) on {other} address: expected {want}"
                for kid in range(4):
                    if kid != (sig.rf - 27) % 4:
                        wrong = bms.Sig(base + kid, sig.dsa_sig, check_validity=False)
                        if bms.verify(msg, addr, wrong):
                            return False, f"{typ}: wrong key_id {kid} accepted"
    return True, "ok"


def _safe(fn):
    """an exception escaping an oracle is itself a failure of the property (a step that must succeed raised)."""
    def g(w):
        try:
            return fn(w)
        except Exception as e:  # noqa: BLE001
            return False, f"{fn.__name__} step raised {type(e).__name__}: {e}"
    g.__name__ = fn.__name__
    return g


def _o_recover_valid_key(w):
    """a key that _recover_pub_key_ answers is a key (y != 0) and verifies the signature it was recovered from."""
    ec = curve(w["curve"])
    c, r, s, kid = w["c"], w["r"], w["s"], w["kid"]
    try:
        Q = ec.aff_from_jac_var(dsa._recover_pub_key_(kid, c, r, s, ec, lower_s=False))
    except Exception as e:  # noqa: BLE001
        return _err_class(e) in ("value", "runtime"), f"refused: {type(e).__name__}"
    if Q[1] == 0:
        return False, f"_recover_pub_key_(key_id={kid}, c={c}, r={r}, s={s}) answered {Q}: y = 0, no public key"
    if 0 < r < ec.n and 0 < s < ec.n and not dsa.verify_(digest_for(c, ec), Q, dsa.Sig(r, s, ec, check_validity=False)):
        return False, f"recovered key {Q} does not verify (r={r}, s={s}, c={c})"
    return True, f"{Q}"


def _o_recoverall_valid(w):
    """every key recover_pub_keys_ lists for an honest signature is a key (y != 0) and verifies it."""
    ec = curve(w["curve"])
    c, q, k = w["c"], w["q"], w["k"]
    try:
        sig = dsa._sign_(c, q, k, False, ec)
    except Exception as e:  # noqa: BLE001
        return _err_class(e) == "runtime", "sign refused"
    m = digest_for(c, ec)
    for R in dsa.recover_pub_keys_(m, sig):
        if R[1] == 0:
            return False, f"recover_pub_keys_ lists {R} (y = 0, no public key) for the honest signature r={sig.r} s={sig.s} (c={c} q={q} k={k})"
        if not dsa.verify_(m, R, sig):
            return False, f"listed key {R} does not verify r={sig.r} s={sig.s}"
    return True, "ok"


def _hmac_ref(hashfn, key: bytes, msg: bytes) -> bytes:
    """HMAC written from RFC 2104 (no use of the hmac module)."""
    B = hashfn().block_size
    if len(key) > B:
        key = hashfn(key).digest()
    key = key + bytes(B - len(key))
    inner = hashfn(bytes(x ^ 0x36 for x in key) + msg).digest()
    return hashfn(bytes(x ^ 0x5C for x in key) + inner).digest()


def rfc6979_ref(x: int, h1: int, q: int, hashfn, extra: bytes = b""):
    """RFC 6979 section 3.2 (with 3.6 additional data), written from the RFC text: (k, number of refused candidates).
    `h1` is bits2int(H(m)) mod q, as btclib's `c`."""
    qlen = q.bit_length()
    rlen = (qlen + 7) // 8
    hlen = hashfn().digest_size

    def bits2int(b: bytes) -> int:
        v = int.from_bytes(b, "big")
        return v >> (8 * len(b) - qlen) if 8 * len(b) > qlen else v
    seed = x.to_bytes(rlen, "big") + h1.to_bytes(rlen, "big") + extra      # int2octets(x) || bits2octets(h1) || k'
    V = b"\x01" * hlen                                                      # b
    K = b"\x00" * hlen                                                      # c
    K = _hmac_ref(hashfn, K, V + b"\x00" + seed)                            # d
    V = _hmac_ref(hashfn, K, V)                                             # e
    K = _hmac_ref(hashfn, K, V + b"\x01" + seed)                            # f
    V = _hmac_ref(hashfn, K, V)                                             # g
    refused = 0
    while True:                                                             # h
        T = b""
        while 8 * len(T) < qlen:                                            # h.2: every block of T is a FRESH V
            V = _hmac_ref(hashfn, K, V)
            T += V
        k = bits2int(T)                                                     # h.3
        if 1 <= k < q:
            return k, refused
        refused += 1
        K = _hmac_ref(hashfn, K, V + b"\x00")                               # V here is the LAST block of T
        V = _hmac_ref(hashfn, K, V)


HF_ALL = {"sha256": hashlib.sha256, "sha1": hashlib.sha1, "sha512": hashlib.sha512, "sha224": hashlib.sha224,
          "sha384": hashlib.sha384}


def _o_rfc6979_ref(w):
    """btclib's RFC 6979 nonce equals an independent derivation written from the RFC text (names the failing input,
    in particular when the first candidate is refused and T spans several hash blocks)."""
    ec, hf = curve(w["curve"]), HF_ALL[w["hf"]]
    c, q, extra = w["c"], w["q"], bytes.fromhex(w["extra"])
    want, refused = rfc6979_ref(q, c, ec.n, hf, extra)
    got = _rfc6979_nonce_(c, q, ec, hf, extra or None)
    blocks = -(-ec.n_size // hf().digest_size)
    if got != want:
        return False, (f"_rfc6979_nonce_(c={c}, q={q}, {w['curve']}, {w['hf']}, extra={w['extra'] or None}) = {got}, "
                       f"RFC 6979 gives {want} ({refused} candidate(s) refused, T of {blocks} block(s))")
    if "m" in w:
        from btclib.ecc.rfc6979_nonce import rfc6979_nonce_
        m = bytes.fromhex(w["m"])
        c2 = challenge_(m, ec, hf)
        pub = rfc6979_nonce_(m, q, ec, hf, extra or None)
        want2, _ = rfc6979_ref(q, c2, ec.n, hf, extra)
        if pub != want2:
            return False, f"rfc6979_nonce_(m={w['m']}, q={q}, {w['curve']}, {w['hf']}) = {pub}, RFC 6979 gives {want2}"
        if 0 < c2:
            sig = dsa.sign_(m, q, None, False, ec, hf, grind=False) if extra == b"" else None
            if sig is not None:
                with serving(False):
                    ref = dsa._sign_(c2, q, want2, False, ec)
                if (sig.r, sig.s) != (ref.r, ref.s):
                    return False, f"sign_(grind=False) does not use the RFC 6979 nonce on m={w['m']} q={q} {w['curve']}/{w['hf']}"
    return True, f"refused={refused} blocks={blocks}"


def _o_noncanon_toy(w):
    """a key written with x outside 0..p-1 is no key: verify_ may refuse it, never accept what the point refuses."""
    tok = w["curve"]
    ec, T = curve(tok), table(tok)
    c, Q, r, s = w["c"], tuple(w["Q"]), w["r"], w["s"]
    want = T.sec1_verify(c, Q, r, s)
    sig = dsa.Sig(r, s, ec, check_validity=False)
    m = digest_for(c, ec)
    for Q2 in ((Q[0] + ec.p, Q[1]), (Q[0] - ec.p, Q[1])):
        if dsa.verify_(m, Q2, sig) and not want:
            return False, f"verify_ True under the non-canonical key {Q2} where the point {Q} does not verify"
    return True, f"SEC1={want}"


def _o_nokey_toy(w):
    out = impl(w["line"])
    return out == "ok False False", f"{w['line']} -> {out}"


# ---- BMS: every flag class x every address type x low-s / high-s x both arms ----------------------------------
def _bms_expected(rf: int, typ: str, addr_compressed: bool, kid: int) -> bool:
    """Independent reading of the BIP137 / Electrum table (module docstring of bms.py): does a signature whose true
    recovery id is `kid`, carrying flag `rf`, speak for an address of type `typ` of this key?"""
    if not 27 <= rf <= 42:
        return False
    cls = (rf - 27) // 4            # 0: p2pkh uncompressed, 1: p2pkh compressed / Electrum, 2: p2wpkh-p2sh, 3: p2wpkh
    if (rf - 27) % 4 != kid:
        return False                # another candidate key: its hash is another address
    if typ == "p2pkh":
        return cls == (1 if addr_compressed else 0)
    if typ == "p2sh":
        return cls in (1, 2)
    return cls in (1, 3)


def _o_bms_matrix(w):
    """bms on BOTH arms: for the low-s signature bms.sign makes AND its high-s twin (s -> n - s, recovery parity
    flipped: as valid a message signature, python-bitcoinlib makes them), every flag 24..45 against every address
    of the key answers exactly the BIP137/Electrum table, the two arms agree, and the Sig / base64 spellings agree."""
    from btclib.b32 import p2wpkh
    from btclib.b58 import p2pkh, p2wpkh_p2sh, wif_from_prv_key
    from btclib.hashes import magic_message
    q, compressed, msg = w["q"], w["compressed"], bytes.fromhex(w["msg"])
    n = secp256k1.n
    wif = wif_from_prv_key(q, "mainnet", compressed)
    addrs = {"p2pkh": p2pkh(wif)}
    if compressed:
        addrs["p2sh"], addrs["p2wpkh"] = p2wpkh_p2sh(wif), p2wpkh(wif)
    Q = mult(q, secp256k1.G, secp256k1)
    made = {}
    for flag in (True, False):
        with serving(flag):
            for typ, addr in [(None, None), *addrs.items()]:
                sig = bms.sign(msg, wif, addr)
                base = {None: 31 if compressed else 27, "p2pkh": 31 if compressed else 27, "p2sh": 35, "p2wpkh": 39}[typ]
                if not base <= sig.rf < base + 4:
                    return False, f"bms.sign(addr type {typ}, serving={flag}): flag {sig.rf} outside {base}..{base + 3}"
                made.setdefault(typ, []).append((sig.rf, sig.dsa_sig.r, sig.dsa_sig.s))
    for typ, lst in made.items():
        if len(set(lst)) != 1:
            return False, f"bms.sign differs between the arms for address type {typ}: {lst}"
    rf0, r, s = made[None][0]
    kid = (rf0 - 27) % 4
    if s > n // 2:
        return False, f"bms.sign returned a high s {s}"
    forms = {"low-s": (s, kid), "high-s": (n - s, kid ^ 1)}
    mm = magic_message(msg)
    for fname, (s_, kid_) in forms.items():
        dsig = dsa.Sig(r, s_, check_validity=False)
        # the twin is a valid ECDSA signature of the enveloped message under the signer's key, and its key_id recovers it
        for flag in (True, False):
            with serving(flag):
                if not dsa.verify(mm, Q, dsig):
                    return False, f"{fname}: dsa.verify False under the signer's key (serving={flag})"
                if dsa.recover_pub_key(kid_, mm, dsig) != Q:
                    return False, f"{fname}: key_id {kid_} does not recover the signer's key (serving={flag})"
        for rf in range(24, 46):
            for typ, addr in addrs.items():
                want = _bms_expected(rf, typ, compressed, kid_)
                got = {}
                for flag in (True, False):
                    with serving(flag):
                        bsig = bms.Sig(rf, dsig, check_validity=False)
                        got[flag] = bms.verify(msg, addr, bsig)
                        try:
                            bms.assert_as_valid(msg, addr, bsig)
                            a = True
                        except Exception as e:  # noqa: BLE001
                            if _err_class(e) not in ("value", "runtime"):
                                return False, f"{fname} flag {rf} on {typ}: assert_as_valid left through {type(e).__name__}: {e}"
                            a = False
                        if a != got[flag]:
                            return False, f"{fname} flag {rf} on {typ}: verify={got[flag]} assert_as_valid={'passes' if a else 'raises'} (serving={flag})"
                        if 27 <= rf <= 42 and rf % 5 == 0:
                            b64 = bsig.b64encode(check_validity=False)
                            if bms.verify(msg, addr, b64) != got[flag]:
                                return False, f"{fname} flag {rf} on {typ}: base64 spelling answers differently (serving={flag})"
                if got[True] != got[False]:
                    return False, (f"bms.verify: bindings arm {got[True]}, Python arm {got[False]} (flag table says {want}) for the "
                                   f"{fname} signature (r={r}, s={s_}), flag {rf}, {typ} address {addr}, q={q}, msg {w['msg']}")
                if got[False] != want:
                    return False, (f"bms.verify = {got[False]} on both arms, the flag table says {want}, for the {fname} signature "
                                   f"(r={r}, s={s_}), flag {rf}, {typ} address {addr}, q={q}, msg {w['msg']}")
    return True, f"flags {sorted({x[0] for v in made.values() for x in v})}"


# ---- histories: a Signer built under one dispatch state and used under another -------------------------------
def _o_signer_history(w):
    """dsa.Signer built under backend state `build`, then used under the states `uses` (one signature per step):
    every call answers (no exception), and every signature it answers is the DER of THE deterministic signature of
    (key, digest) -- checked three independent ways: it verifies under q*G on both arms, its strict parse is low-s,
    and it equals what the free dsa.sign_ answers on either arm."""
    ec, hf = curve(w["curve"]), HF_ALL[w["hf"]]
    q, grind, verify = w["q"], w["grind"], w["verify"]
    Q = mult(q, ec.G, ec)
    digests = [bytes.fromhex(m) for m in w["digests"]]
    with serving(w["build"]):
        try:
            signer = dsa.Signer(q, ec, hf)
        except Exception as e:  # noqa: BLE001
            return False, f"Signer(q={q}) raised {type(e).__name__}: {e}"
    for step, (use, m) in enumerate(zip(w["uses"], digests)):
        with serving(use):
            try:
                der = signer.sign_(m, grind=grind, verify=verify) if not w.get("msg_api") else \
                    signer.sign(m, grind=grind, verify=verify)
            except Exception as e:  # noqa: BLE001
                if ec.nlen <= 8 and _err_class(e) == "runtime":
                    # a toy order: r = 0 / s = 0 happen; then the free function refuses the same digest the same way
                    try:
                        dsa.sign_(m if not w.get("msg_api") else hf(m).digest(), q, None, True, ec, hf, grind=grind)
                    except Exception as e2:  # noqa: BLE001
                        if _err_class(e2) == "runtime":
                            continue
                return False, (f"Signer built with serving={w['build']}, step {step} under serving={use}, "
                               f"sign_({m.hex()}, grind={grind}, verify={verify}) raised {type(e).__name__}: {e}")
        mh = m if not w.get("msg_api") else hf(m).digest()
        try:
            sig = dsa.Sig.parse(der, check_validity=False, strict=True)
        except Exception as e:  # noqa: BLE001
            return False, f"step {step}: the answer {der.hex()} is no strict DER: {type(e).__name__}"
        sig = dsa.Sig(sig.r, sig.s, ec, check_validity=False)
        if sig.s > ec.n // 2:
            return False, f"step {step}: high s"
        for flag in ((True, False) if ec == secp256k1 else (False,)):
            with serving(flag):
                if not dsa.verify_(mh, Q, sig, hf):
                    return False, (f"Signer built with serving={w['build']}, used under serving={use} (step {step}, grind={grind}, "
                                   f"verify={verify}): signature r={sig.r} s={sig.s} of digest {mh.hex()} does NOT verify under "
                                   f"q*G, q={q} (checked with serving={flag})")
                free = dsa.sign_(mh, q, None, True, ec, hf, grind=grind)
                if (free.r, free.s) != (sig.r, sig.s):
                    return False, (f"Signer built with serving={w['build']}, used under serving={use} (step {step}): "
                                   f"({sig.r},{sig.s}) is not the deterministic signature dsa.sign_ gives ({free.r},{free.s}; serving={flag})")
    with serving(w["uses"][-1]):
        signer.wipe()
        try:
            signer.sign_(digests[0], grind=grind, verify=verify)
            return False, "a wiped Signer signs"
        except Exception as e:  # noqa: BLE001
            if _err_class(e) != "value":
                return False, f"a wiped Signer leaves through {type(e).__name__}"
    return True, "ok"


# ---- 'reproducible as RFC 6979 prescribes': an independent signer (own bits2int, own reduction, own HMAC) ------
class StubHash:
    """A hash-function object (constructor protocol of hashlib) that is SHA-256 except on the inputs listed in
    `forced`, whose digest is prescribed: lets a MESSAGE reach a digest whose leading bits are n-1, n, n+1, ..."""
    forced: dict = {}
    digest_size = 32
    block_size = 64
    name = "stubsha256"

    def __init__(self, data=b""):
        self._d = bytes(data)

    def update(self, data):
        self._d += bytes(data)

    def copy(self):
        return type(self)(self._d)

    def digest(self):
        return self.forced.get(self._d) or hashlib.sha256(self._d).digest()

    def hexdigest(self):
        return self.digest().hex()


def ecdsa_ref_sign(tok, hashfn, digest: bytes, q: int, lower_s: bool):
    """ECDSA signing as SEC 1 4.1.3 + RFC 6979 3.2 prescribe, from the texts: e = bits2int(digest) (leftmost qlen
    bits), reduced mod n BOTH for the equation and for bits2octets; k by `rfc6979_ref`; K = kG by the brute-force
    group table on toy curves (btclib's mult on catalogued ones); s = k^-1 (e + r d)."""
    ec = curve(tok)
    n = ec.n
    qlen = n.bit_length()
    v = int.from_bytes(digest, "big")
    e = (v >> (8 * len(digest) - qlen) if 8 * len(digest) > qlen else v)
    lead = e
    e = e - n if n <= e < 2 * n else e % n           # bits2octets: z2 = z1 mod q
    k, refused = rfc6979_ref(q, e, n, hashfn)
    if tok.startswith("toy:"):
        K = table(tok).mul(k, ec.G)
    else:
        with serving(False):
            K = mult(k, ec.G, ec)
    r = K[0] % n
    s = pow(k, -1, n) * (e + r * q) % n
    if r == 0 or s == 0:
        return None, lead, k
    if lower_s and s > n // 2:
        s = n - s
    return (r, s), lead, k


def _o_rfc6979_sign(w):
    """every deterministic signing spelling answers the signature RFC 6979 prescribes for (key, digest): dsa.sign_,
    dsa.sign_recoverable_, rfc6979_nonce_, dsa.Signer.sign_ (and the message spellings through a stub hash when a
    message is given), against `ecdsa_ref_sign`; both arms where both serve."""
    from btclib.ecc.rfc6979_nonce import rfc6979_nonce_
    tok = w["curve"]
    ec = curve(tok)
    stub = w["hf"] == "stub"
    hf = StubHash if stub else HF_ALL[w["hf"]]
    q, ls = w["q"], w["lower_s"]
    if stub:
        StubHash.forced = {bytes.fromhex(w["msg"]): bytes.fromhex(w["m"])}
    try:
        m = bytes.fromhex(w["m"])
        want, lead, k = ecdsa_ref_sign(tok, hf, m, q, ls)
        tag = f"{tok}/{w['hf']} digest {w['m']} (leading bits {'<' if lead < ec.n else '==' if lead == ec.n else '>'} n) q={q} lower_s={ls}"
        with serving(False):
            got_k = rfc6979_nonce_(m, q, ec, hf)
        if got_k != k:
            return False, f"rfc6979_nonce_ = {got_k}, RFC 6979 prescribes {k}: {tag}"
        for flag in ((True, False) if ec == secp256k1 and not stub else (False,)):
            with serving(flag):
                outs = {}
                for name, fn in (("sign_", lambda: dsa.sign_(m, q, None, ls, ec, hf, grind=False)),
                                 ("sign_recoverable_", lambda: dsa.sign_recoverable_(m, q, None, ls, ec, hf)[0])):
                    try:
                        sg = fn()
                        outs[name] = (sg.r, sg.s)
                    except Exception as e:  # noqa: BLE001
                        outs[name] = None if _err_class(e) == "runtime" else f"{type(e).__name__}: {e}"
                if ls:
                    try:
                        sg = dsa.Sig.parse(dsa.Signer(q, ec, hf).sign_(m, grind=False), check_validity=False)
                        outs["Signer.sign_"] = (sg.r, sg.s)
                    except Exception as e:  # noqa: BLE001
                        outs["Signer.sign_"] = None if _err_class(e) == "runtime" else f"{type(e).__name__}: {e}"
                if stub:
                    msg = bytes.fromhex(w["msg"])
                    try:
                        sg = dsa.sign(msg, q, None, ls, ec, hf, grind=False)
                        outs["sign(msg)"] = (sg.r, sg.s)
                        if not dsa.verify(msg, mult(q, ec.G, ec), sg, hf):
                            return False, f"dsa.verify refuses dsa.sign's own signature: {tag}"
                    except Exception as e:  # noqa: BLE001
                        outs["sign(msg)"] = None if _err_class(e) == "runtime" else f"{type(e).__name__}: {e}"
                for name, got in outs.items():
                    if got != want:
                        return False, f"{name} = {got}, RFC 6979 + SEC 1 prescribe {want} (nonce {k}): {tag} (serving={flag})"
    finally:
        StubHash.forced = {}
    return True, f"lead{'<' if lead < ec.n else '=' if lead == ec.n else '>'}n"


ORACLES = {k: _safe(v) for k, v in {
    "nokey.toy": _o_nokey_toy, "bms.matrix": _o_bms_matrix, "signer.history": _o_signer_history,
    "rfc6979.sign": _o_rfc6979_sign,
    "recover.valid_key": _o_recover_valid_key, "noncanon.toy": _o_noncanon_toy,
    "recoverall.valid_keys": _o_recoverall_valid, "rfc6979.ref": _o_rfc6979_ref,
    "chain.toy": _o_chain_toy, "sec1.toy": _o_sec1_toy, "chain.pub": _o_chain_pub,
    "der.roundtrip": _o_der_roundtrip, "der.canonical": _o_der_canonical, "bms.chain": _o_bms}.items()}


# ------------------------------------------------------------------ generators
def _scalars(rng, n, k):
    base = [1, 2, 3, n - 1, n - 2, n // 2, n // 2 + 1, (n + 1) // 2, 2 ** (n.bit_length() - 1), 2 ** (n.bit_length() - 1) - 1]
    out = [v for v in base if 0 < v < n]
    while len(out) < k:
        out.append(rng.randrange(1, n))
    rng.shuffle(out)
    return out[:k]


def _digests(rng, ec, hf, k):
    size = HF[hf]().digest_size
    n = ec.n
    out = [bytes(size), b"\xff" * size, b"\x80" + bytes(size - 1), bytes(size - 1) + b"\x01"]
    # digests whose leftmost-nlen-bits value is n-1, n, n+1 (the reduction boundary)
    for v in (n - 1, n, n + 1):
        if v.bit_length() <= 8 * size:
            shift = max(0, 8 * size - ec.nlen)
            if (v << shift).bit_length() <= 8 * size:
                out.append((v << shift).to_bytes(size, "big"))
    while len(out) < k:
        out.append(common.rand_bytes(rng, size))
    return out[:k]


def der_cases(rng, count):
    n = secp256k1.n
    vals = [0, 1, 0x7F, 0x80, 0xFF, 0x100, 0x7FFF, 0x8000, 2 ** 255 - 1, 2 ** 255, n - 1, n, n // 2, n // 2 + 1,
            2 ** 256 - 1, 2 ** 256, 2 ** 488, 2 ** 495, 2 ** 496 - 1, 2 ** 496, 2 ** 1000, 2 ** 1007, 2 ** 1008,
            2 ** 2007, 2 ** 2008]
    out = []

    def val():
        r = rng.random()
        if r < 0.35:
            return rng.choice(vals)
        if r < 0.8:
            return rng.randrange(1, n)
        return rng.getrandbits(rng.choice([1, 8, 9, 64, 200, 255, 256, 257, 300, 1000]))
    for _ in range(count):
        r, s = val(), val()
        b = bytearray(dsa.Sig(r, s, check_validity=False).serialize(check_validity=False))
        short = len(b) < 140 and b[1] < 0xFD
        rl = b[3] if short else 0
        pos_tag2 = 4 + rl
        kind = rng.choice(["valid", "valid", "len0", "len1", "len2", "tag0", "tag1", "tag2", "sign_r", "sign_s", "pad_r",
                           "pad_s", "unpad", "trunc", "extend", "long81", "long80", "fdform", "flip", "zero_len", "inner_extra",
                           "swap_rs", "empty_s"])
        if not short and kind not in ("valid", "trunc", "extend", "flip"):
            kind = "valid"
        if kind == "len0":
            b[1] = (b[1] + rng.choice([-1, 1])) % 256
        elif kind == "len1":
            b[3] = (b[3] + rng.choice([-1, 1])) % 256
        elif kind == "len2":
            b[pos_tag2 + 1] = (b[pos_tag2 + 1] + rng.choice([-1, 1])) % 256
        elif kind == "tag0":
            b[0] = rng.choice([0x31, 0x20, 0x00, 0x02, 0xB0])
        elif kind == "tag1":
            b[2] = rng.choice([0x03, 0x00, 0x30, 0x82])
        elif kind == "tag2":
            b[pos_tag2] = rng.choice([0x03, 0x00, 0x30, 0x82])
        elif kind == "sign_r":
            b[4] |= 0x80
        elif kind == "sign_s":
            b[pos_tag2 + 2] |= 0x80
        elif kind in ("pad_r", "pad_s"):
            at = 4 if kind == "pad_r" else pos_tag2 + 2
            k = rng.choice([1, 1, 2])
            b[at:at] = bytes(k)
            b[at - 1] += k
            b[1] += k
        elif kind == "unpad":
            at = rng.choice([4, pos_tag2 + 2])
            if b[at] == 0 and b[at - 1] > 1:
                del b[at]
                b[at - 1] -= 1
                b[1] -= 1
        elif kind == "trunc":
            b = b[:rng.randrange(len(b))]
        elif kind == "extend":
            b += common.rand_bytes(rng, rng.choice([1, 1, 2, 33]))
        elif kind == "long81":
            at = rng.choice([1, 3, pos_tag2 + 1])
            b[at:at] = b"\x81"
            if at != 1 and rng.random() < 0.5:
                b[1] += 1
        elif kind == "long80":
            at = rng.choice([1, 3, pos_tag2 + 1])
            b[at] = 0x80
        elif kind == "fdform":
            at = rng.choice([1, 3, pos_tag2 + 1])
            L = b[at]
            b[at:at + 1] = bytes([0xFD, L, 0])
            if at != 1 and rng.random() < 0.7:
                b[1] += 2
        elif kind == "flip":
            if b:
                k = rng.randrange(len(b))
                b[k] ^= 1 << rng.randrange(8)
        elif kind == "zero_len":
            at = rng.choice([1, 3, pos_tag2 + 1])
            b[at] = 0
        elif kind == "inner_extra":
            b += b"\x00"
            b[1] += 1
        elif kind == "swap_rs":
            b[4], b[pos_tag2 + 2] = b[pos_tag2 + 2], b[4]
        elif kind == "empty_s":
            b = b[:pos_tag2] + bytearray(b"\x02\x00")
            b[1] = len(b) - 2
        out.append((kind, bytes(b)))
    return out


# ------------------------------------------------------------------ run
class _Batch:
    """Starting the compiled driver costs ~0.5-1 s, so streams are not sent one by one: they are queued, and `flush`
    evaluates the real code on every queued line in the main thread while a few driver processes (contiguous chunks of
    the queue) run in background threads; each stream is then handed to ctx.correspond with the model answering from
    its slice.  Purely a scheduling device: same lines, same outputs, same comparison."""

    def __init__(self, ctx):
        self.ctx = ctx
        self.items = []

    def stream(self, name, lines, **kw):
        self.items.append([name, list(lines), kw, None])

    def cases(self, name, cases, **kw):
        self.items.append([name, [c[0] for c in cases], kw, list(cases)])

    def flush(self, workers=4):
        import threading
        ctx, items = self.ctx, self.items
        self.items = []
        if not items:
            return
        orig = ctx.model
        total = sum(len(it[1]) for it in items)
        # contiguous groups of streams of roughly equal size
        groups, cur, size = [], [], 0
        for it in items:
            cur.append(it)
            size += len(it[1])
            if size >= total / workers:
                groups.append(cur)
                cur, size = [], 0
        if cur:
            groups.append(cur)
        results = {}

        def work(gi, group):
            lines = [ln for it in group for ln in it[1]]
            try:
                results[gi] = orig(EXE, lines)
            except BaseException as e:  # noqa: BLE001
                results[gi] = e
        threads = [threading.Thread(target=work, args=(gi, g), daemon=True) for gi, g in enumerate(groups)]
        for t in threads:
            t.start()
        for it in items:
            if it[3] is None:
                it[3] = [(ln, impl(ln)) for ln in it[1]]
        for t in threads:
            t.join()
        try:
            for gi, group in enumerate(groups):
                outs = results[gi]
                if isinstance(outs, BaseException):
                    raise outs
                pos = 0
                for name, lines, kw, cases in group:
                    sl = None if outs is None else outs[pos:pos + len(lines)]
                    pos += len(lines)
                    ctx.model = lambda exe, ls, sl=sl: sl
                    ctx.correspond(name, EXE, cases, **kw)
        finally:
            ctx.model = orig


def run(ctx):  # noqa: C901, PLR0912, PLR0915
    rng = ctx.rng
    shared.validate_hashes(ctx, EXE)
    batch = _Batch(ctx)
    ctx.stream = batch.stream
    thorough = ctx.tier == "thorough"
    toys = list(TOY) if thorough else QUICK_TOY

    # ---- toy curves: exhaustive ------------------------------------------------------------
    for name in toys:
        tok = token(name)
        ec, T = curve(tok), table(tok)
        n = ec.n
        sq = sqrt_ok(ec)
        # signing: every (c, q, k, lower_s); q and k also at the two ends outside 1..n-1
        lines = [f"ecdsa.sign {tok} {c} {q} {k} {ls}" for c in range(n) for q in range(1, n) for k in range(0, n + 1)
                 for ls in (0, 1)]
        ctx.stream(f"toy.sign[{name}]", lines)
        ctx.exhaustive_streams.append(f"toy.sign[{name}]")
        cs = list(range(n)) if thorough else sorted({rng.choice([0, n - 1]), rng.randrange(1, n - 1)})
        for c in range(n):
            for q in range(1, n):
                for k in (range(1, n) if (thorough or c in cs) else [rng.randrange(1, n)]):
                    ctx.check("chain.toy", {"curve": tok, "c": c, "q": q, "k": k})
                    if T.torsion_x and sq:
                        ctx.check("recoverall.valid_keys", {"curve": tok, "c": c, "q": q, "k": k},
                                  key="recover-returns-y0-point")
        # verification: every (r, s) in 0..n+1, every key point (+ points that are no key), chosen challenges
        k0 = T.keys[rng.randrange(len(T.keys))]
        zero_x = [P for P in T.keys if P[0] == 0][:1]
        keys = T.keys + [(T.keys[0][0], (T.keys[0][1] + 1) % ec.p), (0, 0), (1, ec.p), (1, -1),
                         # non-reduced spellings of a valid key: refused by is_on_curve (x: /repo d8821600), never reduced
                         (k0[0] + ec.p, k0[1]), (k0[0], k0[1] + ec.p), (k0[0] - ec.p, k0[1]), (k0[0], k0[1] - ec.p),
                         (k0[0] + ec.p, k0[1] + ec.p), (ec.p, (zero_x[0][1] if zero_x else 1)), (-1, k0[1])]
        vlines, skipped, vwit = [], 0, []
        for c in cs:
            m = hx(digest_for(c, ec))
            for Q in keys:
                for r in range(0, n + 2):
                    for s in range(0, n + 2):
                        on = Q in T.keys
                        if on and 0 < r < n and 0 < s < n:
                            K = T.K(c, Q, r, s)
                            if K is not None and K[1] == 0:
                                skipped += 1   # K is a 2-torsion point: outside the abstraction, oracle only
                                ctx.check("sec1.toy", {"curve": tok, "c": c, "Q": list(Q), "r": r, "s": s})
                                continue
                        vlines.append(f"ecdsa.verify_ {tok} sha256 {m} {Q[0]} {Q[1]} {r} {s}")
                        vwit.append((c, Q, r, s) if on else None)
        # one evaluation of the real code per line serves the correspondence AND the SEC 1 oracle
        vcases = [(ln, impl(ln)) for ln in vlines]
        for (ln, out), wv in zip(vcases, vwit):
            if wv is not None:
                c, Q, r, s = wv
                want = T.sec1_verify(c, Q, r, s)
                ctx.oracle("sec1.toy", out == f"ok {want} {want}", f"verify_/assert_as_valid_ -> {out}; SEC1={want}",
                           witness={"oracle": "sec1.toy", "witness": {"curve": tok, "c": c, "Q": list(Q), "r": r, "s": s}},
                           nontrivial=0 < r < n and 0 < s < n)
            else:
                # no key (off the curve, y = 0, or a coordinate outside its range): False, never the reduced point's verdict
                ctx.oracle("nokey.toy", out == "ok False False", f"{ln} -> {out}: a pair that is no public key must be refused",
                           witness={"oracle": "nokey.toy", "witness": {"line": ln}}, nontrivial=False)
        batch.cases(f"toy.verify[{name}]", vcases, nontrivial=lambda ln, out: True)
        ctx.exhaustive_streams.append(f"toy.verify[{name}]")
        ctx.count("two_torsion_K_oracle_only", name, skipped)
        # the private core with both lower_s, on a slice
        c = cs[len(cs) // 2]
        core = [f"ecdsa.vcore {tok} {c} {Q[0]} {Q[1]} {r} {s} {ls}" for Q in T.keys[:6] for r in range(0, n + 1)
                for s in range(0, n + 1) for ls in (0, 1)
                if not (0 < s < n and (lambda K: K is not None and K[1] == 0)(T.K(c, Q, r, s)))]
        ctx.stream(f"toy.vcore[{name}]", core)
        # recovery: every key_id (and two outside), every (r, s), chosen challenges
        if sq:
            rl, ra = [], []
            for c in cs:
                for r in range(0, n + 1):
                    for s in range(0, n + 1):
                        hit = False
                        for kid in range(-1, 2 * (ec.cofactor + 1) + 2):
                            x = r + (kid >> 1) * n
                            x = x if ec.cofactor == 1 else x % ec.p
                            if x in T.torsion_x:
                                hit = True
                                continue
                            rl.append(f"ecdsa.recover {tok} {kid} {c} {r} {s} {rng.randrange(2)}")
                        if not hit:
                            ra.append(f"ecdsa.recoverall {tok} {c} {r} {s} 0")
                            if 0 < r < n and 0 < s < n:
                                ra.append(f"ecdsa.recoverall_ {tok} sha256 {hx(digest_for(c, ec))} {r} {s}")
            for sname, lst in ((f"toy.recover[{name}]", rl), (f"toy.recoverall[{name}]", ra)):
                kept = []
                for ln in lst:
                    out = impl(ln)
                    t = ln.split(" ")
                    if out == "inf" or (out.startswith("ok") and " 0 " in out[2:] + " " and
                                        any(y == "0" for y in out.split(" ")[2::2])):
                        # a "key" with y = 0 came back (2-torsion point / btclib's spelling of infinity): refused
                        # since /repo fae8d2e3 like INF (the model's `isZero`); a reappearance is a property failure
                        # under the regression key AND a stream mismatch (the line stays in the correspondence)
                        if t[0] == "ecdsa.recover":
                            ctx.check("recover.valid_key", {"curve": tok, "kid": int(t[2]), "c": int(t[3]), "r": int(t[4]),
                                                            "s": int(t[5])}, key="recover-returns-y0-point")
                        else:
                            ctx.oracle("recoverall.valid_keys", False, f"{ln} -> {out}: a listed key has y = 0",
                                       key="recover-returns-y0-point")
                    kept.append((ln, out))
                    # soundness on arbitrary (r, s): a key that is answered satisfies the SEC 1 equation (group table)
                    if t[0] == "ecdsa.recover" and out.startswith("ok "):
                        Qr = (int(out.split(" ")[1]), int(out.split(" ")[2]))
                        c_, r_, s_ = int(t[3]), int(t[4]), int(t[5])
                        good = T.sec1_verify(c_, Qr, r_, s_) or not (0 < r_ < n and 0 < s_ < n)
                        ctx.oracle("recover.sound", good, f"{ln} -> {out}: the key does not satisfy SEC 1",
                                   witness={"oracle": "recover.valid_key", "witness": {"curve": tok, "kid": int(t[2]), "c": c_,
                                                                                       "r": r_, "s": s_}})
                batch.cases(sname, kept)
            ctx.exhaustive_streams.append(f"toy.recover[{name}]")
            # keys written with a coordinate outside 0..p-1 are no keys: never a wrongful True
            for Q in T.keys[: (len(T.keys) if thorough else 4)]:
                for r in range(1, n):
                    for s in range(1, n, 1 if thorough else 3):
                        ctx.check("noncanon.toy", {"curve": tok, "c": cs[0], "Q": list(Q), "r": r, "s": s})
        # RFC 6979 on a 4/5-bit order (the candidate loop rejects often), deterministic signing, cracking
        dl = []
        for c in range(n):
            for q in range(1, n):
                for hf in ("sha256", "sha1", "sha512"):
                    dl.append(f"rfc.nonce {tok} {hf} {c} {q} {hx(b'' if rng.random() < 0.6 else common.rand_bytes(rng, rng.choice([1, 32])))}")
        ctx.stream(f"toy.rfc6979[{name}]", dl)
        sl = []
        for _ in range(ctx.n(120)):
            hf = rng.choice(list(HF))
            m = hx(common.rand_bytes(rng, HF[hf]().digest_size))
            q = rng.randrange(0, n + 1)
            k = rng.choice(["-", "-", str(rng.randrange(0, n + 1))])
            sl.append(f"ecdsa.signmsg {tok} {hf} {m} {q} {k} {rng.randrange(2)} {rng.randrange(2)}")
            sl.append(f"ecdsa.signrec {tok} {hf} {m} {q} {k} {rng.randrange(2)}")
        ctx.stream(f"toy.signmsg[{name}]", sl)
        cl = []
        for _ in range(ctx.n(60)):
            q, k = rng.randrange(1, n), rng.randrange(1, n)
            c1, c2 = rng.randrange(n), rng.randrange(n)
            try:
                s1 = dsa._sign_(c1, q, k, False, ec)
                s2 = dsa._sign_(c2, q, k if rng.random() < 0.85 else rng.randrange(1, n), rng.random() < 0.3, ec)
            except Exception:  # noqa: BLE001
                continue
            cl.append(f"ecdsa.crack_ {tok} sha256 {hx(digest_for(c1, ec))} {s1.r} {s1.s} {hx(digest_for(c2, ec))} {s2.r} {s2.s}")
        ctx.stream(f"toy.crack[{name}]", cl)
        if thorough:
            batch.flush()
    batch.flush()

    # the concrete inputs of the repaired finding `recover-returns-y0-point` (/repo fae8d2e3), kept as a regression
    ctx.check("recover.valid_key", {"curve": token("t23_13c2"), "kid": 1, "c": 1, "r": 3, "s": 2},
              key="recover-returns-y0-point")
    ctx.check("recoverall.valid_keys", {"curve": token("t23_13c2"), "c": 1, "q": 8, "k": 6}, key="recover-returns-y0-point")
    for w in ({"kid": 0, "c": 1, "r": 3, "s": 4}, {"kid": 2, "c": 2, "r": 1, "s": 1}, {"kid": -1, "c": 1, "r": 1, "s": 1}):
        ctx.check("recover.valid_key", {"curve": token("t37_11c4"), **w}, key="recover-returns-y0-point")

    # ---- catalogued curves: random + boundary --------------------------------------------------
    names = ["secp256k1", "secp256r1", "secp112r2", "secp160r1", "secp384r1", "secp521r1"]
    if thorough:
        names += [c for c in sorted(CURVES) if c not in names]
    for name in names:
        ec = curve(name)
        sq = sqrt_ok(ec)
        per = ctx.n(30 if name == "secp256k1" else 6, 300 if name == "secp256k1" else 50)
        lines = []
        for i in range(per):
            hf = rng.choice(list(HF)) if name != "secp256k1" or i % 2 else "sha256"
            q = _scalars(rng, ec.n, 1)[0]
            m = _digests(rng, ec, hf, 12)[rng.randrange(12)] if rng.random() < 0.4 else common.rand_bytes(rng, HF[hf]().digest_size)
            ls, gr = rng.randrange(2), rng.randrange(2)
            k = "-" if rng.random() < 0.6 else str(_scalars(rng, ec.n, 1)[0])
            if k != "-":
                gr = 0 if rng.random() < 0.9 else 1
            lines.append(f"ecdsa.signmsg {name} {hf} {hx(m)} {q} {k} {ls} {gr}")
            lines.append(f"ecdsa.signrec {name} {hf} {hx(m)} {q} {k} {ls}")
            lines.append(f"ecdsa.challenge {name} {hf} {hx(m)}")
            ctx.check("chain.pub", {"curve": name, "hf": hf, "m": m.hex(), "q": q, "lower_s": bool(ls), "grind": bool(gr)})
            # verification of the honest signature and of its neighbours
            try:
                with serving(False):
                    sig, kid = dsa.sign_recoverable_(m, q, None if k == "-" else int(k), bool(ls), ec, HF[hf])
            except Exception:  # noqa: BLE001
                continue
            Q = mult(q, ec.G, ec)
            Q2 = mult(q + 1, ec.G, ec)
            for (qq, r, s) in [(Q, sig.r, sig.s), (Q, sig.r, ec.n - sig.s), (Q, sig.r, sig.s + 1), (Q, sig.r + 1, sig.s),
                               (Q2, sig.r, sig.s), (Q, 0, sig.s), (Q, sig.r, 0), (Q, ec.n, sig.s), (Q, sig.r, ec.n),
                               (Q, sig.r + ec.n, sig.s), ((Q[0], ec.p - Q[1]), sig.r, sig.s), ((Q[0], Q[1] + 1), sig.r, sig.s),
                               ((Q[0] + ec.p, Q[1]), sig.r, sig.s), ((Q[0], Q[1] + ec.p), sig.r, sig.s),
                               ((Q[0] - ec.p, Q[1]), sig.r, sig.s), ((ec.p, Q[1]), sig.r, sig.s), ((-1, Q[1]), sig.r, sig.s),
                               (Q, -sig.r, sig.s)]:
                lines.append(f"ecdsa.verify_ {name} {hf} {hx(m)} {qq[0]} {qq[1]} {r} {s}")
            lines.append(f"ecdsa.verify_ {name} {hf} {hx(m[:-1])} {Q[0]} {Q[1]} {sig.r} {sig.s}")
            c = challenge_(m, ec, HF[hf])
            lines.append(f"ecdsa.vcore {name} {c} {Q[0]} {Q[1]} {sig.r} {sig.s} 1")
            if sq:
                for kk in range(-1, 2 * (ec.cofactor + 1) + 1):
                    lines.append(f"ecdsa.recover {name} {kk} {c} {sig.r} {sig.s} {rng.randrange(2)}")
                lines.append(f"ecdsa.recover_ {name} {hf} {kid} {hx(m)} {sig.r} {sig.s}")
                lines.append(f"ecdsa.recoverall_ {name} {hf} {hx(m)} {sig.r} {sig.s}")
                lines.append(f"ecdsa.recoverall {name} {c} {sig.r} {ec.n - sig.s} 1")
                # a small r, so that r + n < p where the curve leaves room (j = 1 candidates exist)
                rs = rng.randrange(1, max(2, min(ec.n, ec.p - ec.n) if ec.p > ec.n else 2))
                lines.append(f"ecdsa.recoverall {name} {c} {rs} {sig.s} 0")
                lines.append(f"ecdsa.recover_ {name} {hf} {rng.randrange(2, 4)} {hx(m)} {rs} {sig.s}")
            # nonce reuse
            m2 = common.rand_bytes(rng, HF[hf]().digest_size)
            kx = _scalars(rng, ec.n, 1)[0]
            try:
                with serving(False):
                    a = dsa.sign_(m, q, kx, False, ec, HF[hf], grind=False)
                    b = dsa.sign_(m2, q, kx, False, ec, HF[hf], grind=False)
                lines.append(f"ecdsa.crack_ {name} {hf} {hx(m)} {a.r} {a.s} {hx(m2)} {b.r} {b.s}")
                lines.append(f"ecdsa.crack_ {name} {hf} {hx(m)} {a.r} {a.s} {hx(m)} {a.r} {a.s}")
            except Exception:  # noqa: BLE001
                pass
        ctx.stream(f"cat[{name}]", lines)
        if thorough:
            batch.flush()
    batch.flush()

    # ---- RFC 6979 against an independent derivation: hash shorter than the order (T of 2+ blocks) and orders just
    # above a power of two (the first candidate is refused about every other time) first of all
    pairs = [("secp160r1", "sha1"), ("secp160k1", "sha1"), ("secp224k1", "sha224"), ("secp256k1", "sha256"),
             ("secp521r1", "sha256"), ("secp384r1", "sha1"), ("secp112r2", "sha512"), ("secp160r2", "sha1")]
    nl = []
    for cname, hname in pairs:
        ec = curve(cname)
        for i in range(ctx.n(40, 600)):
            q = _scalars(rng, ec.n, 1)[0]
            m = common.rand_bytes(rng, HF_ALL[hname]().digest_size)
            extra = b"" if i % 3 else common.rand_bytes(rng, rng.choice([1, 32]))
            w = {"curve": cname, "hf": hname, "c": challenge_(m, ec, HF_ALL[hname]), "q": q, "extra": extra.hex(), "m": m.hex()}
            _, refused = rfc6979_ref(q, w["c"], ec.n, HF_ALL[hname], extra)
            blocks = -(-ec.n_size // HF_ALL[hname]().digest_size)
            ctx.count("rfc6979.ref", f"{cname}/{hname}: blocks={blocks} refused={'0' if refused == 0 else '1+'}")
            ctx.check("rfc6979.ref", w)
            if hname in HF:
                nl.append(f"rfc.nonce {cname} {hname} {w['c']} {q} {hx(extra)}")
    for cname, hname in pairs[:3]:
        blocks_refused = [k for k in ctx.hist.get("rfc6979.ref", {}) if k.startswith(f"{cname}/{hname}: blocks=2 refused=1+")]
        if not blocks_refused:
            raise common.HarnessError(f"rfc6979.ref: no multi-block retry drawn on {cname}/{hname}")
    ctx.stream("rfc6979.cat", nl)

    # ---- 'reproducible as RFC 6979 prescribes' against an independent SIGNER (own bits2int and reduction): toy
    # curves with every value of the digest's leading octet (leading nlen bits < n, == n, > n all occur), catalogued
    # curves with crafted digests n-1, n, n+1, 2^nlen-1 (and messages reaching them through a stub hash object)
    def lead_class(ec, m):
        v = int.from_bytes(m, "big")
        e = v >> (8 * len(m) - ec.nlen) if 8 * len(m) > ec.nlen else v
        return "lead<n-1" if e < ec.n - 1 else "lead=n-1" if e == ec.n - 1 else "lead=n" if e == ec.n else "lead>n"
    for name in toys:
        tok = token(name)
        ec = curve(tok)
        n = ec.n
        tail = common.rand_bytes(rng, 31)
        shift = 8 - ec.nlen
        edge = sorted({(v << shift) | t for v in (0, 1, n - 1, n, n + 1, 2 ** ec.nlen - 1) if v < 2 ** ec.nlen
                       for t in (0, (1 << shift) - 1)})
        q0 = rng.randrange(1, n)
        for b in range(256):
            for q in ([q0] if b not in edge else range(1, n)):
                for ls in (False, True):
                    hfn = "sha256" if (b + q) % 5 else "sha1"
                    m = bytes([b]) + tail[:HF_ALL[hfn]().digest_size - 1]
                    ctx.count("rfc6979.sign", f"toy {lead_class(ec, m)}")
                    ctx.check("rfc6979.sign", {"curve": tok, "hf": hfn, "m": m.hex(), "q": q, "lower_s": ls})
    for cname, hname in [("secp256k1", "sha256"), ("secp256k1", "stub"), ("secp256r1", "sha256"), ("secp256r1", "stub"),
                         ("secp112r2", "sha256"), ("secp384r1", "sha384"), ("secp224k1", "sha256"), ("secp160r1", "sha1"),
                         ("secp521r1", "sha512")][: None if thorough else 6]:
        ec = curve(cname)
        size = 32 if hname == "stub" else HF_ALL[hname]().digest_size
        shift = max(0, 8 * size - ec.nlen)
        leads = [ec.n - 1, ec.n, ec.n + 1, 2 ** ec.nlen - 1, ec.n + rng.randrange(2, 2 ** ec.nlen - ec.n), rng.randrange(ec.n), 0]
        for v in leads:
            if (v << shift).bit_length() > 8 * size:
                continue   # the digest is shorter than the order: its value cannot reach n
            for tailbits in ((0, rng.getrandbits(shift)) if shift else (0,)):
                m = ((v << shift) | tailbits).to_bytes(size, "big")
                for q in _scalars(rng, ec.n, ctx.n(2, 6)):
                    for ls in (False, True):
                        w = {"curve": cname, "hf": hname, "m": m.hex(), "q": q, "lower_s": ls}
                        if hname == "stub":
                            w["msg"] = common.rand_bytes(rng, rng.choice([0, 1, 40])).hex()
                        ctx.count("rfc6979.sign", f"{cname}/{hname} {lead_class(ec, m)}")
                        ctx.check("rfc6979.sign", w)
    for cls in ("toy lead=n", "toy lead>n", "toy lead=n-1", "secp256k1/sha256 lead=n", "secp256k1/stub lead=n", "secp256r1/stub lead=n"):
        if not ctx.hist.get("rfc6979.sign", {}).get(cls):
            raise common.HarnessError(f"rfc6979.sign: class `{cls}` never drawn")

    # ---- histories (exhaustive, short): a dsa.Signer built under one dispatch state, used under others --------------
    for cname, hname, steps in [("secp256k1", "sha256", 2), ("secp256k1", "sha1", 1), ("secp256r1", "sha256", 1),
                                (token("t13_11"), "sha256", 1)]:
        ec = curve(cname)
        import itertools
        for build in (True, False):
            for uses in itertools.product((True, False), repeat=steps):
                for verify in (True, False):
                    for grind in (True, False):
                        for msg_api in ((False, True) if steps == 2 else (False,)):
                            size = HF_ALL[hname]().digest_size
                            ds = [common.rand_bytes(rng, size if not msg_api else rng.choice([0, 8, 33])) for _ in uses]
                            if ec.nlen <= 8:
                                ds = [bytes([rng.randrange(256)]) + d[1:] for d in ds]
                            ctx.count("signer.history", f"{'secp256k1/sha256' if steps == 2 else 'python-arm only'}: "
                                                        f"build={'on' if build else 'off'} uses={''.join('1' if u else '0' for u in uses)}")
                            ctx.check("signer.history", {"curve": cname, "hf": hname, "q": _scalars(rng, ec.n, 1)[0],
                                                         "build": build, "uses": list(uses), "verify": verify, "grind": grind,
                                                         "msg_api": msg_api, "digests": [d.hex() for d in ds]})

    # ---- DER -----------------------------------------------------------------------------------
    cases = der_cases(rng, ctx.n(3000))
    dlines = []
    for kind, b in cases:
        ctx.count("der.kind", kind)
        dlines.append(f"der.parse 1 {hx(b)}")
        dlines.append(f"der.parse 0 {hx(b)}")
        ctx.check("der.canonical", {"b": b.hex()})
    for _ in range(ctx.n(1000)):
        L = rng.choice([0, 1, 2, 6, 7, 8, 9, 10, 70, 71, 72])
        b = common.rand_bytes(rng, L)
        if L >= 8 and rng.random() < 0.7:   # random body under a plausible frame
            b = bytes([0x30, L - 2, 0x02, rng.randrange(1, max(2, L - 6))]) + b[4:]
        dlines.append(f"der.parse {rng.randrange(2)} {hx(b)}")
        ctx.check("der.canonical", {"b": b.hex()})
    ctx.stream("der.parse", dlines, nontrivial=lambda ln, out: True)
    vl = [f"der.parsev {rng.randrange(2)} {hx(b)}" for _, b in cases[: ctx.n(400)]]
    # Sig.assert_valid at its edges, through the validating parser (secp256k1)
    n1 = secp256k1.n
    good_r = [x for x in range(1, 12)]
    for r in [0, 1, n1 - 1, n1, n1 + 1, 2 ** 256 - 1, *good_r, rng.randrange(1, n1), rng.randrange(1, n1)]:
        for s in [0, 1, n1 // 2, n1 // 2 + 1, n1 - 1, n1, n1 + 1, rng.randrange(1, n1)]:
            vl.append(f"der.parsev 1 {hx(dsa.Sig(r, s, check_validity=False).serialize(check_validity=False))}")
    ctx.stream("der.parsev", vl)
    sl = []
    for _ in range(ctx.n(400)):
        r = rng.choice([0, 1, 127, 128, 255, 256, 2 ** 255, 2 ** 256 - 1, 2 ** 2008, -1, rng.getrandbits(256), rng.getrandbits(rng.choice([7, 8, 9, 500, 2100]))])
        s = rng.choice([0, 1, 128, rng.getrandbits(256), rng.getrandbits(rng.choice([15, 16, 17, 1000])), -5])
        sl.append(f"der.ser {r} {s}")
        if r >= 0 and s >= 0:
            ctx.check("der.roundtrip", {"r": r, "s": s})
    ctx.stream("der.ser", sl)

    # ---- BMS -----------------------------------------------------------------------------------
    bl = [f"bms.flag {kid} {comp} {t}" for kid in range(4) for comp in (0, 1) for t in ("p2pkh", "p2sh", "p2wpkh")]
    bl += [f"bms.read {rf} {t}" for rf in range(24, 47) for t in ("p2pkh", "p2sh", "p2wpkh")]
    ctx.stream("bms.flags", bl, nontrivial=lambda ln, out: True)
    ctx.exhaustive_streams.append("bms.flags")
    for _ in range(ctx.n(6, 60)):
        ctx.check("bms.chain", {"q": rng.randrange(1, secp256k1.n), "compressed": rng.random() < 0.6,
                                "msg": common.rand_bytes(rng, rng.choice([0, 1, 20, 252, 253, 300])).hex()})
    # the bms scheme model (Bms.sign / Bms.assertAsValid) against the real functions, both arms: every address of the
    # key and addresses that are not the key's; then the signature and its high-s twin under flags 26..43 on every address
    from btclib.b32 import p2wpkh as _p2wpkh
    from btclib.b58 import p2pkh as _p2pkh, p2wpkh_p2sh as _p2sh, wif_from_prv_key as _wif
    bsl, bvl = [], []
    for i in range(ctx.n(2, 12)):
        q = _scalars(rng, secp256k1.n, 1)[0]
        q2 = rng.randrange(1, secp256k1.n)
        comp = i % 3 != 2
        msg = common.rand_bytes(rng, rng.choice([0, 1, 20, 253]))
        mm = bms_digest(msg)
        wif, wifc, wif2 = _wif(q, "mainnet", comp), _wif(q, "mainnet", True), _wif(q2, "mainnet", True)
        own = {"p2pkh": _p2pkh(wif)}
        if comp:
            own.update(p2sh=_p2sh(wif), p2wpkh=_p2wpkh(wif))
        others = [_p2pkh(wif2), _p2sh(wif2), _p2wpkh(wif2), _p2pkh(_wif(q, "mainnet", not comp)), _p2sh(wifc), _p2wpkh(wifc)]
        for addr in [None, *own.values(), *others]:
            typ, pay = ("-", b"") if addr is None else bms_addr_payload(addr)
            bsl.append(f"bms.sign {hx(mm)} {q} {int(comp)} {typ} {hx(pay) if addr else '-'} {hx(msg)} {addr or '-'}")
        with serving(False):
            sig0 = bms.sign(msg, wif)
        r, s_, kid = sig0.dsa_sig.r, sig0.dsa_sig.s, (sig0.rf - 27) % 4
        n_ = secp256k1.n
        targets = list(own.values()) + ([others[0]] if i % 2 else [others[4 if not comp else 1]])
        for (rr, ss) in [(r, s_), (r, n_ - s_), (r, s_ + 1), (r + 1, s_), (r, 0), (r, n_), (0, s_), (n_ + r, s_)]:
            for addr in targets:
                typ, pay = bms_addr_payload(addr)
                flags = range(26, 44) if (rr, ss) in ((r, s_), (r, n_ - s_)) else [sig0.rf, 27 + kid, 35 + kid, 39 + (kid ^ 1)]
                for rf in flags:
                    bvl.append(f"bms.verify {hx(mm)} {typ} {hx(pay)} {rf} {rr} {ss} {hx(msg)} {addr}")
    ctx.stream("bms.sign", bsl)
    ctx.stream("bms.verify", bvl, nontrivial=lambda ln, out: True)
    # the verify ENTRY POINT on raw octets (DER signature, digest of any size, any integer pair), both arms
    el = []
    for i in range(ctx.n(12, 120)):
        q = _scalars(rng, secp256k1.n, 1)[0]
        m = common.rand_bytes(rng, 32)
        with serving(False):
            sg = dsa.sign_(m, q, None, bool(i % 2), secp256k1, hashlib.sha256, grind=False)
        Q = mult(q, secp256k1.G, secp256k1)
        der = sg.serialize(check_validity=False)
        for (mmm, QQ, dd) in [(m, Q, der), (m[:-1], Q, der), (m + b"\x00", Q, der), (b"", Q, der), (m, (Q[0], Q[1] + 1), der),
                              (m, (Q[0] + secp256k1.p, Q[1]), der), (m, (0, 0), der), (m, Q, der + b"\x00"), (m, Q, der[:-1]),
                              (m, Q, b""), (m, Q, dsa.Sig(sg.r, secp256k1.n - sg.s, check_validity=False).serialize(check_validity=False)),
                              (m, Q, dsa.Sig(sg.r, secp256k1.n, check_validity=False).serialize(check_validity=False)),
                              (m, Q, dsa.Sig(0, sg.s, check_validity=False).serialize(check_validity=False)),
                              (m, mult(q + 1, secp256k1.G, secp256k1), der)]:
            el.append(f"ecdsa.verifyder sha256 {hx(mmm)} {QQ[0]} {QQ[1]} {hx(dd)}")
        for _, b in der_cases(rng, 6):
            el.append(f"ecdsa.verifyder sha256 {hx(m)} {Q[0]} {Q[1]} {hx(b)}")
    ctx.stream("ecdsa.verifyder", el, nontrivial=lambda ln, out: True)
    # every flag 24..45 x every address of the key x low-s / high-s twin x both arms, against the table of the docstring
    for i in range(ctx.n(4, 40)):
        ctx.check("bms.matrix", {"q": _scalars(rng, secp256k1.n, 1)[0], "compressed": i % 4 != 3,
                                 "msg": common.rand_bytes(rng, rng.choice([0, 1, 20, 252, 253, 300])).hex()})
    batch.flush()
