"""C15 spend oracle: every satisfaction btclib's Miniscript.satisfy produces is a witness
btclib's real script engine accepts, as a P2WSH spend and as a taproot script-path spend,
within the static bounds the analysis promised; and nothing is produced when the spending
condition is false under what the spender has.

Evaluated on the real btclib code alone (no model).  Real signatures over the real sighash
of the very transaction the witness goes into; verdict by btclib.script.engine.verify_transaction
under its default rule set (ALL_FLAGS: the consensus soft forks), which is `engine_ok`, and a second
time under every ScriptFlag the engine implements (`policy_ok`: MINIMALIF, NULLFAIL, LOW_S, ...).

executed_ops (P2WSH): the engine's OWN counter.  script.engine.script._run_ops keeps the count
in a local, but every increment goes through the module-level `script_op_count(count, inc)`
(one per op code > OP_16 met, executed or not, plus the key count of every executed
OP_CHECKMULTISIG -- Core's accounting).  spend_check wraps that function in-process for the
duration of the engine call and restores it in a `finally:`; the last value it returned is the
final count of the last script run, which is the witness script (`_run_ops` is wrapped too, only
to reset the recorder at the start of each of verify_input's three script runs).  The
`op_code_num -= len(r)` the loop does for a *VERIFY expansion is always followed by the recount
of the two injected op codes, so the last returned value is the net count.  `static_ops` (op
codes > OP_16 in the script, counted here over btclib.script.script.op_code_spans) is reported
beside it; executed_ops - static_ops is what the executed CHECKMULTISIGs added.
For tapscript executed_ops is None: BIP342 has no op count and the engine keeps none.

exec_peak: the largest len(stack)+len(altstack) the engine saw between two op codes of the
witness script / tapscript, observed the same way through script_op_codes.assert_stack_size.
"""
from __future__ import annotations

import hashlib
import random

from btclib.descriptors.miniscript import P2WSH, TAPSCRIPT, SpendContext, parse  # noqa: F401
from btclib.ecc import dsa, ssa
from btclib.exceptions import BTClibValueError
from btclib.hashes import hash160 as _hash160
from btclib.hashes import hash256 as _hash256
from btclib.hashes import ripemd160 as _ripemd160
from btclib.hashes import sha256 as _sha256
from btclib.script import sig_hash
from btclib.script.engine import script as _eng_script
from btclib.script.engine import script_op_codes as _eng_ops
from btclib.script.engine import tapscript as _eng_tapscript
from btclib.script.engine import ScriptFlag, verify_transaction
from btclib.script.script import op_code_spans
from btclib.script.script_pub_key import ScriptPubKey
from btclib.script.taproot import leaf_hash, output_pubkey_from_merkle_root
from btclib.script.witness import Witness
from btclib.to_pub_key import pub_keyinfo_from_prv_key
from btclib.tx.out_point import OutPoint
from btclib.tx.tx import Tx
from btclib.tx.tx_in import TxIn
from btclib.tx.tx_out import TxOut
from btclib.var_int import serialize as _var_int

# ------------------------------------------------------------------ pools
N_KEYS = 16
PRV: list[int] = list(range(1, N_KEYS + 1))
SEC: list[str] = [pub_keyinfo_from_prv_key(p)[0].hex() for p in PRV]
XONLY: list[str] = [s[2:] for s in SEC]
N_PRE = 6
PREIMAGES: list[bytes] = [hashlib.sha256(b"c15-pre-%d" % i).digest() for i in range(N_PRE)]
_HASHERS = {"sha256": _sha256, "hash256": _hash256, "ripemd160": _ripemd160, "hash160": _hash160}
DIGEST: dict[str, list[str]] = {name: [h(p).hex() for p in PREIMAGES] for name, h in _HASHERS.items()}

_SEC_INDEX = {s: i for i, s in enumerate(SEC)}
_XONLY_INDEX = {s: i for i, s in enumerate(XONLY)}
_DIGEST_INDEX = {name: {d: i for i, d in enumerate(ds)} for name, ds in DIGEST.items()}

_WRAPPERS = ("a:", "s:", "c:", "d:", "v:", "j:", "n:")
_HASHES = ("sha256", "hash256", "ripemd160", "hash160")
_LOCKTIME_THRESHOLD = 500000000
_INTERNAL = N_KEYS - 1          # internal key of the taproot output (any key of the pool)
_LEAF_VERSION = 0xC0
_PREV_VALUE = 50_000
# the engine's default is the consensus soft forks alone; a miniscript satisfaction is also
# promised to be standard (MINIMALIF, NULLFAIL, LOW_S, CLEANSTACK, ...), so the witness is
# judged a second time under every rule the engine implements
POLICY_FLAGS = ScriptFlag(0)
for _f in ScriptFlag:
    POLICY_FLAGS |= _f


def key_index(hexkey: str) -> int | None:
    """Index in the pool of a key written as 66 hex (compressed SEC) or 64 hex (x-only).

    A 66-hex key not in SEC is looked up by its x alone: a tapscript KeyExpression answers
    `02||x` for an x-only key whatever the parity of the pool's point."""
    h = hexkey.lower()
    if len(h) == 64:
        return _XONLY_INDEX.get(h)
    if len(h) == 66:
        i = _SEC_INDEX.get(h)
        return i if i is not None else _XONLY_INDEX.get(h[2:])
    return None


def _node_key_indices(node) -> list[int | None]:
    return [key_index(k.sec().hex()) for k in node.keys]


# ------------------------------------------------------------------ independent semantics
def _older_met(n: int, sequence: int, version: int) -> bool:
    """BIP68/BIP112, written out: relative locks exist from version 2, bit 31 disables,
    bit 22 is the unit, the low 16 bits are the value."""
    if version < 2:
        return False
    if sequence & (1 << 31):
        return False
    if (n & (1 << 22)) != (sequence & (1 << 22)):
        return False
    return (n & 0xFFFF) <= (sequence & 0xFFFF)


def _after_met(n: int, locktime: int, sequence: int) -> bool:
    """BIP65, written out: same kind either side of 500000000, reached, input not final."""
    if (n < _LOCKTIME_THRESHOLD) != (locktime < _LOCKTIME_THRESHOLD):
        return False
    if n > locktime:
        return False
    return sequence != 0xFFFFFFFF


def condition(node, context, avail) -> bool:
    """Boolean meaning of the expression under `avail` (no btclib satisfier code involved).

    Iterative post-order walk: an expression nests as deep as its script is long."""
    keys = set(avail.get("keys", ()))
    pres = set(avail.get("preimages", ()))
    locktime = int(avail.get("locktime", 0))
    sequence = int(avail.get("sequence", 0))
    version = int(avail.get("version", 2))

    def leaf(n) -> bool:
        f = n.fragment
        if f == "0":
            return False
        if f == "1":
            return True
        if f in ("pk_k", "pk_h"):
            return _node_key_indices(n)[0] in keys
        if f in ("multi", "multi_a"):
            return sum(1 for i in _node_key_indices(n) if i is not None and i in keys) >= n.threshold
        if f in _HASHES:
            i = _DIGEST_INDEX[f].get(n.data.hex())
            return i is not None and i in pres
        if f == "older":
            return _older_met(n.threshold, sequence, version)
        if f == "after":
            return _after_met(n.threshold, locktime, sequence)
        raise ValueError(f"condition: unknown leaf fragment {f!r}")

    def combine(n, vals: list[bool]) -> bool:
        f = n.fragment
        if f in _WRAPPERS:
            return vals[0]
        if f in ("and_v", "and_b"):
            return vals[0] and vals[1]
        if f in ("or_b", "or_c", "or_d", "or_i"):
            return vals[0] or vals[1]
        if f == "andor":
            return (vals[0] and vals[1]) or vals[2]
        if f == "thresh":
            return sum(1 for v in vals if v) >= n.threshold
        raise ValueError(f"condition: unknown fragment {f!r}")

    # explicit stack: (node, next child, values of the children done)
    stack: list[list] = [[node, 0, []]]
    result = False
    while stack:
        top = stack[-1]
        n, i, vals = top
        if not n.subs:
            value = leaf(n)
        elif i < len(n.subs):
            top[1] = i + 1
            stack.append([n.subs[i], 0, []])
            continue
        else:
            value = combine(n, vals)
        stack.pop()
        if stack:
            stack[-1][2].append(value)
        else:
            result = value
    return bool(result)


# ------------------------------------------------------------------ spend construction
class _Prepared:
    """What depends on (expr, context) alone."""

    __slots__ = ("node", "script", "prevout", "control", "leaf", "static_ops", "key_idx")


_PREPARED: dict[tuple[str, str], _Prepared] = {}
_SIGS: dict[tuple, bytes] = {}
_DEST = None


def _dest() -> ScriptPubKey:
    global _DEST
    if _DEST is None:
        _DEST = ScriptPubKey.p2wpkh(SEC[0])
    return _DEST


def _tree_nodes(node):
    out, todo = [], [node]
    while todo:
        n = todo.pop()
        out.append(n)
        todo.extend(reversed(n.subs))
    return out


def _prepare(expr: str, context: str) -> _Prepared:
    """parse + script + prevout; raises what parse raises (the oracle reads that as 'not parsed')."""
    key = (expr, context)
    p = _PREPARED.get(key)
    if p is not None:
        return p
    node = parse(expr, context)
    p = _Prepared()
    p.node = node
    p.script = node.script()
    if context == TAPSCRIPT:
        internal = bytes.fromhex(XONLY[_INTERNAL])
        p.leaf = leaf_hash(_LEAF_VERSION, p.script)
        q, parity = output_pubkey_from_merkle_root(internal, p.leaf)
        p.prevout = TxOut(_PREV_VALUE, ScriptPubKey(b"\x51\x20" + q))
        # leaf version | parity of the output key, the internal key, no merkle path
        p.control = bytes([_LEAF_VERSION | parity]) + internal
    else:
        p.leaf = b""
        p.prevout = TxOut(_PREV_VALUE, ScriptPubKey.p2wsh(p.script))
        p.control = b""
    p.static_ops = sum(1 for op, _, _ in op_code_spans(p.script) if op > 0x60)
    idx: list[int] = []
    for n in _tree_nodes(node):
        for i in _node_key_indices(n):
            if i is not None and i not in idx:
                idx.append(i)
    p.key_idx = idx
    if len(_PREPARED) > 4096:
        _PREPARED.clear()
    _PREPARED[key] = p
    return p


def _tx(locktime: int, sequence: int, version: int) -> Tx:
    return Tx(
        version=version,
        lock_time=locktime,
        vin=[TxIn(OutPoint(b"\x02" * 32, 0), sequence=sequence)],
        vout=[TxOut(_PREV_VALUE - 1000, _dest())],
    )


def _signatures(p: _Prepared, context: str, tx: Tx, avail) -> dict[bytes, bytes]:
    """Real signatures by exactly the available keys, over this spend's sighash.

    Cached per (script, tx parameters, key): the sighash does not read the witness."""
    want = [i for i in dict.fromkeys(avail.get("keys", ())) if 0 <= i < N_KEYS]
    if not want:
        return {}
    base = (context, p.script, tx.nVersion, tx.nLockTime, tx.vin[0].nSequence)
    msg = None
    out: dict[bytes, bytes] = {}
    for i in want:
        ck = base + (i,)
        sig = _SIGS.get(ck)
        if sig is None:
            if msg is None:
                if context == TAPSCRIPT:
                    ext = p.leaf + b"\x00" + (0xFFFFFFFF).to_bytes(4, "little")
                    msg = sig_hash.taproot(tx, 0, [p.prevout], 0, 1, b"", ext)
                else:
                    msg = sig_hash.segwit_v0(p.script, tx, 0, 1, p.prevout.value)
            if context == TAPSCRIPT:
                sig = ssa.sign_(msg, PRV[i]).serialize()
            else:
                sig = dsa.sign_(msg, PRV[i]).serialize() + b"\x01"
            if len(_SIGS) > 200_000:
                _SIGS.clear()
            _SIGS[ck] = sig
        pub = bytes.fromhex(XONLY[i] if context == TAPSCRIPT else SEC[i])
        out[pub] = sig
    return out


def _spend_context(avail) -> SpendContext:
    maps: dict[str, dict[bytes, bytes]] = {name: {} for name in _HASHES}
    for i in dict.fromkeys(avail.get("preimages", ())):
        if 0 <= i < N_PRE:
            for name in _HASHES:
                maps[name][bytes.fromhex(DIGEST[name][i])] = PREIMAGES[i]
    return SpendContext(
        sha256_preimages=maps["sha256"],
        hash256_preimages=maps["hash256"],
        ripemd160_preimages=maps["ripemd160"],
        hash160_preimages=maps["hash160"],
        locktime=int(avail.get("locktime", 0)),
        sequence=int(avail.get("sequence", 0)),
        version=int(avail.get("version", 2)),
    )


class _Recorder:
    """In-process, restored-in-finally observation of the engine's own counters."""

    def __init__(self):
        self.ops = None
        self.peak = None
        self.runs = 0
        self._saved = None

    def __enter__(self):
        rec = self
        count0 = _eng_script.script_op_count
        size0 = _eng_ops.assert_stack_size
        run_v0 = _eng_script._run_ops
        run_tap = _eng_tapscript._run_ops
        self._saved = (count0, size0, run_v0, run_tap)

        def script_op_count(count, increment):
            value = count0(count, increment)
            rec.ops = value
            return value

        def assert_stack_size(stack, altstack):
            depth = len(stack) + len(altstack)
            if rec.peak is None or depth > rec.peak:
                rec.peak = depth
            return size0(stack, altstack)

        def run_ops_v0(*a, **kw):
            rec.ops, rec.peak, rec.runs = 0, None, rec.runs + 1
            return run_v0(*a, **kw)

        def run_ops_tap(*a, **kw):
            rec.ops, rec.peak, rec.runs = None, None, rec.runs + 1
            return run_tap(*a, **kw)

        _eng_script.script_op_count = script_op_count
        _eng_ops.assert_stack_size = assert_stack_size
        _eng_script._run_ops = run_ops_v0
        _eng_tapscript._run_ops = run_ops_tap
        return self

    def __exit__(self, *exc):
        count0, size0, run_v0, run_tap = self._saved
        _eng_script.script_op_count = count0
        _eng_ops.assert_stack_size = size0
        _eng_script._run_ops = run_v0
        _eng_tapscript._run_ops = run_tap
        return False


def spend_check(expr: str, context: str, avail: dict) -> dict:
    """Satisfy `expr` with what `avail` offers and let the real engine judge the witness."""
    p = _prepare(expr, context)
    node = p.node
    locktime = int(avail.get("locktime", 0))
    sequence = int(avail.get("sequence", 0))
    version = int(avail.get("version", 2))
    tx = _tx(locktime, sequence, version)
    signatures = _signatures(p, context, tx, avail)
    spend = _spend_context(avail)

    res = {
        "expr": expr, "context": context,
        "produced": False, "refusal": None, "refusal_msg": "",
        "stack": [], "engine_ok": None, "engine_err": "",
        "policy_ok": None, "policy_err": "",
        "n_items": None, "wit_size": None, "wit_size_varint": None,
        "executed_ops": None, "static_ops": p.static_ops, "exec_peak": None,
        "max_ops": node.max_ops, "max_stack_items": node.max_stack_items,
        "max_exec_stack_items": node.max_exec_stack_items,
        "max_witness_size": node.max_witness_size,
        "cond": condition(node, context, avail),
        "is_sane": node.is_sane, "is_satisfiable": node.is_satisfiable,
        "script_size": len(p.script), "n_signatures": len(signatures),
    }
    try:
        stack = node.satisfy(signatures, spend)
    except BTClibValueError as e:
        msg = str(e)
        res["refusal_msg"] = msg[:300]
        if msg.startswith("no satisfaction of"):
            res["refusal"] = "none"
        elif msg.startswith("no non-malleable satisfaction of"):
            res["refusal"] = "malleable"
        else:
            res["refusal"] = "other"
        return res

    stack = [bytes(e) for e in stack]
    res["produced"] = True
    res["stack"] = [e.hex() for e in stack]
    res["n_items"] = len(stack)
    res["wit_size"] = sum(len(e) + 1 for e in stack)
    res["wit_size_varint"] = sum(len(e) + len(_var_int(len(e))) for e in stack)
    tail = [p.script, p.control] if context == TAPSCRIPT else [p.script]
    tx.vin[0].script_witness = Witness([*stack, *tail])
    rec = _Recorder()
    try:
        with rec:
            verify_transaction([p.prevout], tx)
        res["engine_ok"] = True
    except Exception as e:  # noqa: BLE001 - the text is the observation
        res["engine_ok"] = False
        res["engine_err"] = f"{type(e).__name__}: {e}"[:400]
    res["exec_peak"] = rec.peak
    if context != TAPSCRIPT and rec.runs:
        res["executed_ops"] = rec.ops
    try:
        verify_transaction([p.prevout], tx, POLICY_FLAGS)
        res["policy_ok"] = True
    except Exception as e:  # noqa: BLE001
        res["policy_ok"] = False
        res["policy_err"] = f"{type(e).__name__}: {e}"[:400]
    return res


# ------------------------------------------------------------------ oracle
# exec_peak <= max_exec_stack_items is part of the property's statement; it is checked as a
# clause of its own so that its failures are told apart from the four the caller listed
CHECK_EXEC_STACK = True
# and so is acceptance under the standardness flags: miniscript's satisfactions are promised
# relayable, not merely valid.  A clause of its own ('policy: ...') for the same reason
CHECK_POLICY = True


def _judge(r: dict) -> tuple[bool, str]:
    fails = []
    if r["refusal"] == "other":
        fails.append(f"satisfy refused with an unexpected message: {r['refusal_msg']}")
    if r["produced"]:
        if not r["engine_ok"]:
            fails.append(f"engine rejects the produced witness: {r['engine_err']}")
        elif CHECK_POLICY and not r["policy_ok"]:
            fails.append(f"policy: engine rejects the produced witness under all flags: {r['policy_err']}")
        for what, got, bound in (
            ("n_items", r["n_items"], r["max_stack_items"]),
            ("wit_size", r["wit_size"], r["max_witness_size"]),
        ):
            if bound is None:
                fails.append(f"{what}={got} but the static bound is None (unsatisfiable by analysis)")
            elif got > bound:
                fails.append(f"{what}={got} > bound {bound}")
        if r["context"] != TAPSCRIPT and r["executed_ops"] is not None and r["engine_ok"]:
            if r["max_ops"] is None:
                fails.append(f"executed_ops={r['executed_ops']} but max_ops is None")
            elif r["executed_ops"] > r["max_ops"]:
                fails.append(f"executed_ops={r['executed_ops']} > max_ops {r['max_ops']}")
        if CHECK_EXEC_STACK and r["engine_ok"] and r["exec_peak"] is not None:
            if r["max_exec_stack_items"] is None:
                fails.append(f"exec_peak={r['exec_peak']} but max_exec_stack_items is None")
            elif r["exec_peak"] > r["max_exec_stack_items"]:
                fails.append(f"exec_peak={r['exec_peak']} > max_exec_stack_items {r['max_exec_stack_items']}")
    if not r["cond"] and r["produced"]:
        fails.append("condition is false under avail, yet a satisfaction was produced")
    if fails:
        return False, "; ".join(fails) + f" | stack={r['stack']}"
    if r["produced"]:
        return True, (f"produced {r['n_items']}/{r['max_stack_items']} items, {r['wit_size']}/{r['max_witness_size']} bytes, "
                      f"ops {r['executed_ops']}/{r['max_ops']}, exec {r['exec_peak']}/{r['max_exec_stack_items']}, engine ok")
    return True, f"refused ({r['refusal']}), cond={r['cond']}"


def oracle_spend(w) -> tuple[bool, str]:
    try:
        expr, context, avail = w["expr"], w["context"], w["avail"]
        try:
            _prepare(expr, context)
        except BTClibValueError as e:
            return True, f"not parsed: {e}"[:300]
        return _judge(spend_check(expr, context, avail))
    except Exception as e:  # noqa: BLE001
        return False, f"oracle crashed: {type(e).__name__}: {e}"[:400]


# ------------------------------------------------------------------ availability enumeration
def _used(node):
    keys, pres, olders, afters = [], [], [], []
    for n in _tree_nodes(node):
        f = n.fragment
        for i in _node_key_indices(n):
            if i is not None and i not in keys:
                keys.append(i)
        if f in _HASHES:
            i = _DIGEST_INDEX[f].get(n.data.hex())
            if i is not None and i not in pres:
                pres.append(i)
        elif f == "older" and n.threshold not in olders:
            olders.append(n.threshold)
        elif f == "after" and n.threshold not in afters:
            afters.append(n.threshold)
    return keys, pres, olders, afters


def _tx_params(olders: list[int], afters: list[int]) -> list[tuple[int, int, int]]:
    """(locktime, sequence, version) triples from the expression's own lock values.

    The first triple is the most permissive one: the largest older() of the first one's unit
    and the largest after() of the first one's kind."""
    seqs: list[int] = []
    if olders:
        unit = olders[0] & (1 << 22)
        seqs.append(max((n for n in olders if n & (1 << 22) == unit), key=lambda n: n & 0xFFFF))
    for n in olders:
        seqs += [n, n ^ (1 << 22), n | (1 << 31)]
        if n - 1 >= 0:
            seqs.append(n - 1)
    seqs += [0, 0xFFFFFFFF]
    lts: list[int] = []
    if afters:
        kind = afters[0] >= _LOCKTIME_THRESHOLD
        lts.append(max(n for n in afters if (n >= _LOCKTIME_THRESHOLD) == kind))
    for n in afters:
        other = n + _LOCKTIME_THRESHOLD if n < _LOCKTIME_THRESHOLD else n - _LOCKTIME_THRESHOLD
        lts += [n, n - 1, other]
    lts.append(0)
    seqs = [s for s in dict.fromkeys(seqs) if 0 <= s <= 0xFFFFFFFF]
    lts = [t for t in dict.fromkeys(lts) if 0 <= t <= 0xFFFFFFFF]
    params = [(t, s, 2) for t in lts for s in seqs]
    params.append((lts[0], seqs[0], 1))      # version 1, once
    return params


def _subset(items: list[int], mask: int) -> list[int]:
    return [x for j, x in enumerate(items) if mask >> j & 1]


def all_avail(node_or_expr, context, rng=None, limit=None) -> list[dict]:
    """Every (key subset) x (preimage subset) x (tx parameters) of a small expression.

    Order: tx parameters slowest, then preimage subsets, then key subsets, each from all to
    none; the first entry is 'everything available under the most permissive tx', and the
    last one appended is 'nothing available' (no key, no preimage, version 1, final sequence,
    locktime 0).  Over `limit`, `limit` entries are sampled with `rng` and those two kept."""
    node = parse(node_or_expr, context) if isinstance(node_or_expr, str) else node_or_expr
    keys, pres, olders, afters = _used(node)
    params = _tx_params(olders, afters)
    nk, npre = 1 << len(keys), 1 << len(pres)
    total = nk * npre * len(params)

    def make(index: int) -> dict:
        ki = index % nk
        pi = (index // nk) % npre
        ti = index // (nk * npre)
        lt, seq, ver = params[ti]
        return {"keys": _subset(keys, nk - 1 - ki), "preimages": _subset(pres, npre - 1 - pi),
                "locktime": lt, "sequence": seq, "version": ver}

    none = {"keys": [], "preimages": [], "locktime": 0, "sequence": 0xFFFFFFFF, "version": 1}
    if limit is None or total + 1 <= limit:
        out = [make(i) for i in range(total)]
    else:
        rng = rng or random.Random(0)
        n = max(0, min(total - 1, limit - 2))
        picked = sorted(rng.sample(range(1, total), n)) if n else []
        out = [make(0)] + [make(i) for i in picked]
    if none not in out:
        out.append(none)
    return out


ORACLES = {"spend": oracle_spend}
