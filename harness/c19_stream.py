"""C19 'reads no more than it needs from a caller's stream' on EVERY parse(stream) entry point.

Entry points: every public function / classmethod / staticmethod of the btclib package whose first parameter admits
a BytesIO (annotation names BinaryData or BytesIO), found by introspection on every run.  Each is classified:

  MODELLED      the codec is one of the 31 of `Props.C19.wire_parsers_read_exactly` / `more_wire_parsers_read_exactly`
                (or the record loop / script walk theorems): besides the oracle below, the `pos.*` stream of harness/c19.py
                compares the position reached with the MODEL's consumed count on the same bytes;
  WHOLE_STREAM  reads the caller's stream to its end BY DESIGN (a script has no length of its own: the caller
                delimits it with var_bytes) - listed, and held to exactly that;
  UTILITY       takes a stream but parses nothing;
  the rest      no Lean codec: oracle only (listed in evidence and in the manifest).

The oracle (`g_trailing`), for every valid seed encoding b of the entry point and every keyword spelling:
  1. parse(BytesIO(b)) is accepted at position p0 (p0 = len(b) for a canonical seed);
  2. for every tail (one 00 / ff byte, 9 zero bytes, b itself again, random bytes, a CompactSize escape):
     parse(BytesIO(b[:p0] + tail)) is accepted, the stream stands at p0 EXACTLY and the object is the same -
     else `<ep>:overread` (stands after p0) / `<ep>:looks-past` (another answer although only later bytes changed);
  3. the position is compared with the length of the re-serialization of what was returned (counted per entry point:
     `reser==pos` / `reser!=pos`; a difference is a normalising codec - C05's business - not an over-read, and is reported
     as a statistic);
then the same on structure-aware mutations of b followed by a tail (c19_core's stream check: the stream cut one byte
short of the position reached must not give the same object, and another tail must give the same position and object).
"""
from __future__ import annotations

import importlib
import inspect
import pkgutil
from io import BytesIO

from . import c19_core as C
from . import c19_gen as G
from . import c19_seeds as S

B, IO, L = G.B, G.IO, G.L

# ep -> the pos.* op of drv_c19 that runs the Lean codec on the same bytes (harness/c19.py: _POS and the four function ops)
MODELLED = {
    "btclib.var_int.parse": "pos.varint", "btclib.var_bytes.parse": "pos.varbytes",
    "btclib.tx.out_point.OutPoint.parse": "pos.outpoint", "btclib.script.witness.Witness.parse": "pos.witness",
    "btclib.tx.tx_in.TxIn.parse": "pos.txin", "btclib.tx.tx_out.TxOut.parse": "pos.txout", "btclib.tx.tx.Tx.parse": "pos.tx",
    "btclib.block.block_header.BlockHeader.parse": "pos.header", "btclib.block.block.Block.parse": "pos.block",
    "btclib.bip32.bip32.BIP32KeyData.parse": "pos.xkey", "btclib.psbt.psbt_utils.deserialize_map": "pos.psbtmap",
    "btclib.p2p.message.Message.parse": "pos.msg", "btclib.p2p.address.NetworkAddress.parse": "pos.netaddr",
    "btclib.p2p.address.TimestampedNetworkAddress.parse": "pos.timedaddr", "btclib.p2p.address.Addr.parse": "pos.addr",
    "btclib.p2p.inventory.Inventory.parse": "pos.inventory", "btclib.p2p.inventory.Inv.parse": "pos.inv",
    "btclib.p2p.inventory.GetData.parse": "pos.inv", "btclib.p2p.inventory.NotFound.parse": "pos.inv",
    "btclib.p2p.inventory.GetHeaders.parse": "pos.getheaders", "btclib.p2p.inventory.GetBlocks.parse": "pos.getheaders",
    "btclib.p2p.inventory.Headers.parse": "pos.headers",
    "btclib.p2p.keepalive.Ping.parse": "pos.ping", "btclib.p2p.keepalive.Pong.parse": "pos.ping",
    "btclib.p2p.negotiation.FeeFilter.parse": "pos.feefilter", "btclib.p2p.compact_blocks.SendCmpct.parse": "pos.sendcmpct",
    "btclib.p2p.block_filters.GetCFilters.parse": "pos.getcfilters", "btclib.p2p.block_filters.GetCFHeaders.parse": "pos.getcfilters",
    "btclib.p2p.block_filters.CFilter.parse": "pos.cfilter", "btclib.p2p.block_filters.CFHeaders.parse": "pos.cfheaders",
    "btclib.p2p.block_filters.GetCFCheckpt.parse": "pos.getcfcheckpt", "btclib.p2p.block_filters.CFCheckpt.parse": "pos.cfcheckpt",
    "btclib.ecc.ssa.Sig.parse": "pos.ssasig", "btclib.ecc.bms.Sig.parse": "pos.bmssig",
    "btclib.p2p.data.BlockPayload.parse": "pos.block", "btclib.p2p.data.TxPayload.parse": "pos.tx",
}
# the model serves the same codec under a sibling class: streamed by the oracle, by pos.* through the sibling
WHOLE_STREAM = {"btclib.script.script.parse": "a script is the whole stream (callers read it through var_bytes first); "
                                              "the walk itself is script_walk_is_total_and_exact / pos.script",
                "btclib.script.taproot.parse": "a tapscript is the whole stream (BIP342: the caller has the witness item)",
                "btclib.block.block_filter.BasicBlockFilter.parse": "documented: 'The whole of the octets: a Golomb-coded set carries no length "
                                                                    "of its own' (BIP157's cfilter message delimits it with var_bytes)"}
# whole-data by design only under a keyword value: dsa.Sig.parse(strict=True) is Core's IsValidSignatureEncoding, which
# 'covers what comes after the sequence as well'; with strict=False the parser must stand exactly after the DER sequence
WHOLE_UNDER = {"btclib.ecc.dsa.Sig.parse": ("strict", True)}
UTILITY = {"btclib.utils.assert_no_trailing", "btclib.utils.bytesio_from_binarydata"}
FUNC_SEEDS = {"btclib.var_int.parse": "varints", "btclib.var_bytes.parse": "varbytes", "btclib.script.script.parse": "scripts",
              "btclib.script.taproot.parse": "scripts", "btclib.psbt.psbt_utils.deserialize_map": "maps"}

_SEPS = None


def stream_entry_points():
    """{ep: fn} for every public callable whose first parameter admits a caller's BytesIO"""
    global _SEPS
    if _SEPS is not None:
        return _SEPS
    import btclib
    out = {}

    def consider(q, fn):
        try:
            ps = list(inspect.signature(fn).parameters.values())
        except (TypeError, ValueError):
            return
        if ps and ("BinaryData" in str(ps[0].annotation) or "BytesIO" in str(ps[0].annotation)):
            out[q] = fn

    for mi in pkgutil.walk_packages(btclib.__path__, "btclib."):
        if any(p.startswith("_") for p in mi.name.split(".")[1:]) or mi.name.startswith(C.SKIP_MODULES):
            continue
        try:
            m = importlib.import_module(mi.name)
        except Exception:  # noqa: BLE001
            continue
        for n, o in sorted(vars(m).items()):
            if n.startswith("_"):
                continue
            if inspect.isfunction(o) and o.__module__ == m.__name__:
                consider(f"{m.__name__}.{n}", o)
            elif inspect.isclass(o) and o.__module__ == m.__name__:
                for mn in sorted(dir(o)):
                    if mn.startswith("_"):
                        continue
                    if isinstance(inspect.getattr_static(o, mn, None), (classmethod, staticmethod)):
                        consider(f"{m.__name__}.{n}.{mn}", getattr(o, mn))
    _SEPS = out
    return out


def classify(ep):
    if ep in UTILITY:
        return "utility"
    if ep in WHOLE_STREAM:
        return "whole-stream"
    return "modelled" if ep in MODELLED else "oracle-only"


def seeds_for(ep, rng):
    """[(bytes, kwargs)] valid encodings of the entry point"""
    from . import c05_oracles as O
    from . import c19_groups as Gr
    if ep in FUNC_SEEDS:
        out = [(Gr._bin_seed(rng, FUNC_SEEDS[ep]), {}) for _ in range(8)]
        if FUNC_SEEDS[ep] == "varints":
            out += [(G.varint(v), {}) for v in (0, 1, 0xFC, 0xFD, 0xFFFF, 0x10000, 0x2000000)]
        if FUNC_SEEDS[ep] == "varbytes":
            out += [(G.varint(len(x)) + x, {}) for x in (b"", b"\x00", bytes(range(40)), b"\xff" * 253, bytes(300))]
        return out
    out = []
    for name, sp in O._registry().items():
        if f"{sp.cls.__module__}.{sp.cls.__qualname__}.parse" == ep and name in S.CLASS_BIN:
            out += [(b, dict(kw)) for b, kw in S.CLASS_BIN[name] if len(b) < 4000]
    if not out and ep in FALLBACK_SEEDS:      # the seeded constructor recipe of the class refused every draw of this run
        out = [(FALLBACK_SEEDS[ep](), {})]
    return out[:24]


def _bms_sig():
    from btclib import b58
    from btclib.ecc import bms
    return bms.sign(b"C19", b58.wif_from_prv_key(S.K1)).serialize()


def _dsa_sig():
    from btclib.ecc import dsa
    return dsa.sign(b"C19", S.K1).serialize()


def _ssa_sig():
    from btclib.ecc import ssa
    return ssa.sign(b"C19", S.K1).serialize()


FALLBACK_SEEDS = {"btclib.ecc.bms.Sig.parse": _bms_sig, "btclib.ecc.dsa.Sig.parse": _dsa_sig, "btclib.ecc.ssa.Sig.parse": _ssa_sig}


def _tails(rng, b):
    return [b"\x00", b"\xff", b"\x00" * 9, b[:64] or b"\x01", bytes(rng.getrandbits(8) for _ in range(rng.choice([1, 5, 40]))),
            b"\xfd\xff\xff", b"\xff" * 9, b"\x01"]


def _kw_spellings(fn, kw):
    params = inspect.signature(fn).parameters
    outs = [dict(kw)]
    if "check_validity" in params:
        outs.append(dict(kw, check_validity=False))
    if "strict" in params:
        outs += [dict(k, strict=False) for k in list(outs)]
    return outs


def classify_call(ep, kw):
    if ep in WHOLE_UNDER and kw.get(WHOLE_UNDER[ep][0], WHOLE_UNDER[ep][1]) == WHOLE_UNDER[ep][1]:
        return "whole-stream"
    return classify(ep)


def _mat_kw(kw):
    return {k: (G.L(v) if isinstance(v, (list, tuple)) else (B(v) if isinstance(v, (bytes, bytearray)) else v)) for k, v in kw.items()}


def g_trailing(R, rng, n):
    eps = stream_entry_points()
    part, parts = getattr(rng, "seed_value", 0) & 7, 8
    for k, ep in enumerate(sorted(eps)):
        if k % parts != part:
            continue
        cls = classify(ep)
        fn = eps[ep]
        R.counts[("trailing.class", ep, cls)] = 1
        if cls == "utility":
            continue
        seeds = seeds_for(ep, rng)
        if not seeds:
            R.counts[("trailing", ep, "undriven")] = 1
            continue
        for b, kw0 in seeds:
            for kw in _kw_spellings(fn, _mat_kw(kw0)):
                _one_seed(R, rng, ep, fn, classify_call(ep, kw), b, kw)
        # hostile-but-accepted encodings followed by a tail: c19_core's stream check (cut one short / another tail)
        per = max(1, n // max(1, len(eps) // parts))
        allb = [b for b, _ in seeds]
        for _ in range(per):
            b, kw0 = rng.choice(seeds)
            m = G.mutate_bytes(rng, b, allb) + rng.choice(_tails(rng, b))
            kw = rng.choice(_kw_spellings(fn, _mat_kw(kw0)))
            C.call_spec(R, "trailing", ep, [IO(m)], kw, fn=fn, consumers=False, stream_check=(classify_call(ep, kw) != "whole-stream"))


def check_trailing(ep, fn, cls, b, kw, tails):
    """the oracle on one seed: -> (outcome of the seed alone, p0, reser length or None, calls made, [(key, detail)])"""
    mkw = {k: G.materialize(v) for k, v in kw.items()}
    st0 = BytesIO(b)
    o0, v0, _ = C.guarded(fn, [st0], mkw)
    if o0 != "ok":
        bad = [(f"{ep}:{C.exc_name(o0)}", f"{ep} left through {o0} on the seed {b.hex()[:200]}")] if (o0.startswith("foreign") or o0 == "hang") else []
        return o0, None, None, 1, bad
    p0 = st0.tell()
    ln = None
    if hasattr(v0, "serialize"):
        try:
            ln = len(C._ser(v0))
        except Exception:  # noqa: BLE001 - a refused re-serialization is the consumers' business
            pass
    bad = []
    for tail in tails:
        st = BytesIO(b[:p0] + tail)
        o, v, e = C.guarded(fn, [st], {k: G.materialize(x) for k, x in kw.items()})
        on = f"the {p0} bytes {b[:p0].hex()[:160]}… then the tail {tail.hex()[:40]}, kwargs {kw}"
        if cls == "whole-stream":
            # by design the whole stream is the object: accepted means the stream is at its end
            if o == "ok" and st.tell() != p0 + len(tail):
                bad.append((f"{ep}:partial-read", f"{ep} reads a whole stream by design but stopped at {st.tell()} of {p0 + len(tail)} on {on}"))
            elif o.startswith("foreign") or o == "hang":
                bad.append((f"{ep}:{C.exc_name(o)}", f"{ep} left through {o} on {on}"))
            continue
        if o != "ok":
            bad.append((f"{ep}:looks-past", f"{ep} accepts {p0} bytes standing alone but answers {o} ({str(e)[:120]}) when {len(tail)} more "
                        f"bytes follow them in the caller's stream: {on}"))
        elif st.tell() != p0:
            bad.append((f"{ep}:overread", f"{ep} needs {p0} bytes (accepted alone) but left the caller's stream at {st.tell()} when "
                        f"{len(tail)} more bytes follow: {on}"))
        elif not C._same_value(v0, v):
            bad.append((f"{ep}:looks-past", f"{ep} stopped at {p0} but returned another object when only the bytes after that position changed: {on}"))
    return o0, p0, ln, 1 + len(tails), bad


def _one_seed(R, rng, ep, fn, cls, b, kw):
    tails = _tails(rng, b)
    wit = {"_oracle": "trailing", "ep": ep, "b": b.hex(), "kwargs": kw, "tails": [t.hex() for t in tails]}
    o0, p0, ln, calls, bad = check_trailing(ep, fn, cls, b, kw, tails)
    for i in range(calls):
        R.note("trailing", ep, o0 if not o0.startswith("foreign") else "foreign", f"{ep}|{b.hex()[:2000]}|{kw}|{i}", o0 == "ok")
    k = ("trailing.seeds", ep, "answered" if o0 == "ok" else "refused")
    R.counts[k] = R.counts.get(k, 0) + 1
    if ln is not None:
        k = ("trailing.reser", ep, "reser==pos" if ln == p0 else "reser!=pos")
        R.counts[k] = R.counts.get(k, 0) + 1
    for key, detail in bad:
        R.fail(key, "trailing", detail, wit)


def replay_trailing(w):
    """ORACLES['trailing']: re-run the trailing-bytes oracle on one recorded seed -> (ok, detail)"""
    C.install_watchdog()
    ep = w["ep"]
    fn = stream_entry_points().get(ep) or C.resolve(ep)
    _, _, _, _, bad = check_trailing(ep, fn, classify_call(ep, w.get("kwargs") or {}), bytes.fromhex(w["b"]), w.get("kwargs") or {},
                                     [bytes.fromhex(t) for t in w["tails"]])
    return (False, bad[0][1]) if bad else (True, "reads exactly what it needs")
