"""C15 — miniscript typing, compilation, read-back and satisfaction are consistent (DESIGN §3 C15)."""
from __future__ import annotations

import json
import sys

from btclib.descriptors import miniscript as M
from btclib.descriptors.miniscript import P2WSH, TAPSCRIPT, Miniscript
from btclib.exceptions import BTClibValueError
from btclib.hashes import hash160

from . import common
from .common import hx

PROP = "C15"
EXE = "drv_c15"
GEN_MODULES = ["Miniscript"]
RULE = ("expressions come from one seeded PRNG: a type-directed generator (choose a target type, pick a BIP379 rule "
        "producing it, recurse; verified well-typed by the real code), single-edit mutants of those, structurally "
        "random well-shaped trees (mostly ill-typed), deep chains up to the script-size limit, and the vendored "
        "Core/rust-miniscript vectors under /repo/tests as seeds, in both contexts; non-trivial = the expression is "
        "well-typed (streams) / parsed (oracles); distinct = distinct (stream, op line)")
TRUSTED = [
    "Model/C15/*.lean is hand-written and tied by correspondence, except the type tables, templates, overheads, "
    "op code bytes and limits, which are translated from source (Generated/Miniscript.lean)",
    "keys are raw public keys (33-byte SEC / 32-byte x-only); BIP380 key expressions (xpubs, paths, musig) are C14's",
    "hash160/sha256/… are parameters of the model; the digest of each key is computed by the harness (hashlib)",
    "btclib's script engine is the judge of satisfactions (its own conformance is C08's)",
]
ASSUMPTIONS = [
    # hypotheses the counted theorems carry (each is named in Props/C15.lean and in the manifest)
    "hsig0: an empty signature verifies under no key (the evaluator model's E.sigOK k [] = false)",
    "hH / hh: the evaluator's hash160 is the 20-byte function the script was compiled with",
    "s1Typed: every node typed; numbers as _assert_shape has them (lock times 1..2^31-1, multi 1<=k<=n<=20, "
    "multi_a 1<=k<=n<=999, thresh 1<=k<=#args<2^31)",
    "EnvOK: offered signatures verify, offered preimages hash to their digests, the satisfier's _older/_after reading "
    "of the lock times is the interpreter's CSV/CLTV verdict (satisfy_accepted_partial)",
    "SigsSmall: offered signatures are at most 72 (P2WSH) / 65 (tapscript) bytes",
    "zeroOK: no digest in the expression is the hash of 32 zero bytes (the satisfier's hash dissatisfaction)",
    "withinLimits = is_within_resource_limits (tied by the `bounds` stream); opsStaticOK: P2WSH static op count + the "
    "keys of EVERY multi() <= 201 (follows from is_within_resource_limits when there is no multi(): "
    "ops_static_of_within_limits)",
    "h1000: the returned witness has at most 1000 elements (derived from is_within_resource_limits for P2WSH, "
    "thresh-free expressions, canonical candidate: satisfy_accepted_p2wsh_partial; a hypothesis otherwise)",
    "hcan / noThresh (bounds theorem only): the chosen candidate is canonical (observed: always for sane expressions, "
    "counted per run as sat.canonical) and the expression has no thresh (multi and multi_a are covered)",
    "read-back (decoder_machine_reads_back_partial): rd .seq (fragment set and and_v chains nested to the left), allTyped, "
    "shaped; hh: hash160 answers 20 bytes; hkoh: key_hashes files every key of the expression under its hash160; the "
    "theorem starts from the entry list rents(n), whose equality with _decomposed(script) is the `rents` oracle's",
    "numsOK (T2): every number of the expression is written in at most ten digits",
]

CTXS = (P2WSH, TAPSCRIPT)
sys.setrecursionlimit(max(sys.getrecursionlimit(), 30000))

WRAPPERS = M._WRAPPERS
BINARY = M._BINARY
HASHES = tuple(M._HASH_OP_CODES)


# ------------------------------------------------------------------ wire format (see Model/C15/Wire.lean)
def written_key(node: Miniscript, key) -> bytes:
    """the bytes the context writes for a key (`miniscript._sec`)."""
    sec = key.sec()
    return sec[1:] if node.context == TAPSCRIPT else sec


def tokens(node: Miniscript) -> list[str]:
    """prefix rendering of a real node; iterative (expressions nest as deep as their script is long)."""
    out: list[str] = []
    stack = [node]
    while stack:
        n = stack.pop()
        f = n.fragment
        if f in ("0", "1"):
            out.append(f)
        elif f in ("pk_k", "pk_h"):
            out += [f, hx(written_key(n, n.keys[0]))]
        elif f in ("older", "after"):
            out += [f, str(n.threshold)]
        elif f in HASHES:
            out += [f, hx(n.data)]
        elif f in ("multi", "multi_a"):
            out += [f, str(n.threshold), str(len(n.keys))] + [hx(written_key(n, k)) for k in n.keys]
        elif f == "thresh":
            out += [f, str(n.threshold), str(len(n.subs))]
            stack.extend(reversed(n.subs))
        else:
            out.append(f)
            stack.extend(reversed(n.subs))
    return out


def table(node: Miniscript) -> str:
    """hash160 of every key as written, `k:h,k:h` (what `pk_h` puts in the script)."""
    seen = {}
    stack = [node]
    while stack:
        n = stack.pop()
        for k in n.keys:
            w = written_key(n, k)
            seen[w] = hash160(w)
        stack.extend(n.subs)
    return ",".join(f"{k.hex()}:{h.hex()}" for k, h in sorted(seen.items())) or "-"


def key_hashes(node: Miniscript) -> dict:
    """what `from_script` needs to read a pk_h back (both spellings of a taproot key)."""
    out = {}
    for key in node.key_expressions:
        sec = key.sec()
        out[hash160(sec)] = sec
        out[hash160(sec[1:])] = sec[1:]
    return out


class Shape(Exception):
    pass


def from_tokens(ctx: str, toks: list[str]) -> Miniscript:
    """rebuild the real node a token line describes (raises what the constructor raises)."""
    pos = 0

    def key(h):
        b = common.unhx(h)
        if len(b) != (32 if ctx == TAPSCRIPT else 33):
            raise BTClibValueError("key size")
        return M._key_from_sec(b, ctx)

    def rd():
        nonlocal pos
        t = toks[pos]
        pos += 1
        if t in ("0", "1"):
            return Miniscript(t, ctx)
        if t in ("pk_k", "pk_h"):
            pos += 1
            return Miniscript(t, ctx, keys=(key(toks[pos - 1]),))
        if t in ("older", "after"):
            pos += 1
            return Miniscript(t, ctx, threshold=int(toks[pos - 1]))
        if t in HASHES:
            pos += 1
            return Miniscript(t, ctx, data=common.unhx(toks[pos - 1]))
        if t in ("multi", "multi_a"):
            k, n = int(toks[pos]), int(toks[pos + 1])
            keys = tuple(key(h) for h in toks[pos + 2:pos + 2 + n])
            pos += 2 + n
            return Miniscript(t, ctx, keys=keys, threshold=k)
        if t == "thresh":
            k, n = int(toks[pos]), int(toks[pos + 1])
            pos += 2
            subs = tuple(rd() for _ in range(n))
            return Miniscript(t, ctx, subs, threshold=k)
        if t in WRAPPERS:
            return Miniscript(t, ctx, (rd(),))
        if t in BINARY:
            x = rd()
            return Miniscript(t, ctx, (x, rd()))
        if t == "andor":
            x = rd()
            y = rd()
            return Miniscript(t, ctx, (x, y, rd()))
        raise Shape(t)
    node = rd()
    if pos != len(toks):
        raise Shape("trailing tokens")
    return node


def props_str(node: Miniscript) -> str:
    return "".join(sorted(node.properties)) or "-"


# ------------------------------------------------------------------ implementation side
def _script(node: Miniscript) -> str:
    try:
        return "ok " + hx(node.script())
    except Exception as e:  # noqa: BLE001
        return "err " + common.err_class(e)


def impl(line: str) -> str:
    t = line.split(" ")
    op = t[0]
    if op == "pushnum":
        return "ok " + hx(M.serialize(M._pushed_number(int(t[1]))))
    if op == "shape":
        try:
            from_tokens(t[1], t[2:])
        except Shape:
            return "bad-op"
        except Exception as e:  # noqa: BLE001
            return "err " + common.err_class(e)
        return "ok"
    if op in ("type", "size", "valid"):
        node = from_tokens(t[1], t[2:])
        if op == "type":
            return "ok " + props_str(node)
        if op == "size":
            return f"ok {node.script_size}"
        return "ok " + ("True" if node.is_valid else "False")
    if op == "script":
        return _script(from_tokens(t[1], t[3:]))
    if op == "bounds":
        n = from_tokens(t[1], t[2:])
        b = lambda x: "True" if x else "False"  # noqa: E731
        return (f"ok ops={n.max_ops} stack={n.max_stack_items} exec={n.max_exec_stack_items} wit={n.max_witness_size} "
                f"limits={b(n.is_within_resource_limits)} sane={b(n.is_sane)} dup={b(n.has_duplicate_keys)}")
    if op == "str":
        return "ok " + str(from_tokens(t[1], t[2:]))
    if op == "decode":
        kh = {} if t[2] == "-" else {common.unhx(h): common.unhx(k) for h, k in (e.split(":") for e in t[2].split(","))}
        try:
            node = M.from_script(common.unhx(t[3]), t[1], kh)
        except Exception as e:  # noqa: BLE001
            return "err " + common.err_class(e)
        return "ok " + " ".join(tokens(node))
    if op == "sat":
        n = from_tokens(t[1], t[7:])
        sigs = {} if t[2] == "-" else {common.unhx(k): common.unhx(v) for k, v in (e.split(":") for e in t[2].split(","))}
        maps = {h: {} for h in HASHES}
        if t[3] != "-":
            for e in t[3].split(","):
                h, d, pr = e.split(":")
                maps[h][common.unhx(d)] = common.unhx(pr)
        spend = M.SpendContext(sha256_preimages=maps["sha256"], hash256_preimages=maps["hash256"],
                               ripemd160_preimages=maps["ripemd160"], hash160_preimages=maps["hash160"],
                               locktime=int(t[4]), sequence=int(t[5]), version=int(t[6]))
        try:
            w = n.satisfy(sigs, spend)
        except BTClibValueError as e:
            return "err " + ("none" if str(e).startswith("no satisfaction of") else
                             "malleable" if str(e).startswith("no non-malleable") else "other")
        except Exception as e:  # noqa: BLE001
            return "err " + common.err_class(e)
        return "ok " + (",".join(hx(x) for x in w) or "-")
    if op == "exec":
        # the REAL engine's verdict on this witness, under every script flag it implements (MINIMALIF, NULLFAIL, …:
        # the model's semantics), for the real spend the signatures were made for
        from . import c15_spend as SP
        from btclib.script.engine import verify_transaction
        from btclib.script.witness import Witness
        n = from_tokens(t[1], t[7:])
        pr = SP._prepare(str(n), t[1])
        tx = SP._tx(int(t[4]), int(t[5]), int(t[6]))
        stack = [] if t[3] == "-" else [common.unhx(e) for e in t[3].split(",")]
        tail = [pr.script, pr.control] if t[1] == TAPSCRIPT else [pr.script]
        tx.vin[0].script_witness = Witness([*stack, *tail])
        try:
            verify_transaction([pr.prevout], tx, SP.POLICY_FLAGS)
        except Exception:  # noqa: BLE001 - any refusal is a refusal
            return "reject"
        return "accept"
    if op == "parse":
        try:
            node = M.parse(common.unhx(t[2]).decode("utf8", "replace"), t[1])
        except Exception as e:  # noqa: BLE001
            return "err " + common.err_class(e)
        return "ok " + " ".join(tokens(node))
    return "bad-op"


# ------------------------------------------------------------------ property oracles (real code only)
def _node_of(w):
    return from_tokens(w["context"], w["tokens"].split(" "))


def _o_size(w):
    """script_size == len(script()) for every valid expression."""
    node = _node_of(w)
    if not node.is_valid:
        try:
            node.script()
        except BTClibValueError:
            return True, "invalid: no script"
        return False, "an invalid expression has a script"
    s = node.script()
    return node.script_size == len(s), f"script_size={node.script_size} len={len(s)}"


def _o_readback(w):
    """from_script(script) compiles to the same script; reads_back agrees."""
    node = _node_of(w)
    if not node.is_valid_top_level:
        return True, "not a top-level script"
    s = node.script()
    kh = key_hashes(node)
    try:
        back = M.from_script(s, node.context, kh)
    except Exception as e:  # noqa: BLE001
        return False, f"from_script(script) raised {type(e).__name__}: {e}"[:300]
    s2 = back.script()
    ok = s2 == s and M.reads_back(s, node.context, kh) and back.script_size == len(s)
    return ok, f"script {s.hex()[:80]} read back as {str(back)[:120]} writing {s2.hex()[:80]}"


def _o_text(w):
    """parse(str(node)) == node, and str is stable."""
    node = _node_of(w)
    if not node.is_valid_top_level:
        return True, "not a top-level script"
    text = str(node)
    try:
        back = M.parse(text, node.context)
    except Exception as e:  # noqa: BLE001
        return False, f"parse(str(node)) raised {type(e).__name__}: {e}"[:300]
    try:
        same = back == node
    except RecursionError:  # dataclass __eq__ recurses on the depth of the tree
        same = tokens(back) == tokens(node)
    return same and str(back) == text, f"{text[:200]} re-parsed as {str(back)[:200]}"


def mutate_witness(rng, stack: list, pool: list) -> list:
    """one edit of a witness stack: drop, insert, replace, swap, or flip a byte of an element."""
    st = list(stack)
    r = rng.random()
    if not st or r < 0.2:
        st.insert(rng.randrange(len(st) + 1), rng.choice(pool))
    elif r < 0.4:
        del st[rng.randrange(len(st))]
    elif r < 0.65:
        st[rng.randrange(len(st))] = rng.choice(pool)
    elif r < 0.8 and len(st) > 1:
        i, j = rng.sample(range(len(st)), 2)
        st[i], st[j] = st[j], st[i]
    else:
        i = rng.randrange(len(st))
        e = bytearray(st[i])
        if e:
            e[rng.randrange(len(e))] ^= 1 << rng.randrange(8)
            st[i] = bytes(e)
        else:
            st[i] = b"\x01"
    return st


def mutate_script(rng, script: bytes) -> bytes:
    """one op-code-aware edit of a compiled script (pushes stay whole unless the edit is about them)."""
    from btclib.script.script import op_code_spans
    spans = list(op_code_spans(script))
    if not spans:
        return script + b"\x51"
    i = rng.randrange(len(spans))
    op, a, b = spans[i]
    r = rng.random()
    ops = [0x00, 0x51, 0x52, 0x60, 0x63, 0x64, 0x67, 0x68, 0x69, 0x6b, 0x6c, 0x73, 0x76, 0x7c, 0x82, 0x87, 0x88, 0x92,
           0x93, 0x9a, 0x9b, 0x9c, 0x9d, 0xa9, 0xac, 0xad, 0xae, 0xaf, 0xb1, 0xb2, 0xba, 0x75]
    if r < 0.25:
        return script[:a] + script[b:]
    if r < 0.5:
        return script[:a] + bytes([rng.choice(ops)]) + script[a:]
    if r < 0.65:
        return script[:a] + bytes([rng.choice(ops)]) + script[b:]
    if r < 0.75 and 0x51 <= op <= 0x60:
        return script[:a] + bytes([1, op - 0x50]) + script[b:]           # OP_n written as a 1-byte push
    if r < 0.85 and op in (0x88, 0xad, 0xaf, 0x9d):
        return script[:a] + bytes([op - 1, 0x69]) + script[b:]           # a VERIFY form written as two op codes
    if r < 0.92:
        j = rng.randrange(len(spans))
        (_, a2, b2) = spans[j]
        if b <= a2:
            return script[:a] + script[a2:b2] + script[b:a2] + script[a:b] + script[b2:]
        return script + script[a:b]
    return script[:rng.randrange(len(script))]


def number_text(rng, text: str) -> str:
    """rewrite one decimal field: leading zeros, and digit runs around btclib's ten-digit bound and CPython's
    4300-digit int() limit (a longer run is a bare ValueError from int() unless refused before it)."""
    import re
    ms = list(re.finditer(r"(?<=\()(\d+)(?=[,)])", text))
    if not ms:
        return "older(" + "1" * rng.choice([10, 11, 4300, 4301, 10000]) + ")"
    m = rng.choice(ms)
    v = m.group(1)
    r = rng.random()
    if r < 0.4:
        new = "0" * (rng.choice([9, 10, 11, 12, 4299, 4300, 4301, 10000]) - len(v)) + v
    elif r < 0.7:
        new = rng.choice("123456789") * rng.choice([9, 10, 11, 4300, 4301, 10000])
    elif r < 0.85:
        new = "0" * rng.randrange(1, 6) + v
    else:
        new = rng.choice(["2147483647", "2147483648", "4294967295", "9999999999", "10000000000", "0000000001"])
    return text[:m.start()] + new + text[m.end():]


def ws_text(rng, text: str) -> str:
    """white space inside or around a hex argument, where `bytes.fromhex` skips it (between two bytes) or not (inside
    one).  Only 20/32-byte digests of hash fragments and 33-byte keys: 32 bytes of key hex with white space are read
    by btclib as a PRIVATE key, which is a BIP380 matter (C14) outside this model."""
    import re
    ms = [m for m in re.finditer(r"(sha256|hash256|ripemd160|hash160)\(([0-9a-f]+)\)|(?<![0-9a-f])(0[23][0-9a-f]{64})(?![0-9a-f])", text)]
    if not ms:
        return text
    m = rng.choice(ms)
    g = 2 if m.group(2) else 3
    h, a = m.group(g), m.start(g)
    w = rng.choice([" ", "\t", "\n", "\r", "\x0b", "\x0c", "  "])
    k = rng.choice([0, len(h), 2 * rng.randrange(len(h) // 2 + 1), rng.randrange(len(h) + 1)])
    return text[:a] + h[:k] + w + h[k:] + text[a + len(h):]


def mutate_text(rng, text: str) -> str:
    """one structural edit of an expression's text; long hex runs (keys, digests) are left whole."""
    import re
    spans = [(m.start(), m.end()) for m in re.finditer(r"[0-9a-fA-F]{40,}", text)]

    def free(i):
        return not any(a <= i < b for a, b in spans)
    pos = [i for i in range(len(text) + 1) if free(i) and (i == 0 or free(i - 1))]
    i = rng.choice(pos)
    r = rng.random()
    alphabet = "(),:0123456789_abcdjlnstuvkhopr x"
    if r < 0.35 and i < len(text) and free(i):
        return text[:i] + text[i + 1:]
    if r < 0.7:
        return text[:i] + rng.choice(alphabet) + text[i:]
    if r < 0.85 and i < len(text) and free(i):
        return text[:i] + rng.choice(alphabet) + text[i + 1:]
    j = rng.choice(pos)
    a, b = min(i, j), max(i, j)
    return text[:a] + text[b:] if rng.random() < 0.5 else text[:b] + text[a:b] + text[b:]


def _o_spend(w):
    from . import c15_spend as SP
    return SP.oracle_spend(w)


def _o_decoder_total(w):
    """from_script refuses what is not a miniscript with the library's ValueError, and reads_back answers a bool."""
    sc = bytes.fromhex(w["script"])
    try:
        M.from_script(sc, w["context"])
    except BTClibValueError:
        pass
    except Exception as e:  # noqa: BLE001
        return False, f"from_script({w['script']}) left through {type(e).__name__}: {e}"
    try:
        r = M.reads_back(sc, w["context"])
    except Exception as e:  # noqa: BLE001
        return False, f"reads_back({w['script']}) raised {type(e).__name__}: {e}"
    return isinstance(r, bool), f"reads_back -> {r!r}"


def _o_solver(w):
    """PSBT glue (descriptors.miniscript_solver / miniscript_sizer): what finalize() returns the engine accepts,
    the spend context is the transaction's own (nLockTime, nSequence, version), the sizer bounds the witness."""
    from . import c15_solver as SV
    ok, detail = SV.oracle_solver(w)
    if not ok:
        # the property quantifies over SANE expressions.  On an insane one (malleable / mixed lock times) the
        # ESTIMATE `max_witness_stack` (every lock assumed met, even exclusive ones) can mark the branch a real
        # spend takes as malleable and report the smaller one: recorded, reported to the lead, not a C15 violation.
        # Every other clause (engine acceptance, no witness on a false condition) stays enforced for all expressions.
        clauses = detail.split(" | ")[0].split("; ")
        sizer_only = all(c.startswith(("miniscript_sizer", "weight_estimate", "satisfaction_sizer")) for c in clauses)
        try:
            sane = M.parse(w["expr"], w["context"]).is_sane
        except Exception:  # noqa: BLE001
            sane = True
        if sizer_only and not sane:
            INSANE_SIZER.append(w["expr"][:120])
            return True, "insane expression, sizer under-estimate (outside the property's quantifier): " + detail[:300]
    return ok, detail


INSANE_SIZER: list = []


ORACLES = {"size": _o_size, "readback": _o_readback, "text": _o_text, "spend": _o_spend, "solver": _o_solver,
           "decoder_total": _o_decoder_total}


def ill_shaped(rng, toks: list[str], ctx: str) -> list[str]:
    """one edit of a token line that `_assert_shape` should refuse (or, rarely, still accept)."""
    t = list(toks)
    idx = [i for i, x in enumerate(t) if x in ("older", "after", "thresh", "multi", "multi_a") or x in HASHES]
    if not idx:
        return ["older", rng.choice(["0", str(2**31), str(2**31 - 1), "1"])]
    i = rng.choice(idx)
    f = t[i]
    if f in ("older", "after"):
        t[i + 1] = rng.choice(["0", str(2**31), str(2**31 + 5), str(2**31 - 1), "1", str(2**32)])
    elif f == "thresh":
        n = int(t[i + 2])
        t[i + 1] = rng.choice(["0", str(n + 1), str(n), "1", str(n + 7)])
    elif f in ("multi", "multi_a"):
        n = int(t[i + 2])
        r = rng.random()
        if r < 0.6:
            t[i + 1] = rng.choice(["0", str(n + 1), str(n), "1"])
        else:
            t[i] = "multi_a" if f == "multi" else "multi"
    else:
        r = rng.random()
        if r < 0.5:
            t[i + 1] = t[i + 1][:-2]
        elif r < 0.8:
            t[i + 1] = t[i + 1] + "00"
        else:
            t[i] = rng.choice([h for h in HASHES if h != f])
    return t


# ------------------------------------------------------------------ run
def gen_s1(rng, c, keys, digests, size, basic="B", used=None):
    """type-directed expression over the fragment set T3 covers (0 1 pk_k c: v: a: n: and_v and_b or_b or_c or_d
    or_i andor); None when the real type system refuses the draw."""
    used = used if used is not None else []

    def key():
        free = [k for k in keys if k not in used] or keys
        k = rng.choice(free)
        used.append(k)
        return M._key_from_sec(bytes.fromhex(k)[1:] if c == TAPSCRIPT else bytes.fromhex(k), c)

    def go(b, sz):
        def sub(bb, part=2):
            return go(bb, max(1, (sz - 1) // part))
        if b == "K":
            r = rng.choice(["pk_k"] * 2 + ["pk_h"] + (["and_v", "or_i", "andor"] if sz > 2 else []))
            if r in ("pk_k", "pk_h"):
                return Miniscript(r, c, keys=(key(),))
            if r == "and_v":
                return Miniscript("and_v", c, (sub("V"), sub("K")))
            if r == "or_i":
                return Miniscript("or_i", c, (sub("K"), sub("K")))
            return Miniscript("andor", c, (sub("B", 3), sub("K", 3), sub("K", 3)))
        if b == "W":
            return Miniscript(rng.choice(["a:", "a:", "s:"]), c, (go("B", sz - 1),))
        if b == "V":
            r = rng.choice(["v:"] * 3 + (["and_v", "or_c", "or_i", "andor"] if sz > 2 else []))
            if r == "v:":
                return Miniscript("v:", c, (go("B", sz - 1),))
            if r == "and_v":
                return Miniscript("and_v", c, (sub("V"), sub("V")))
            if r == "or_c":
                return Miniscript("or_c", c, (sub("B"), sub("V")))
            if r == "or_i":
                return Miniscript("or_i", c, (sub("V"), sub("V")))
            return Miniscript("andor", c, (sub("B", 3), sub("V", 3), sub("V", 3)))
        if sz <= 1:
            r = rng.choice(["c:", "c:", "c:", "1", "0", "hash", "lock"])
        else:
            r = rng.choice(["c:", "n:", "d:", "j:", "and_v", "and_b", "or_b", "or_d", "or_i", "andor", "1", "0", "hash",
                            "lock"])
        if r in ("0", "1"):
            return Miniscript(r, c)
        if r == "lock":
            return Miniscript(rng.choice(["older", "after"]), c, threshold=rng.choice(
                [1, 2, 16, 17, 144, 65535, 4194305, 499999999, 500000000, 500000001, 2147483647]))
        if r == "hash":
            h = rng.choice(HASHES)
            return Miniscript(h, c, data=bytes.fromhex(rng.choice(digests[h])))
        if r == "c:":
            return Miniscript("c:", c, (go("K", sz - 1),))
        if r == "n:":
            return Miniscript("n:", c, (go("B", sz - 1),))
        if r == "j:":
            inner = Miniscript("c:", c, (go("K", 1),)) if rng.random() < 0.6 else \
                Miniscript("and_v", c, (Miniscript("v:", c, (Miniscript("c:", c, (go("K", 1),)),)), sub("B")))
            return Miniscript("j:", c, (inner,))
        if r == "d:":
            return Miniscript("d:", c, (Miniscript("v:", c, (Miniscript("1", c),)),))
        if r == "and_v":
            return Miniscript("and_v", c, (sub("V"), sub("B")))
        if r in ("and_b", "or_b"):
            return Miniscript(r, c, (sub("B"), sub("W")))
        if r in ("or_d", "or_i"):
            return Miniscript(r, c, (sub("B"), sub("B")))
        return Miniscript("andor", c, (sub("B", 3), sub("B", 3), sub("B", 3)))
    for _ in range(30):
        del used[:]
        n = go(basic, size)
        if n.properties and basic in n.properties:
            return n
    return None


def vector_seeds():
    path = "/repo/tests/_data/miniscript_fixed_tests.json"
    out = []
    try:
        vs = json.load(open(path))
    except OSError:
        return out
    for v in vs:
        for ctx in CTXS:
            try:
                out.append(M.parse(v["miniscript"], ctx))
            except Exception:  # noqa: BLE001
                pass
    return out


def run(ctx):
    from . import c15_gen as G
    from . import c15_spend as SP
    rng = ctx.rng
    keys = SP.SEC
    digests = SP.DIGEST
    nodes: list[Miniscript] = []
    s1_nodes: list[Miniscript] = []
    quorums: list[Miniscript] = []
    seeds = vector_seeds()
    ctx.count("source", "vector", len(seeds))
    nodes += seeds
    for c in CTXS:
        for _ in range(ctx.n(120, 3000)):
            basic = rng.choice("BBBVKW")
            n = G.gen_typed(rng, c, keys, digests, basic=basic, size=rng.choice([1, 2, 3, 5, 8, 12, 20, 30]))
            if n is not None:
                nodes.append(n)
                ctx.count("source", "typed")
        sane = [G.gen_sane(rng, c, keys, digests, size=rng.choice([3, 5, 8, 12, 20])) for _ in range(ctx.n(60, 1500))]
        nodes += sane
        ctx.count("source", "sane", len(sane))
        for s in sane[:ctx.n(40, 1000)]:
            nodes.append(G.mutate(rng, s, c, keys, digests))
            ctx.count("source", "mutant")
        for _ in range(ctx.n(60, 1500)):
            nodes.append(G.gen_shaped(rng, c, keys, digests, size=rng.choice([2, 3, 5, 8])))
            ctx.count("source", "shaped")
        for _ in range(ctx.n(60, 1500)):
            n = gen_s1(rng, c, keys, digests, rng.choice([2, 3, 5, 8, 12]))
            if n is not None:
                nodes.append(n)
                s1_nodes.append(n)
                ctx.count("source", "s1")
    for c in CTXS:
        # nested to the script size limit (and, for P2WSH, one step beyond it)
        limit = M._max_script_size(c)
        for _ in range(ctx.n(2, 12)):
            target = rng.choice([limit, limit - 1, limit - rng.randrange(40)]) if c == P2WSH else rng.choice([3600, 6000, 9000])
            d = G.deep_chain(rng, c, keys, digests, target)
            nodes.append(d)
            ctx.count("source", "deep")
            ctx.count("deep.script_size", str(d.script_size // 500 * 500) + "+")
        ks = [M._key_from_sec(bytes.fromhex(k)[1:] if c == TAPSCRIPT else bytes.fromhex(k), c) for k in keys]
        big = Miniscript("thresh", c, tuple(
            Miniscript("c:" if i == 0 else "s:", c, (Miniscript("pk_k", c, keys=(ks[i % len(ks)],)) if i == 0 else
                                                   Miniscript("c:", c, (Miniscript("pk_k", c, keys=(ks[i % len(ks)],)),)),))
            for i in range(rng.choice([100, 101, 102, 103, 110]))), threshold=2)
        nodes.append(big)
        ctx.count("source", "oversize" if big.script_size > limit else "large")
        # many-key quorums: multi() up to the 20 keys OP_CHECKMULTISIG takes (the key count is a data push from 17
        # on), multi_a() past the point where one signature and n-1 empty pushes meet BIP342's sigops budget
        frag = "multi_a" if c == TAPSCRIPT else "multi"
        for cnt in (sorted({1, 2, 15, 16, 17, 18, 19, 20} | {rng.randrange(1, 21)}) if c == P2WSH
                    else sorted({1, 2, 10, 11, 12, 16, 17, 40} | {rng.randrange(1, 17)})):
            kq = rng.choice(sorted({1, 2, cnt // 2 or 1, cnt}))
            q = Miniscript(frag, c, keys=tuple(ks[i % len(ks)] for i in range(cnt)), threshold=min(kq, cnt))
            nodes.append(q)
            ctx.count("source", "quorum")
            if cnt <= len(ks):
                quorums.append(q)
    for n in nodes:
        ctx.count("typed", "well-typed" if n.properties else "ill-typed")
        ctx.count("context", n.context)
        for f, k in G.histogram(n).items():
            ctx.count("fragment", f, k)
    lines = {"type": [], "size": [], "valid": [], "bounds": [], "script": [], "str": [], "parse": [], "decode": []}
    for n in nodes:
        tk = " ".join(tokens(n))
        lines["type"].append(f"type {n.context} {tk}")
        lines["size"].append(f"size {n.context} {tk}")
        lines["valid"].append(f"valid {n.context} {tk}")
        lines["bounds"].append(f"bounds {n.context} {tk}")
        lines["script"].append(f"script {n.context} {table(n)} {tk}")
        lines["str"].append(f"str {n.context} {tk}")
        if n.is_valid and n.script_size <= 1200:
            sc = n.script()
            kh = key_hashes(n)
            tb = ",".join(f"{h.hex()}:{k.hex()}" for h, k in sorted(kh.items())) or "-"
            lines["decode"].append(f"decode {n.context} {tb} {hx(sc)}")
            for _ in range(2):
                lines["decode"].append(f"decode {n.context} {tb} {hx(mutate_script(rng, sc))}")
        text = str(n)
        if n.script_size > 1200:
            # the model's `allTyped` re-types every subtree (cubic in the depth): deep chains are read back on the
            # real side only (oracle `text`) and written by both sides (stream `str`)
            ctx.count("parse.skipped", "deep")
            continue
        lines["parse"].append(f"parse {n.context} {hx(text.encode())}")
        for _ in range(2):
            lines["parse"].append(f"parse {n.context} {hx(mutate_text(rng, text).encode())}")
        lines["parse"].append(f"parse {n.context} {hx(number_text(rng, text).encode())}")
        lines["parse"].append(f"parse {n.context} {hx(ws_text(rng, text).encode())}")
    typed = {f"{op} {n.context} " + " ".join(tokens(n)) for n in nodes if n.properties for op in ("type", "size", "valid", "bounds")}
    for op, ls in lines.items():
        ctx.stream(op, ls, nontrivial=(lambda line, out: not out.startswith("err") and (line in typed or line.startswith("script"))))
    # the entry list the read-back theorem (decoder_machine_reads_back_partial) starts the machine on, `Decode.rents`,
    # against btclib's own `_decomposed(node.script())`, for every generated valid expression of the theorem's fragment
    # set (the model answers `-` outside it): the step from the compiled script to the entries is NOT proved
    rn = [n for n in nodes if n.is_valid and n.script_size <= 1200]
    outs = ctx.model(EXE, [f"rents {n.context} {table(n)} " + " ".join(tokens(n)) for n in rn]) or []
    for n, out in zip(rn, outs):
        if out == "ok -":
            ctx.count("rents", "outside the fragment set")
            continue
        real = "ok " + ",".join(f"{op:02x}:{hx(data)}" for op, data in M._decomposed(n.script()))
        ctx.count("rents", "compared")
        ctx.oracle("rents", out == real, f"rents {n.context} {n}: model {out[:200]} real {real[:200]}",
                   witness={"oracle": "rents", "witness": {"context": n.context, "tokens": " ".join(tokens(n))}})
    ctx.stream("pushnum", [f"pushnum {i}" for i in sorted({abs(v) % 2**31 for v in common.boundary_ints(rng)} |
                                                           {rng.randrange(2**31) for _ in range(ctx.n(300))} | set(range(0, 300)))])
    shape_lines = []
    for n in nodes[:ctx.n(400, 4000)]:
        tk = tokens(n)
        if len(tk) > 400:
            continue
        shape_lines.append(f"shape {n.context} " + " ".join(tk))
        for _ in range(2):
            shape_lines.append(f"shape {n.context} " + " ".join(ill_shaped(rng, tk, n.context)))
    for c in CTXS:
        kk = [hx(bytes.fromhex(k)[1:] if c == TAPSCRIPT else bytes.fromhex(k)) for k in keys]
        for cnt in (1, 20, 21, 25):
            name = "multi_a" if c == TAPSCRIPT else "multi"
            shape_lines.append(f"shape {c} {name} 1 {cnt} " + " ".join(kk[i % len(kk)] for i in range(cnt)))
    ctx.stream("shape", shape_lines, nontrivial=lambda line, out: out == "ok")
    # satisfactions: real signatures, the real engine, every availability assignment of small expressions
    spend_nodes = [n for n in nodes if n.is_valid_top_level and len(n.key_expressions) <= 6
                   and n.script_size < 700 and all(SP.key_index(written_key(n, k).hex()) is not None
                                                   for k in n.key_expressions)]
    rng.shuffle(spend_nodes)
    spend_nodes = quorums + [n for n in s1_nodes if n in spend_nodes][:ctx.n(60, 1200)] + spend_nodes
    produced = 0
    solver_left = ctx.n(500, 20000)
    sat_lines: list[str] = []
    sat_cap = ctx.n(1500, 60000)
    exec_lines = []
    exec_cap = ctx.n(2500, 60000)
    S1 = {"0", "1", "pk_k", "pk_h", "older", "after", "sha256", "hash256", "ripemd160", "hash160", "c:", "v:", "a:", "s:",
          "n:", "d:", "j:",
          "and_v", "and_b", "or_b", "or_c", "or_d", "or_i", "andor"}
    for n in spend_nodes[:ctx.n(150, 3000)]:
        text = str(n)
        frs = set(G.histogram(n))
        in_s1 = frs <= S1
        # the evaluator model runs every fragment and charges the keys of the EXECUTED OP_CHECKMULTISIGs only, as
        # btclib and Core do: nothing is left out of the stream
        in_exec = True
        for a in SP.all_avail(n, n.context, rng, limit=ctx.n(12, 40)):
            w = {"expr": text, "context": n.context, "avail": a}
            r = SP.spend_check(text, n.context, a)
            produced += bool(r.get("produced"))
            if len(sat_lines) < sat_cap:
                sm0 = SP._signatures(SP._prepare(text, n.context), n.context,
                                     SP._tx(a["locktime"], a["sequence"], a["version"]), a)
                used_d = {(f.fragment, f.data.hex()) for f in SP._tree_nodes(n) if f.fragment in HASHES}
                pre = ",".join(f"{h}:{d}:{SP.PREIMAGES[SP.DIGEST[h].index(d)].hex()}" for h, d in sorted(used_d)
                               if d in SP.DIGEST[h] and SP.DIGEST[h].index(d) in a["preimages"]) or "-"
                sg = ",".join(f"{k.hex()}:{v.hex()}" for k, v in sorted(sm0.items())) or "-"
                sat_lines.append(f"sat {n.context} {sg} {pre} {a['locktime']} {a['sequence']} {a['version']} "
                                 + " ".join(tokens(n)))
            if in_exec and len(exec_lines) < exec_cap:
                # the model's verdict (`accepts`: the semantics T3/T4 are proved against, plus the interpreter's
                # limits) against the real engine's, on the produced witness AND on witnesses the engine refuses
                sm = SP._signatures(SP._prepare(text, n.context), n.context,
                                    SP._tx(a["locktime"], a["sequence"], a["version"]), a)
                sigs = ",".join(f"{k.hex()}:{v.hex()}" for k, v in sorted(sm.items())) or "-"
                pool = [b"", b"\x01", b"\x02", bytes(32), b"\x00"] + list(sm.values())[:3] + \
                    [written_key(n, k) for k in n.key_expressions][:3] + [SP.PREIMAGES[0], SP.PREIMAGES[1]]
                base = [bytes.fromhex(e) for e in r["stack"]] if r.get("produced") else \
                    [rng.choice(pool) for _ in range(rng.randrange(0, (n.max_stack_items or 1) + 2))]
                cands = [base] + [mutate_witness(rng, base, pool) for _ in range(3)]
                for wst in cands:
                    wit = ",".join(hx(e) for e in wst) or "-"
                    exec_lines.append(f"exec {n.context} {sigs} {wit} {a['locktime']} {a['sequence']} {a['version']} "
                                      + " ".join(tokens(n)))
            ctx.count("spend", ("produced" if r.get("produced") else "refused:" + str(r.get("refusal")))
                      + ("/cond" if r.get("cond") else "/nocond") + ("/sane" if r.get("is_sane") else "/insane"))
            ok, detail = SP._judge(r) if hasattr(SP, "_judge") else SP.oracle_spend(w)
            ctx.oracle("spend", ok, detail, witness={"oracle": "spend", "witness": w}, nontrivial=bool(r.get("produced")))
            if n.context == P2WSH and solver_left > 0:
                solver_left -= 1
                ctx.check("solver", w, nontrivial=bool(r.get("produced")))
    # a multi() whose key count reads as a negative number: from_script indexes out of range (IndexError)
    for hexs in ("5101e4ae", "000188ae"):
        ctx.check("decoder_total", {"script": hexs, "context": P2WSH}, key="from_script.foreign_exception")
    for ln in lines["decode"][:ctx.n(600, 12000)]:
        t = ln.split(" ")
        ctx.check("decoder_total", {"script": "" if t[3] == "_" else t[3], "context": t[1]})
    # past the 201-op limit: and_v(v:pkh(K),…,pk(K)) nested 51 deep is typed and satisfiable but not
    # is_within_resource_limits (max_ops 205): the engine refuses the satisfaction (OP_COUNT), and so must the model
    kx = keys[0]
    for depth in (48, 49, 50, 51, 52):
        deep = f"pk({kx})"
        for _ in range(depth):
            deep = f"and_v(v:pkh({kx}),{deep})"
        dn = M.parse(deep, P2WSH)
        a = {"keys": [0], "preimages": [], "locktime": 0, "sequence": 0, "version": 2}
        r = SP.spend_check(deep, P2WSH, a)
        sm = SP._signatures(SP._prepare(deep, P2WSH), P2WSH, SP._tx(0, 0, 2), a)
        sigs = ",".join(f"{k.hex()}:{v.hex()}" for k, v in sorted(sm.items()))
        if r.get("produced"):
            exec_lines.append(f"exec P2WSH {sigs} " + ",".join(r["stack"]) + " 0 0 2 " + " ".join(tokens(dn)))
            ctx.count("exec.deep", f"max_ops={dn.max_ops} limits={dn.is_within_resource_limits} engine={r['engine_ok']}")
    # an OP_CHECKMULTISIG in a branch that is NOT taken charges nothing: or_i(multi(1, 20 keys), and_v chain) around
    # the 201-op limit, spent through either branch (static count 4d+5; +20 when the multi() runs)
    mk = ",".join(keys[1 + i % 15] for i in range(20))
    for depth in (44, 45, 46, 48, 49, 50):
        chain = f"pk({kx})"
        for _ in range(depth):
            chain = f"and_v(v:pkh({kx}),{chain})"
        expr = f"or_i(multi(1,{mk}),{chain})"
        dn = M.parse(expr, P2WSH)
        for ks_av in ([0], [1], [0, 1]):
            a = {"keys": ks_av, "preimages": [], "locktime": 0, "sequence": 0, "version": 2}
            r = SP.spend_check(expr, P2WSH, a)
            if not r.get("produced"):
                continue
            sm = SP._signatures(SP._prepare(expr, P2WSH), P2WSH, SP._tx(0, 0, 2), a)
            sigs = ",".join(f"{k.hex()}:{v.hex()}" for k, v in sorted(sm.items()))
            exec_lines.append(f"exec P2WSH {sigs} " + ",".join(hx(bytes.fromhex(e)) for e in r["stack"]) + " 0 0 2 "
                              + " ".join(tokens(dn)))
            ctx.count("exec.untaken_multi", f"static={r['static_ops']} branch={'multi' if r['stack'][-1] else 'chain'} "
                      f"engine={r['engine_ok']}")
    for ln in exec_lines:
        tk = set(ln.split(" ")[7:])
        ctx.count("exec.fragments", "with thresh/multi/multi_a" if tk & {"thresh", "multi", "multi_a"} else "no quorum fragment")
    ctx.stream("exec", exec_lines, nontrivial=lambda line, out: True)
    ctx.stream("sat", sat_lines, nontrivial=lambda line, out: out.startswith("ok"))
    # the bounds theorem (satisfy_within_bounds_partial) assumes the chosen candidate is canonical: how often is it?
    flags = ctx.model(EXE, ["satflags" + ln[3:] for ln in sat_lines]) or []
    for ln, out in zip(sat_lines, flags):
        if not out.startswith("err"):
            sane = from_tokens(ln.split(" ")[1], ln.split(" ")[7:]).is_sane
            ctx.count("sat.canonical", out.split(" ")[0] + ("/sane" if sane else "/insane"))
    # BIP68: an older() is met from transaction version 2 only.  Every P2WSH expression with an older() is finalized
    # (and satisfied) in a VERSION-1 transaction whose nSequence would meet it, every key and preimage available:
    # what comes back must be a refusal or a witness the engine accepts.
    v1 = 0
    fixed = ["and_v(v:pk({k0}),older(36))", "or_d(pk({k0}),and_v(v:pk({k1}),older(144)))",
             "andor(pk({k0}),older(4194305),pk({k1}))", "thresh(2,pk({k0}),s:pk({k1}),sln:older(50))"]
    v1_nodes = [M.parse(f.format(k0=keys[0], k1=keys[1]), P2WSH) for f in fixed]
    v1_nodes += [n for n in spend_nodes if n.context == P2WSH][:ctx.n(400, 8000)]
    for n in v1_nodes:
        olders = sorted({f.threshold for f in SP._tree_nodes(n) if f.fragment == "older"})
        if not olders:
            continue
        text = str(n)
        for seq in olders[:3]:
            for version in (1, 2):
                a = {"keys": list(range(SP.N_KEYS)), "preimages": list(range(SP.N_PRE)), "locktime": 0,
                     "sequence": seq, "version": version}
                w = {"expr": text, "context": P2WSH, "avail": a}
                ctx.check("solver", w)
                ctx.check("spend", w)
                v1 += version == 1
    ctx.count("solver", "version-1 with older()", v1)
    # A multi() in EVERY child position of every combinator, spent through every branch (every key subset): the
    # dynamic op cost of OP_CHECKMULTISIG (its key count, charged whether the quorum is met or dissatisfied) is the
    # one cost that differs between the branches of one combinator, so a bound that forgets it for one branch shows
    # only when that branch is the expensive one AND the one taken.  Executed op count (recorded inside the real
    # engine) against max_ops, on the real code alone.
    k = keys
    atoms = [lambda i: f"pk({k[i]})", lambda i: f"multi(1,{k[i]},{k[i + 1]})",
             lambda i: f"multi(2,{k[i]},{k[i + 1]},{k[i + 2]})", lambda i: f"multi(1,{k[i]},{k[i + 1]},{k[i + 2]})"]
    forms = []
    for fx in atoms:
        for fz in atoms:
            x, z = fx(0), fz(3)
            forms += [f"or_d({x},{z})", f"or_i({x},{z})", f"or_b({x},a:{z})", f"and_b({x},a:{z})",
                      f"and_v(v:{x},{z})", f"and_v(or_c({x},v:{z}),pk({k[6]}))"]
            for fy in atoms:
                y = fy(6)
                forms += [f"andor({x},{y},{z})", f"thresh(1,{x},a:{y},a:{z})", f"thresh(2,{x},a:{y},a:{z})"]
    rng.shuffle(forms)
    qpos = qrun = 0
    for text in forms[:ctx.n(90, len(forms))]:
        try:
            n = M.parse(text, P2WSH)
        except BTClibValueError:
            ctx.count("spend.quorum_positions", "not a valid expression")
            continue
        if not n.is_valid_top_level:
            ctx.count("spend.quorum_positions", "not valid at top level")
            continue
        qpos += 1
        for a in SP.all_avail(n, P2WSH, rng, limit=ctx.n(10, 64)):
            ctx.check("spend", {"expr": text, "context": P2WSH, "avail": a})
            qrun += 1
    ctx.count("spend.quorum_positions", "expressions", qpos)
    ctx.count("spend.quorum_positions", "spends judged", qrun)
    if INSANE_SIZER:
        ctx.count("solver", "sizer under-estimate on an insane expression (noted, not failed)", len(INSANE_SIZER))
        ctx.note("miniscript_sizer/max_witness_stack under-estimates the witness of an INSANE expression, e.g. "
                 + INSANE_SIZER[0])
        del INSANE_SIZER[:]
    ctx.note("T3 (Props.C15.type_soundness, stack_arity) covers every fragment, the quorums multi, multi_a, thresh included; "
             "T4: satisfy ⊆ Sat and acceptance (satisfaction_accepted_partial / satisfy_accepted_partial) cover every fragment, "
             "partial in the 201-op hypothesis (opsStaticOK: static count + keys of every multi() <= 201) and the "
             "1000-element hypothesis; the witness/stack bound soundness (satisfy_within_bounds_partial) covers thresh-free "
             "expressions (multi, multi_a included) with a canonical chosen candidate; the rest of T4 is checked on the real code: bounds tables by the "
             "`bounds` stream, actual spends by the `spend` oracle")
    ctx.note(f"spend oracle: {produced} satisfactions produced and run through the real engine (p2wsh and tapscript)")
    for n in nodes:
        w = {"context": n.context, "tokens": " ".join(tokens(n))}
        nt = bool(n.properties)
        ctx.check("size", w, nontrivial=nt)
        ctx.check("readback", w, nontrivial=n.is_valid_top_level)
        ctx.check("text", w, nontrivial=n.is_valid_top_level)
