"""C14 — descriptors and wallets derive what they describe and recognise only their own (DESIGN §3 C14).

Streams (model vs real btclib, same op lines): the BIP380 checksum functions (btclib / Lean model / Lean
transcription of the BIP's reference / a Python transcription of the reference here: four voices per line),
`_split_arguments`, `_split_function`, `_parse_key`, `parse` + `str` (AST and text), `at_index`, and the
find-first scans of `Descriptor.index_of`, `RangedWallet.position_of`, `DescriptorWallet.position_of` over script
tables taken from real descriptors and wallets.  Key atoms (is this an extended key / a point / a WIF / an
address) are btclib's own verdicts handed to the model as a table: the grammar around them is what is compared.
`musig()` and miniscript bodies are answered `unsupported` by the model and only checked by round-trip oracles.

Oracles (real code alone): T3 derivation against hand-assembly from `bip32.derive` + `script.serialize` +
hashlib (`harness/c14_hand.py`-style code below, importing nothing from btclib.descriptors or script_pub_key),
single-character corruption refusal, text round trips, at_index, multipath expansion, index_of / position_of
inverse and 'not mine', the four wallet kinds.
Text travels as comma separated code points (`_` empty); bytes as hex.
"""
from __future__ import annotations

import hashlib

from btclib import b32, b58, bip32
from btclib.bip32.bip32 import BIP32KeyData
from btclib.curves import mult, secp256k1
from btclib.descriptors import descriptors as D
from btclib.descriptors import key_expression as KE
from btclib.descriptors.miniscript import Miniscript
from btclib.exceptions import BTClibValueError
from btclib.network import NETWORKS
from btclib.script.script import serialize
from btclib.script.script_pub_key import ScriptPubKey
from btclib.to_pub_key import point_from_pub_key, pub_keyinfo_from_key
from btclib.wallet import BIP32KeyWallet, DescriptorWallet, KeyGroup, KeyWallet, ScriptWallet

from . import common

PROP = "C14"
EXE = "drv_c14"
GEN_MODULES = ["Descsum", "Descriptor"]
RULE = ("op lines and witnesses come from one seeded PRNG: descriptor strings built from a structure (function, "
        "nesting, key expressions with origin / path / wildcard / hardening spelling / WIF / xprv / x-only / "
        "uncompressed keys, trees) so that the expected scripts are assembled by hand from the same structure; "
        "malformed = single-character substitutions, bracket swaps, truncations, whitespace and digit spellings; "
        "a case is non-trivial when the implementation did not refuse it; distinct = distinct (stream, op line)")
TRUSTED = [
    "hand models Model/C14/{Descsum,Descriptor,Scan,Wallet,CoreImport}.lean tied by correspondence only",
    "Model/C14/Descsum.lean `Ref` is a hand transcription of the BIP380 reference python; harness/c14.py holds a "
    "second, verbatim copy of that reference for the implementation side",
    "key atoms (extended key / curve point / WIF / address validity) are an oracle of the descriptor grammar model: "
    "the driver is handed btclib's own verdicts (C06/C07/C01 own those)",
    "derivation (T3): Model/C14/Derive.lean on the C07 BIP32 model, the C12 taproot model, C06 addresses and the C15 "
    "miniscript compiler, executed with the shared secp256k1 / hash transcriptions and compared with btclib "
    "(desc.spk, wallet.model); independently the real code is compared with scripts hand-assembled from "
    "bip32.derive, script.serialize, hashlib and textbook point addition",
    "musig() aggregation and miniscripts over extended keys: round-trip / inverse oracles only",
    "normalized(): Model/C14/Normalize.lean (on C07's deriveB / neuter / serialize / fingerprint, C06's Base58Check) is "
    "tied to btclib by the stream desc.norm; that a RE-ROOTED key derives the same scripts is checked on the real code "
    "only (oracle normalized), the theorem normalized_same_scripts_partial covers the keys that are not re-rooted",
]
ASSUMPTIONS = [
    "spaces around path steps and key atoms, leading zeros of indexes and thresholds, uppercase hex, a trailing "
    "`/` after an origin fingerprint or a key are read leniently by btclib and normalised on writing; the model "
    "mirrors that reading",
    "T5: the counted wallet theorems are stated on Scan.scanE, where a position that cannot be derived RAISES "
    "(index past 65535 of an account wallet, a hardened step without the private key, an index past 2^31-1); the "
    "total-function variants (index_of_find_first, position_of_find_first, …) hold only for ranges that derive "
    "throughout and say so",
    "hypotheses carried by counted theorems: parse_miniscript_of_text — Miniscript.numsOK (every number written with "
    "at most ten digits, C15's digitsOK), shaped/allTyped/B/sane, raw compressed keys that are points, a text that "
    "does not begin with a descriptor function name; tr_output_commits_to_key_and_tree / tr_key_only_output — "
    "Lawful E.bip.o G (C01's statement), field below 2^256, 32-byte tagged hashes, tree depth <= 128, tweak in range, "
    "tweaked point not at infinity; *_position_of_own — every position scanned before the asked one derives a "
    "different script; normalized_same_scripts_partial — no key of the descriptor is re-rooted (Key.rerooted = false)",
]

IC = D.INPUT_CHARSET
NETS = list(NETWORKS)
H = 0x80000000


# ------------------------------------------------------------------ protocol helpers
def T(s: str) -> str:
    return ",".join(str(ord(c)) for c in s) if s else "_"


def unT(tok: str) -> str:
    return "" if tok == "_" else "".join(chr(int(x)) for x in tok.split(","))


def nums(v) -> str:
    v = list(v)
    return ",".join(str(int(x)) for x in v) if v else "_"


def hx(b: bytes) -> str:
    return bytes(b).hex() if b else "_"


def _err(e: BaseException) -> str:
    c = common.err_class(e)
    return "err " + (c if not c.startswith("foreign") else "foreign:" + type(e).__name__)


# ------------------------------------------------------------------ BIP380 reference, verbatim
REF_INPUT_CHARSET = "0123456789()[],'/*abcdefgh@:$%{}IJKLMNOPQRSTUVWXYZ&+-.;<=>?!^_|~ijklmnopqrstuvwxyzABCDEFGH`#\"\\ "
REF_CHECKSUM_CHARSET = "qpzry9x8gf2tvdw0s3jn54khce6mua7l"
REF_GENERATOR = [0xf5dee51989, 0xa9fdca3312, 0x1bab10e32d, 0x3706b1677a, 0x644d626ffd]


def descsum_polymod(symbols):
    chk = 1
    for value in symbols:
        top = chk >> 35
        chk = (chk & 0x7ffffffff) << 5 ^ value
        for i in range(5):
            chk ^= REF_GENERATOR[i] if ((top >> i) & 1) else 0
    return chk


def descsum_expand(s):
    groups = []
    symbols = []
    for c in s:
        if c not in REF_INPUT_CHARSET:
            return None
        v = REF_INPUT_CHARSET.find(c)
        symbols.append(v & 31)
        groups.append(v >> 5)
        if len(groups) == 3:
            symbols.append(groups[0] * 9 + groups[1] * 3 + groups[2])
            groups = []
    if len(groups) == 1:
        symbols.append(groups[0])
    elif len(groups) == 2:
        symbols.append(groups[0] * 3 + groups[1])
    return symbols


def descsum_check(s):
    if len(s) < 9 or s[-9] != "#":
        return False
    if not all(x in REF_CHECKSUM_CHARSET for x in s[-8:]):
        return False
    e = descsum_expand(s[:-9])
    if e is None:
        return False
    symbols = e + [REF_CHECKSUM_CHARSET.find(x) for x in s[-8:]]
    return descsum_polymod(symbols) == 1


def descsum_create(s):
    e = descsum_expand(s)
    if e is None:
        return None
    symbols = e + [0, 0, 0, 0, 0, 0, 0, 0]
    checksum = descsum_polymod(symbols) ^ 1
    return s + "#" + "".join(REF_CHECKSUM_CHARSET[(checksum >> (5 * (7 - i))) & 31] for i in range(8))


# ------------------------------------------------------------------ rendering of parsed objects (= driver's)
class Unsupported(Exception):
    pass


def r_key(k) -> str:
    if k.participants:
        raise Unsupported
    o = "-" if k.origin is None else f"{hx(k.origin.master_fingerprint)}/{nums(k.origin.der_path)}"
    if k.pub_key is not None:
        a = f"p:{hx(k.pub_key)}:{1 if k.x_only else 0}"
    else:
        a = f"x:{T(k.xkey)}"
    w = "-" if k.wildcard is None else ("0" if k.wildcard == 0 else "1" if k.wildcard == H else f"?{k.wildcard}")
    h = {"h": "h", "'": "a"}.get(k.hardening, "?" + k.hardening)
    return f"K[o={o};a={a};p={nums(k.der_path)};w={w};h={h}]"


def r_keys(ks) -> str:
    return "[" + " ".join(r_key(k) for k in ks) + "]"


def r_tree(t) -> str:
    if isinstance(t, tuple):
        return "{" + r_tree(t[0]) + "," + r_tree(t[1]) + "}"
    if isinstance(t, D.MultiA):
        return f"ma({t.threshold};{1 if t.sort else 0};{r_keys(t.keys)})"
    if isinstance(t, Miniscript):
        return r_ms(t)
    return f"pk({r_key(t)})"


_CUR_BODY = [""]   # the descriptor text being rendered (set by impl()): r_ms looks the keys up in it


def r_ms(node) -> str:
    """a miniscript is in C15's model when every key is a raw public key written in hex (C15's key grammar, which
    since its commit f3ce89e includes the spaces bytes.fromhex skips between bytes); WIF / extended keys are not."""
    body = _CUR_BODY[0].lower().replace(" ", "")
    for k in node.key_expressions:
        if k.participants or k.pub_key is None or k.origin is not None:
            raise Unsupported
        if k.pub_key.hex() not in body and k.pub_key[1:].hex() not in body:
            raise Unsupported
    return f"ms({T(str(node))})"


def r_desc(d) -> str:  # noqa: PLR0911
    if isinstance(d, D.PkDescriptor):
        return f"pk({r_key(d.key)})"
    if isinstance(d, D.PkhDescriptor):
        return f"pkh({r_key(d.key)})"
    if isinstance(d, D.WpkhDescriptor):
        return f"wpkh({r_key(d.key)})"
    if isinstance(d, D.ComboDescriptor):
        return f"combo({r_key(d.key)})"
    if isinstance(d, D.ShDescriptor):
        return f"sh({r_desc(d.inner)})"
    if isinstance(d, D.WshDescriptor):
        return f"wsh({r_desc(d.inner)})"
    if isinstance(d, D.MultiDescriptor):
        return f"multi({d.threshold};{1 if d.sort else 0};{r_keys(d.keys)})"
    if isinstance(d, D.TrDescriptor):
        return f"tr({r_key(d.internal_key)};{'-' if d.tree is None else r_tree(d.tree)})"
    if isinstance(d, D.RawTrDescriptor):
        return f"rawtr({r_key(d.key)})"
    if isinstance(d, D.AddrDescriptor):
        return f"addr({T(d.addr)})"
    if isinstance(d, D.RawDescriptor):
        return f"raw({hx(d.script)})"
    if isinstance(d, D.MiniscriptDescriptor):
        return r_ms(d.node)
    raise Unsupported


# ------------------------------------------------------------------ the key-atom table
_DELIMS = set("()[]{},/#")
_HEXD = set("0123456789abcdefABCDEF")


def atoms_for(text: str) -> str:
    """btclib's own verdicts on every maximal delimiter-free run of the text (and on the argument of a top level
    addr()): what `KeyOracle` answers in the driver."""
    body = text.partition("#")[0]
    runs, cur = set(), ""
    for ch in body:
        if ch in _DELIMS:
            if cur:
                runs.add(cur)
            cur = ""
        else:
            cur += ch
    if cur:
        runs.add(cur)
    out = []
    seen_p = set()

    def add_point(sec: bytes):
        if sec in seen_p:
            return
        seen_p.add(sec)
        try:
            point_from_pub_key(sec)
            out.append(f"p:{hx(sec)}")
        except Exception:  # noqa: BLE001
            pass
    for r in sorted(runs):
        if KE._is_extended_key(r):
            out.append(f"x:{T(r)}:{T(KE._neutered(r, {}))}")
            continue
        if r and all(c in _HEXD for c in r):
            if len(r) == 64:
                add_point(b"\x02" + bytes.fromhex(r))
            elif len(r) in (66, 130):
                add_point(bytes.fromhex(r))
            continue
        try:
            sec = pub_keyinfo_from_key(r)[0]
            out.append(f"w:{T(r)}:{hx(sec)}")
            add_point(sec)      # hex with spaces inside reaches here: the point it names is a point
        except (TypeError, ValueError):
            pass
    if body.startswith("addr(") and body.endswith(")"):
        a = body[5:-1]
        try:
            ScriptPubKey.from_address(a)
            out.append(f"a:{T(a)}")
        except Exception:  # noqa: BLE001
            pass
    return ";".join(out) if out else "_"


# ------------------------------------------------------------------ implementation side
_polymod = getattr(D, "__descsum_polymod")
_expand = getattr(D, "__descsum_expand")


def _scan_tokens(rows_tok):
    return [[] if r == "-" else [int(x) for x in r.split(",")] for r in rows_tok.split(";")]


_WALLET_CTX_OPS = {"addr", "scan.posE", "w.bip32", "w.bip32.pos", "w.key", "w.script", "w.script.pos", "w.desc.pos",
                   "w.desc.map", "w.desc.mapspk", "core.watched", "core.imported", "core.widen", "core.request",
                   "core.comparable"}
_SCAN_CTX: dict = {}   # op line -> precomputed implementation answer (scan ops are answered from real objects)


def impl(line: str) -> str:  # noqa: PLR0911, PLR0912
    t = line.split(" ")
    op = t[0]
    try:
        if op == "polymod":
            v = [] if t[1] == "_" else [int(x) for x in t[1].split(",")]
            return f"ok {_polymod(v)} {descsum_polymod(v)}"
        if op == "expand":
            s = unT(t[1])
            try:
                a = "ok " + nums(_expand(s))
            except Exception as e:  # noqa: BLE001
                a = _err(e)
            r = descsum_expand(s)
            return f"{a} | ref {'none' if r is None else nums(r)}"
        if op == "csum":
            s = unT(t[1])
            try:
                a = "ok " + T(D.checksum(s))
            except Exception as e:  # noqa: BLE001
                a = _err(e)
            r = descsum_create(s)
            return f"{a} | ref {'none' if r is None else T(r)}"
        if op == "strip":
            s = unT(t[1])
            try:
                a = "ok " + T(D.strip_checksum(s))
            except Exception as e:  # noqa: BLE001
                a = _err(e)
            return f"{a} | ref {descsum_check(s)}"
        if op == "add":
            return "ok " + T(D.add_checksum(unT(t[1])))
        if op == "split":
            return "ok " + ";".join(T(x) for x in KE._split_arguments(unT(t[1])))
        if op == "splitfn":
            n, a = KE._split_function(unT(t[1]))
            return f"ok {T(n)} {T(a)}"
        if op == "key":
            k = KE._parse_key(unT(t[5]), {}, x_only=t[2] == "1", compressed=t[3] == "1", musig_allowed=t[4] == "1")
            try:
                return f"ok {r_key(k)} | {T(str(k))}"
            except Unsupported:
                return "unsupported"
        if op == "musig":
            k = KE._parse_musig(unT(t[2]), {})
            w = 0 if k.wildcard is None else 1
            return f"ok M[{r_keys(k.participants)};p={nums(k.der_path)};w={w}] | {T(str(k))}"
        if op == "parse":
            _CUR_BODY[0] = unT(t[2])
            d = D.parse(unT(t[2]))
            try:
                return f"ok {r_desc(d)} | {T(str(d))}"
            except Unsupported:
                return "unsupported"
        if op == "atindex":
            _CUR_BODY[0] = unT(t[2])
            d = D.parse(unT(t[2]))
            try:
                r_desc(d)
            except Unsupported:
                return "unsupported"
            return f"ok {T(str(D.at_index(d, int(t[3]))))} {1 if d.is_ranged else 0}"
        if op == "desc.norm":
            prv = None if t[2] == "_" else {unT(a): unT(b) for a, b in (e.split("=") for e in t[2].split(";"))}
            _CUR_BODY[0] = unT(t[3])
            d = D.parse(unT(t[3]), t[4])
            try:
                r_desc(d)
            except Unsupported:
                return "unsupported"
            n = D.normalized(d, prv)
            rer = any(_rerooted(k) for k in d.key_expressions)
            return f"ok {T(str(n))} {1 if rer else 0} {1 if D.normalized(n, None) == n else 0}"
        if op == "desc.spk":
            prv = None if t[2] == "_" else {unT(a): unT(b) for a, b in (e.split("=") for e in t[2].split(";"))}
            net = t[5]
            _CUR_BODY[0] = unT(t[3])
            d = D.parse(unT(t[3]), net)
            try:
                r_desc(d)
            except Unsupported:
                return "unsupported"
            sp = d.script_pub_keys(int(t[4]), prv)
            addrs = []
            for x in sp:
                try:
                    a = x.address
                    addrs.append(T(a) if a else "-")
                except Exception:  # noqa: BLE001
                    addrs.append("!")
            return "ok " + ";".join(hx(x.script) for x in sp) + " | " + ";".join(addrs)
        if op in _WALLET_CTX_OPS:
            return _SCAN_CTX[line]
        if op == "multipath":
            return "ok " + ";".join(T(x) for x in D.multipath_descriptors(unT(t[1])))
        if op.startswith("scan."):
            return _SCAN_CTX[line]
    except Exception as e:  # noqa: BLE001
        return _err(e)
    return "bad-op"


def stream(ctx, name, lines, key=None):
    """ctx.stream, except that a model answer `unsupported` (musig / miniscript body) is compared as: the
    implementation either refused or built an object holding a musig()/miniscript."""
    cases = [(ln, impl(ln)) for ln in lines]
    outs = ctx.model(EXE, [c[0] for c in cases])
    st = ctx.streams.setdefault(name, {"cases": 0, "mismatches": 0, "model": EXE, "unsupported": 0})
    st["cases"] += len(cases)
    for i, (line, im) in enumerate(cases):
        ctx.seen(name, line, not im.startswith("err"))
        ctx.count(name, im.split(" ")[0] + ("" if not im.startswith("err") else " " + im.split(" ")[1]))
        if outs is None:
            continue
        ctx.traces += 1
        mo = outs[i]
        if mo == "unsupported" and im in ("unsupported", "err value"):
            st["unsupported"] += 1
            continue
        if mo != im:
            st["mismatches"] += 1
            ctx.fail("correspondence", name, f"model and implementation differ on `{line[:300]}`",
                     key=key or name, op_line=line, impl=im[:2000], model=mo[:2000])
    if cases:
        ctx.sample({"stream": name, "op": cases[0][0][:300], "impl": cases[0][1][:300],
                    "model": (outs[0][:300] if outs else None)})
    if outs is None:
        st["model"] = None
    return outs


# ------------------------------------------------------------------ hand assembly (no descriptors, no script_pub_key)
def h160(b: bytes) -> bytes:
    return hashlib.new("ripemd160", hashlib.sha256(b).digest()).digest()


def tagged(tag: str, m: bytes) -> bytes:
    t = hashlib.sha256(tag.encode()).digest()
    return hashlib.sha256(t + t + m).digest()


def compact(n: int) -> bytes:
    if n < 0xFD:
        return bytes([n])
    if n <= 0xFFFF:
        return b"\xfd" + n.to_bytes(2, "little")
    return b"\xfe" + n.to_bytes(4, "little")


def lift_x(x: int):
    p = secp256k1.p
    y2 = (pow(x, 3, p) + 7) % p
    y = pow(y2, (p + 1) // 4, p)
    if y * y % p != y2:
        raise ValueError("not an x coordinate")
    return (x, y if y % 2 == 0 else p - y)


def tap_output_x(internal_x: bytes, merkle_root: bytes | None) -> bytes:
    P = lift_x(int.from_bytes(internal_x, "big"))
    t = int.from_bytes(tagged("TapTweak", internal_x + (merkle_root or b"")), "big")
    if t >= secp256k1.n:
        raise ValueError("tweak out of range")
    Q = _aff_add(P, mult(t))
    return Q[0].to_bytes(32, "big")


def _aff_add(P, Q):
    """textbook affine addition on y^2 = x^3 + 7 (distinct, non-opposite points or doubling)."""
    p = secp256k1.p
    if P[0] == Q[0] and (P[1] + Q[1]) % p == 0:
        raise ValueError("point at infinity")
    if P == Q:
        lam = 3 * P[0] * P[0] * pow(2 * P[1], -1, p) % p
    else:
        lam = (Q[1] - P[1]) * pow(Q[0] - P[0], -1, p) % p
    x = (lam * lam - P[0] - Q[0]) % p
    return (x, (lam * (P[0] - x) - P[1]) % p)


def _aff_mult(k: int, P):
    """double-and-add over `_aff_add` (None is the point at infinity)."""
    acc, add = None, P
    while k:
        if k & 1:
            acc = add if acc is None else _aff_add(acc, add)
        add = _aff_add(add, add)
        k >>= 1
    return acc


def _point_of_sec(sec: bytes):
    x = int.from_bytes(sec[1:33], "big")
    P = lift_x(x)
    return P if (sec[0] == 2) else (P[0], secp256k1.p - P[1])


def hand_key_agg(pks: list[bytes]) -> bytes:
    """BIP327 KeyAgg written from the BIP: coefficient 1 for the second distinct key, the tagged hash for every
    other one (a single key included), the sum of the coefficient multiples; compressed."""
    L = tagged("KeyAgg list", b"".join(pks))
    second = next((pk for pk in pks if pk != pks[0]), b"\x00" * 33)
    Q = None
    for pk in pks:
        a = 1 if pk == second else int.from_bytes(tagged("KeyAgg coefficient", L + pk), "big") % secp256k1.n
        Tm = _aff_mult(a, _point_of_sec(pk))
        Q = Tm if Q is None else _aff_add(Q, Tm)
    return bytes([2 + (Q[1] & 1)]) + Q[0].to_bytes(32, "big")


BIP328_CHAIN = bytes.fromhex("868087ca02a6f974c4598924c36b57762d32cb45717167e300622c7167e38965")


class MusigSpec:
    """a musig() key expression as the generator knows it: participants, aggregate path, aggregate wildcard."""

    kind = "musig"
    private = False
    needs_prv = False
    origin = None
    xonly = False

    def __init__(self, parts, path=(), wildcard=None, network="mainnet"):
        self.parts, self.path, self.wildcard, self.network = parts, tuple(path), wildcard, network
        self.text = "musig(" + ",".join(p.text for p in parts) + ")" + "".join(f"/{i}" for i in path) + \
            ("/*" if wildcard is not None else "")

    @property
    def ranged(self):
        return self.wildcard is not None or any(p.ranged for p in self.parts)

    def derive(self, index: int) -> bytes:
        agg = hand_key_agg(sorted(p.derive(index) for p in self.parts))   # BIP390: KeySort after derivation
        path = list(self.path) + ([index] if self.wildcard is not None else [])
        if not path:
            return agg
        synth = BIP32KeyData(version=NETWORKS[self.network].bip32_pub, depth=0, parent_fingerprint=bytes(4), index=0,
                             chain_code=BIP328_CHAIN, key=agg)
        return BIP32KeyData.b58decode(bip32.derive(synth.b58encode(), path)).key


def op_n(n: int):
    return f"OP_{n}"


class KeySpec:
    """one key expression, as the generator knows it."""

    def __init__(self, kind, text, sec=None, xprv=None, xpub=None, path=(), wildcard=None, origin=None,
                 hard="h", xonly=False, private=False):
        self.kind = kind          # "hex" | "wif" | "x"
        self.text = text          # as written
        self.sec = sec            # fixed key: SEC bytes
        self.xprv, self.xpub = xprv, xpub
        self.path, self.wildcard = tuple(path), wildcard
        self.origin, self.hard, self.xonly, self.private = origin, hard, xonly, private

    @property
    def ranged(self):
        return self.wildcard is not None

    @property
    def needs_prv(self):
        return self.kind == "x" and (any(i >= H for i in self.path) or self.wildcard == H)

    def derive(self, index: int) -> bytes:
        """SEC bytes at index, from bip32.derive alone."""
        if self.kind != "x":
            return self.sec
        path = list(self.path) + ([self.wildcard + index] if self.wildcard is not None else [])
        root = self.xprv if (self.xprv and any(i >= H for i in path)) else self.xpub
        if not path:
            k = root
        else:
            k = bip32.derive(root, path)
        kd = BIP32KeyData.b58decode(k)
        if kd.key[0] == 0:
            kd = BIP32KeyData.b58decode(bip32.xpub_from_xprv(k))
        return kd.key


def hand_scripts(spec, index: int, network: str) -> list[bytes]:  # noqa: PLR0911, PLR0912
    """the scripts a descriptor structure describes at `index`, assembled by hand."""
    f = spec[0]
    if f == "pk":
        return [serialize([spec[1].derive(index), "OP_CHECKSIG"])]
    if f == "pkh":
        return [serialize(["OP_DUP", "OP_HASH160", h160(spec[1].derive(index)), "OP_EQUALVERIFY", "OP_CHECKSIG"])]
    if f == "wpkh":
        return [serialize(["OP_0", h160(spec[1].derive(index))])]
    if f == "combo":
        k = spec[1].derive(index)
        out = [serialize([k, "OP_CHECKSIG"]),
               serialize(["OP_DUP", "OP_HASH160", h160(k), "OP_EQUALVERIFY", "OP_CHECKSIG"])]
        if len(k) == 33:
            w = serialize(["OP_0", h160(k)])
            out += [w, serialize(["OP_HASH160", h160(w), "OP_EQUAL"])]
        return out
    if f == "sh":
        (inner,) = hand_scripts(spec[1], index, network)
        return [serialize(["OP_HASH160", h160(inner), "OP_EQUAL"])]
    if f == "wsh":
        (inner,) = hand_scripts(spec[1], index, network)
        return [serialize(["OP_0", hashlib.sha256(inner).digest()])]
    if f in ("multi", "sortedmulti"):
        keys = [k.derive(index) for k in spec[2]]
        if f == "sortedmulti":
            keys = sorted(keys)
        return [serialize([op_n(spec[1]), *keys, op_n(len(keys)), "OP_CHECKMULTISIG"])]
    if f == "rawtr":
        return [serialize(["OP_1", spec[1].derive(index)[1:]])]
    if f == "tr":
        x = spec[1].derive(index)[1:]
        root = None if spec[2] is None else hand_tree(spec[2], index)
        return [serialize(["OP_1", tap_output_x(x, root)])]
    if f == "raw":
        return [spec[1]]
    if f == "addr":
        return [spec[2]]
    raise ValueError(f)


def hand_leaf_script(leaf, index: int) -> bytes:
    if leaf[0] == "pk":
        return serialize([leaf[1].derive(index)[1:], "OP_CHECKSIG"])
    keys = [k.derive(index)[1:] for k in leaf[2]]
    if leaf[0] == "sortedmulti_a":
        keys = sorted(keys)
    cmds = [keys[0], "OP_CHECKSIG"]
    for k in keys[1:]:
        cmds += [k, "OP_CHECKSIGADD"]
    thr = leaf[1]
    cmds += [op_n(thr) if thr <= 16 else thr, "OP_NUMEQUAL"]
    return serialize(cmds)


def hand_tree(tree, index: int) -> bytes:
    if tree[0] == "branch":
        a, b = hand_tree(tree[1], index), hand_tree(tree[2], index)
        return tagged("TapBranch", min(a, b) + max(a, b))
    s = hand_leaf_script(tree, index)
    return tagged("TapLeaf", b"\xc0" + compact(len(s)) + s)


def spec_text(spec) -> str:
    f = spec[0]
    if f in ("pk", "pkh", "wpkh", "combo", "rawtr"):
        return f"{f}({spec[1].text})"
    if f in ("sh", "wsh"):
        return f"{f}({spec_text(spec[1])})"
    if f in ("multi", "sortedmulti"):
        return f"{f}({spec[1]}," + ",".join(k.text for k in spec[2]) + ")"
    if f == "tr":
        return f"tr({spec[1].text})" if spec[2] is None else f"tr({spec[1].text},{tree_text(spec[2])})"
    if f == "raw":
        return f"raw({spec[1].hex()})"
    if f == "addr":
        return f"addr({spec[1]})"
    raise ValueError(f)


def tree_text(t) -> str:
    if t[0] == "branch":
        return "{" + tree_text(t[1]) + "," + tree_text(t[2]) + "}"
    if t[0] == "pk":
        return f"pk({t[1].text})"
    return f"{t[0]}({t[1]}," + ",".join(k.text for k in t[2]) + ")"


def spec_keys(spec):
    f = spec[0]
    if f in ("pk", "pkh", "wpkh", "combo", "rawtr"):
        return [spec[1]]
    if f in ("sh", "wsh"):
        return spec_keys(spec[1])
    if f in ("multi", "sortedmulti"):
        return list(spec[2])
    if f == "tr":
        return [spec[1]] + ([] if spec[2] is None else tree_keys(spec[2]))
    return []


def tree_keys(t):
    if t[0] == "branch":
        return tree_keys(t[1]) + tree_keys(t[2])
    if t[0] == "pk":
        return [t[1]]
    return list(t[2])


# ------------------------------------------------------------------ generators
class Gen:
    def __init__(self, rng, network):
        self.rng = rng
        self.network = network
        self.main = network == "mainnet"
        self.roots = []
        for _ in range(3):
            seed = common.rand_bytes(rng, 32)
            xprv = bip32.rootxprv_from_seed(seed, NETWORKS[network].bip32_prv)
            self.roots.append((xprv, bip32.xpub_from_xprv(xprv)))

    def idx(self, hardened_ok=True):
        r = self.rng
        v = r.choice([0, 1, 2, 44, 84, 1000, H - 2, H - 1, r.randrange(H)])
        if hardened_ok and r.random() < 0.3:
            v += H
        return v

    def step_text(self, i, hard, sloppy):
        s = str(i) if i < H else str(i - H) + hard
        if sloppy and self.rng.random() < 0.3:
            s = self.rng.choice([" " + s, s + " ", "0" + s])
        return s

    def fixed_key(self, *, xonly_ok, uncompressed_ok, canonical):
        r = self.rng
        q = 1 + r.randrange(secp256k1.n - 1)
        P = mult(q)
        comp = bytes([2 + (P[1] & 1)]) + P[0].to_bytes(32, "big")
        form = r.choice(["hex", "hex", "wif"] + (["xonly"] if xonly_ok else []) + (["unc"] if uncompressed_ok else []))
        if canonical and form == "wif":
            form = "hex"
        if form == "xonly":
            return KeySpec("hex", comp[1:].hex(), sec=b"\x02" + comp[1:], xonly=True)
        if form == "unc":
            sec = b"\x04" + P[0].to_bytes(32, "big") + P[1].to_bytes(32, "big")
            return KeySpec("hex", sec.hex(), sec=sec)
        if form == "wif":
            wif = b58.wif_from_prv_key(q, self.network, True)
            # a WIF where only x-only keys are written is echoed in 32 bytes; the point is the same
            return KeySpec("wif", wif, sec=comp, private=True)
        text = comp.hex()
        if not canonical and r.random() < 0.2:
            text = text.upper()
        return KeySpec("hex", text, sec=comp)

    def xkey(self, *, allow_hardened, canonical, ranged=None):
        r = self.rng
        xprv, xpub = r.choice(self.roots)
        # an account-ish prefix already derived, so that the key written is not always a master key
        if r.random() < 0.5:
            pre = [r.choice([44, 49, 84, 86]) + H, (0 if self.main else 1) + H, r.randrange(3) + H]
            xprv = bip32.derive(xprv, pre)
            xpub = bip32.xpub_from_xprv(xprv)
        hard = r.choice(["h", "'"])
        n = r.choice([0, 1, 2, 2, 3])
        path = [self.idx(allow_hardened) for _ in range(n)]
        if ranged is None:
            ranged = r.random() < 0.7
        wildcard = None
        if ranged:
            wildcard = H if (allow_hardened and r.random() < 0.25) else 0
        private = allow_hardened and (any(i >= H for i in path) or wildcard == H or r.random() < 0.15)
        sloppy = not canonical
        text = xprv if private else xpub
        for i in path:
            text += "/" + self.step_text(i, hard, sloppy)
        if wildcard is not None:
            text += "/*" + (hard if wildcard else "")
        return KeySpec("x", text, xprv=xprv, xpub=xpub, path=path, wildcard=wildcard, hard=hard, private=private)

    def key(self, *, xonly_ok=False, uncompressed_ok=False, canonical=False, allow_hardened=True, ranged=None):
        r = self.rng
        if ranged is True or r.random() < 0.6:
            k = self.xkey(allow_hardened=allow_hardened, canonical=canonical, ranged=ranged)
        else:
            k = self.fixed_key(xonly_ok=xonly_ok, uncompressed_ok=uncompressed_ok, canonical=canonical)
        if r.random() < 0.4:
            fp = common.rand_bytes(r, 4).hex()
            if not canonical and r.random() < 0.2:
                fp = fp.upper()
            n = r.choice([0, 1, 3])
            opath = [self.idx(True) for _ in range(n)]
            # the symbol written back is the LAST one the expression used: keep one symbol per expression
            # in canonical mode, mix them otherwise
            ohard = k.hard if canonical or r.random() < 0.6 else r.choice(["h", "'"])
            otext = fp + "".join("/" + self.step_text(i, ohard, not canonical) for i in opath)
            k.text = f"[{otext}]" + k.text
            k.origin = (bytes.fromhex(fp), opath)
        return k

    def leaf(self, canonical):
        r = self.rng
        c = r.random()
        if c < 0.5:
            return ("pk", self.key(xonly_ok=True, canonical=canonical))
        n = r.choice([1, 2, 3, 5])
        keys = [self.key(xonly_ok=True, canonical=canonical) for _ in range(n)]
        return (r.choice(["multi_a", "sortedmulti_a"]), r.randint(1, n), keys)

    def tree(self, depth, canonical):
        if depth > 0 and self.rng.random() < 0.55:
            return ("branch", self.tree(depth - 1, canonical), self.tree(depth - 1, canonical))
        return self.leaf(canonical)

    def multi(self, ctx, canonical):
        r = self.rng
        n = r.choice([1, 2, 3, 3, 5, 15])
        if ctx == "sh":
            n = min(n, 5)
        keys = [self.key(uncompressed_ok=(ctx in ("top", "sh")) and r.random() < 0.1, canonical=canonical)
                for _ in range(n)]
        return (r.choice(["multi", "sortedmulti"]), r.randint(1, n), keys)

    def script_expr(self, ctx, canonical):
        r = self.rng
        if ctx == "top":
            f = r.choice(["pk", "pkh", "wpkh", "combo", "sh", "sh", "wsh", "wsh", "multi", "multi", "tr", "tr", "tr",
                          "rawtr", "addr", "raw"])
        elif ctx == "sh":
            f = r.choice(["pk", "pkh", "wpkh", "wsh", "wsh", "multi"])
        else:
            f = r.choice(["pk", "pkh", "multi", "multi"])
        unc = ctx in ("top", "sh")
        if f in ("pk", "pkh"):
            return (f, self.key(uncompressed_ok=unc, canonical=canonical))
        if f == "wpkh":
            return (f, self.key(canonical=canonical))
        if f == "combo":
            return (f, self.key(uncompressed_ok=True, canonical=canonical))
        if f == "sh":
            return ("sh", self.script_expr("sh", canonical))
        if f == "wsh":
            return ("wsh", self.script_expr("wsh", canonical))
        if f == "multi":
            return self.multi(ctx, canonical)
        if f == "rawtr":
            return ("rawtr", self.key(xonly_ok=True, canonical=canonical))
        if f == "tr":
            tree = None if r.random() < 0.4 else self.tree(r.choice([0, 1, 2, 3]), canonical)
            return ("tr", self.key(xonly_ok=True, canonical=canonical), tree)
        if f == "raw":
            return ("raw", common.rand_bytes(r, r.choice([0, 1, 5, 25, 40])))
        return self.addr()

    def addr(self):
        r = self.rng
        k = r.choice(["p2wpkh", "p2wsh", "p2tr", "p2pkh", "p2sh"])
        hrp = NETWORKS[self.network].hrp
        if k == "p2wpkh":
            prog = common.rand_bytes(r, 20)
            return ("addr", b32.address_from_witness(0, prog, self.network), serialize(["OP_0", prog]))
        if k == "p2wsh":
            prog = common.rand_bytes(r, 32)
            return ("addr", b32.address_from_witness(0, prog, self.network), serialize(["OP_0", prog]))
        if k == "p2tr":
            prog = common.rand_bytes(r, 32)
            return ("addr", b32.address_from_witness(1, prog, self.network), serialize(["OP_1", prog]))
        h = common.rand_bytes(r, 20)
        del hrp
        if k == "p2pkh":
            return ("addr", b58.address_from_h160("p2pkh", h, self.network),
                    serialize(["OP_DUP", "OP_HASH160", h, "OP_EQUALVERIFY", "OP_CHECKSIG"]))
        return ("addr", b58.address_from_h160("p2sh", h, self.network), serialize(["OP_HASH160", h, "OP_EQUAL"]))


def prv_keys_of(spec):
    """the mapping `parse` would hand back: xpub -> xprv for every extended key the generator holds privately."""
    return {k.xpub: k.xprv for k in spec_keys(spec) if k.kind == "x"}


def indexes_for(rng, ranged):
    if not ranged:
        return [0]
    return [0, 1, 2, H - 2, H - 1, rng.randrange(H)]


# ------------------------------------------------------------------ property oracles (real code only)
def _parse(text, network="mainnet", prv=None):
    return D.parse(text, network, prv)


def _o_derive(w):
    """T3: the scripts at an index are those assembled by hand from bip32.derive + script.serialize."""
    prv = w.get("prv") or None
    try:
        d = _parse(w["text"], w["network"], {})
    except Exception as e:  # noqa: BLE001
        return False, f"parse refused a generated descriptor: {type(e).__name__}: {e}"
    try:
        got = [s.script.hex() for s in d.script_pub_keys(w["index"], prv)]
    except Exception as e:  # noqa: BLE001
        if w["expect"] is None:
            return common.err_class(e) == "value", f"refused as expected: {type(e).__name__}"
        return False, f"script_pub_keys({w['index']}) raised {type(e).__name__}: {e}"
    if w["expect"] is None:
        return False, f"index {w['index']} answered {got} where a refusal was expected"
    ok = got == w["expect"]
    if ok and len(got) == 1:
        ok = d.script_pub_key(w["index"], prv).script.hex() == got[0] and d.network == w["network"] or \
            w["text"].startswith("addr(")
    return ok, f"derived {got} expected {w['expect']}"


def _o_corrupt(w):
    """every listed single-character corruption of a checksummed descriptor is refused with BTClibValueError."""
    s = w["s"]
    n = 0
    for pos, repl in w["edits"]:
        for c in repl:
            if c == s[pos]:
                continue
            t = s[:pos] + c + s[pos + 1:]
            n += 1
            try:
                D.parse(t, w.get("network", "mainnet"))
            except BTClibValueError:
                continue
            except Exception as e:  # noqa: BLE001
                return False, f"corruption at {pos} -> {c!r} raised {type(e).__name__} (not a BTClibValueError)"
            return False, f"corruption at {pos} -> {c!r} of {s!r} was accepted"
    return True, f"{n} corruptions refused"


def _o_roundtrip(w):
    """text -> parse -> text -> parse: the second parse equals the first, writing is idempotent, the
    checksummed writing parses to the same descriptor; a canonical text is written back unchanged."""
    try:
        d = _parse(w["text"], w["network"], {})
    except Exception as e:  # noqa: BLE001
        return (not w.get("valid", True)) and common.err_class(e) == "value", f"refused: {type(e).__name__}: {e}"
    s1 = str(d)
    try:
        d2 = _parse(s1, w["network"], {})
        d3 = _parse(D.add_checksum(s1), w["network"], {})
    except Exception as e:  # noqa: BLE001
        return False, f"str(parse(s)) = {s1!r} does not parse: {type(e).__name__}: {e}"
    if d2 != d or d3 != d:
        return False, f"parse(str(d)) != d for {w['text']!r} (written {s1!r})"
    if str(d2) != s1:
        return False, f"writing is not idempotent: {s1!r} then {str(d2)!r}"
    if w.get("canonical") and s1 != w["text"].partition("#")[0]:
        return False, f"canonical text {w['text']!r} written back as {s1!r}"
    return True, "round trip"


def _o_atindex(w):
    """at_index(d, i) is not ranged, describes at index 0 what d describes at i, and is written with the index."""
    prv = w.get("prv") or None
    d = _parse(w["text"], w["network"], {})
    i = w["index"]
    a = D.at_index(d, i)
    if a.is_ranged:
        return False, "at_index left a wildcard"
    try:
        x = [s.script for s in d.script_pub_keys(i, prv)]
    except BTClibValueError:
        return True, "not derivable without the private key"
    y = [s.script for s in a.script_pub_keys(0, prv)]
    a2 = _parse(str(a), w["network"], {})
    return x == y and a2 == a, f"at_index scripts equal={x == y} reparse equal={a2 == a}"


def _rerooted(k) -> bool:
    """the keys `_normalized_key` re-roots: extended, not `/*h`, with a hardened step in the path."""
    return k.pub_key is None and not k.participants and k.wildcard != H and any(i >= H for i in k.der_path)


def _o_normalized(w):
    """normalized(d, prv): refused exactly when a key to re-root has no private key at hand; the answer is written
    with `h` only, parses back to itself, is a fixed point of normalized(), leaves no hardened step in the path of a
    key without the `/*h` wildcard, keeps origin path + path of every key, and describes at every index the scripts d
    describes - with NO private key when no `/*h` wildcard is left."""
    prv = w.get("prv") or None
    d = _parse(w["text"], w["network"], {})
    keys = d.key_expressions
    need = any(_rerooted(k) and not (prv and k.xkey in prv) for k in keys)
    try:
        n = D.normalized(d, prv)
    except BTClibValueError as e:
        return need, f"refused ({e}); a key to re-root lacks its private key: {need}"
    if need:
        return False, "normalized answered although a hardened step had no private key"
    text = str(n)
    if "'" in text:
        return False, f"apostrophe left in {text}"
    if _parse(text, w["network"], {}) != n or D.normalized(n, None) != n:
        return False, f"not a fixed point / does not parse back: {text}"
    for a, b in zip(keys, n.key_expressions):
        if _rerooted(b) or a.wildcard != b.wildcard:
            return False, f"hardened step left in {b}"
        full_a = list(a.origin.der_path if a.origin is not None else []) + list(a.der_path)
        full_b = list(b.origin.der_path if b.origin is not None else []) + list(b.der_path)
        if full_a != full_b:
            return False, f"written derivation changed: {full_a} -> {full_b}"
        if _rerooted(a) and a.origin is not None and len(a.origin) and \
                b.origin.master_fingerprint != a.origin.master_fingerprint:
            return False, "master fingerprint of a written origin replaced"
    star_h = any(k.wildcard == H for k in n.key_expressions if not k.participants)
    for i in w["indexes"]:
        try:
            x = [s_.script for s_ in d.script_pub_keys(i, prv)]
        except BTClibValueError:
            continue
        y = [s_.script for s_ in n.script_pub_keys(i, prv if star_h else None)]
        if x != y:
            return False, f"index {i}: normalized describes {[b.hex() for b in y]}, the descriptor {[b.hex() for b in x]}"
    return True, f"normalized {text}"


def _o_multipath(w):
    """multipath_descriptors(text) is the list of checksummed single-path texts the generator built by choosing
    the j-th alternative everywhere; each parses and derives what the hand assembly of alternative j gives."""
    try:
        got = D.multipath_descriptors(w["text"])
    except Exception as e:  # noqa: BLE001
        return w["expect"] is None and common.err_class(e) == "value", f"refused: {type(e).__name__}: {e}"
    if w["expect"] is None:
        return False, f"accepted {w['text']!r} where a refusal was expected"
    want = [descsum_create(x) for x in w["expect"]]
    if got != want:
        return False, f"expanded to {got}, expected {want}"
    for j, x in enumerate(got):
        d = _parse(x, w["network"], {})
        for i, scripts in w["scripts"][j]:
            if [s.script.hex() for s in d.script_pub_keys(i)] != scripts:
                return False, f"alternative {j} at index {i} derives something else"
    try:
        D.parse(w["text"], w["network"])
        return False, "parse accepted a multipath descriptor"
    except BTClibValueError:
        pass
    return True, f"{len(got)} single-path descriptors"


def _o_index_of(w):
    """index_of(script_pub_key(i)) is the first index deriving that script (i itself when distinct), whatever way
    the output is named; a foreign script is None; beyond last_index it is None."""
    prv = w.get("prv") or None
    d = _parse(w["text"], w["network"], {})
    last = w["last"]
    scripts = []
    for i in range((last if d.is_ranged else 0) + 1):
        scripts.append([s.script for s in d.script_pub_keys(i, prv)])
    for i in w["ask"]:
        if i >= len(scripts):
            continue
        for s in scripts[i]:
            if not s:   # raw(): the empty script names no output, index_of refuses to be asked about it
                continue
            first = next(j for j, row in enumerate(scripts) if s in row)
            for named in (s, s.hex(), ScriptPubKey(s, d.network)):
                got = d.index_of(named, last, prv)
                if got != first:
                    return False, f"index_of(script at {i}) = {got}, first deriving index is {first}"
            if first != i:
                return False, f"indexes {first} and {i} derive one script"
    for f in w["foreign"]:
        fb = bytes.fromhex(f)
        if any(fb in row for row in scripts):
            continue
        if d.index_of(fb, last, prv) is not None:
            return False, f"foreign script {f} answered as mine"
    if d.is_ranged and w.get("beyond") is not None:
        b = w["beyond"]
        s = d.script_pub_keys(b, prv)[0].script
        if not any(s in row for row in scripts) and d.index_of(s, last, prv) is not None:
            return False, f"script of index {b} found within last_index {last}"
    return True, f"{len(w['ask'])} positions asked"


def _build_wallet(w):
    kind = w["kind"]
    if kind == "bip32":
        return BIP32KeyWallet(w["xkey"], w["path"], w.get("script_type"))
    if kind == "desc":
        return DescriptorWallet.from_descriptor(w["text"], w["network"], dict(w.get("prv") or {}) or None)
    if kind == "key":
        return KeyWallet([bytes.fromhex(k) for k in w.get("keys", [])], w["script_type"], w["network"])
    if kind == "descs":
        return DescriptorWallet([D.parse(t_, w["network"]) for t_ in w["texts"]], dict(w.get("prv") or {}) or None)
    if kind == "account":
        return DescriptorWallet.from_account(w["xkey"], w["path"], w.get("fp"), w.get("script_type"))
    if kind == "script":
        tmpl = []
        for c in w["template"]:
            if isinstance(c, dict):
                tmpl.append(KeyGroup(c["k"], c["keys"], c.get("verify", False)))
            elif isinstance(c, str) and c.startswith("hex:"):
                tmpl.append(bytes.fromhex(c[4:]))
            else:
                tmpl.append(c)
        return ScriptWallet(tmpl, w["script_type"], w["order"], network=w["network"])
    raise ValueError(kind)


def _o_wallet(w):
    """position_of(script_pub_key(b, i)) == (b, i) (first deriving position), address(b, i) names that script,
    a foreign script is 'not mine', a position past last_index is 'not mine', assert_derives accepts its own span
    and refuses a shifted one."""
    wal = _build_wallet(w)
    last = w["last"]
    table = {}
    for b in wal.branches:
        rows = []
        for i in range(last + 1):
            try:
                rows.append(wal.script_pub_key(b, i).script)
            except BTClibValueError:
                break
        table[b] = rows
    order = [(b, i) for b in wal.branches for i in range(len(table[b]))]
    for b, i in w["ask"]:
        if b not in table or i >= len(table[b]):
            continue
        s = table[b][i]
        first = next(p for p in order if table[p[0]][p[1]] == s)
        got = wal.position_of(s, last)
        if got != first:
            return False, f"position_of(script at {b}/{i}) = {got}, first deriving position is {first}"
        if first != (b, i):
            return False, f"positions {first} and {(b, i)} derive one script"
        try:
            addr = wal.address(b, i)
        except BTClibValueError:
            addr = None
        if addr is not None:
            if ScriptPubKey.from_address(addr).script != s:
                return False, f"address({b},{i}) does not name script_pub_key({b},{i})"
            if wal.position_of(addr, last) != (b, i) or addr not in wal:
                return False, f"position_of(address({b},{i})) is not ({b},{i})"
            info = wal.address_info(addr)
            if (info.branch, info.index) != (b, i):
                return False, "address_info remembers another position"
    for f in w["foreign"]:
        fb = bytes.fromhex(f)
        if any(fb in rows for rows in table.values()):
            continue
        if wal.position_of(fb, last) is not None:
            return False, f"foreign script {f} answered as mine"
    b0 = wal.branches[0]
    if len(table[b0]) > last and w.get("beyond"):
        try:
            s = wal.script_pub_key(b0, last + 1).script
            if not any(s in rows for rows in table.values()) and wal.position_of(s, last) is not None:
                return False, "script one past last_index answered as mine"
        except BTClibValueError:
            pass
    span = table[b0][:4]
    if len(span) >= 2 and len(set(span)) == len(span):
        wal.assert_derives(span, b0, 0)
        try:
            wal.assert_derives(span[1:] + span[:1], b0, 0)
            return False, "assert_derives accepted a rotated span"
        except BTClibValueError:
            pass
    return True, f"{len(w['ask'])} positions asked"


def _o_wallet_raise(w):
    """`position_of` never answers wrongly because part of the range cannot be derived: a match that comes before
    the underivable position is answered with its position, and a query whose scan has to cross the underivable
    position is refused with BTClibValueError — never 'not mine', never another position."""
    wal = _build_wallet(w)
    last = w["last"]
    got = wal.position_of(bytes.fromhex(w["own"]), last)
    if got != tuple(w["own_pos"]):
        return False, f"position_of(own script) = {got}, expected {tuple(w['own_pos'])}"
    for f in w["raises"]:
        try:
            r = wal.position_of(bytes.fromhex(f), last)
        except BTClibValueError:
            continue
        except Exception as e:  # noqa: BLE001
            return False, f"left through {type(e).__name__}"
        return False, f"answered {r} although the scan had to cross a position the wallet cannot derive"
    return True, "answered before / refused at the underivable position"


def _addr_network_ok(addr: str, script: bytes, network: str):
    """decode the address by hand: it names `script`, and its prefix (base58 version byte / bech32 hrp) is the
    one the wallet's network writes."""
    n = NETWORKS[network]
    if b32.is_segwit_prefixed(addr):
        hrp = addr.lower().rpartition("1")[0]
        ver, prog, _ = b32.witness_from_address(addr)
        want = serialize([f"OP_{ver}", prog])
        return hrp == n.hrp and want == script, f"hrp {hrp!r} (network {n.hrp!r})"
    raw = b58.b58decode(addr, 21)
    ver, h = raw[:1], raw[1:]
    if ver == n.p2pkh:
        want = serialize(["OP_DUP", "OP_HASH160", h, "OP_EQUALVERIFY", "OP_CHECKSIG"])
    elif ver == n.p2sh:
        want = serialize(["OP_HASH160", h, "OP_EQUAL"])
    else:
        return False, f"version byte 0x{ver.hex()} is not {network}'s (p2pkh 0x{n.p2pkh.hex()}, p2sh 0x{n.p2sh.hex()})"
    return want == script, f"version 0x{ver.hex()}"


def _o_wallet_address(w):
    """every address a wallet hands out decodes, by hand, to the wallet's own script_pub_key at that position and
    carries the prefix of the wallet's own network."""
    wal = _build_wallet(w)
    for b, i in w["ask"]:
        try:
            s = wal.script_pub_key(b, i).script
            addr = wal.address(b, i)
        except BTClibValueError:
            continue
        ok, why = _addr_network_ok(addr, s, wal.network)
        if not ok:
            return False, f"{w['kind']} wallet on {wal.network}: address({b},{i}) = {addr}: {why}, script {s.hex()}"
        if wal.script_pub_key(b, i).network != wal.network and NETWORKS[wal.script_pub_key(b, i).network] != NETWORKS[wal.network]:
            return False, f"script_pub_key({b},{i}).network is {wal.script_pub_key(b, i).network}, wallet is {wal.network}"
    return True, "addresses name the wallet's scripts on the wallet's network"


def _o_wallet_ops(w):
    """a wallet is a function of its source: whatever is done later (add a loose key of another type, hand out more
    addresses, ask positions), every script handed out before is still derived at its position, byte for byte, is
    still recognised there, keeps its address and its ledger entry; next_address continues one past the highest
    index asked for."""
    wal = _build_wallet(w)
    last = w["last"]
    handed = {}      # (b, i) -> (script, address or None)
    nxt = {}
    added = {}       # address of a loose key -> the script type it was added under

    def note(b, i, addr=None):
        s = wal.script_pub_key(b, i).script
        if (b, i) in handed:
            if handed[(b, i)][0] != s:
                return f"script_pub_key({b},{i}) changed from {handed[(b, i)][0].hex()} to {s.hex()}"
            addr = addr or handed[(b, i)][1]
        handed[(b, i)] = (s, addr)
        return None

    def verify(after):
        last = max([w["last"]] + [i_ for (_, i_) in handed])      # next_address may walk past the asked range
        for a_, t_ in added.items():
            if a_ not in wal or wal.address_info(a_).script_type != t_:
                return f"after {after}: the loose key's address {a_} is no longer recorded as {t_}"
        for (b, i), (s, addr) in handed.items():
            now = wal.script_pub_key(b, i).script
            if now != s:
                return f"after {after}: script_pub_key({b},{i}) was {s.hex()}, is {now.hex()}"
            got = wal.position_of(s, last)
            if got != (b, i):
                return f"after {after}: position_of(script handed out at {b}/{i}) = {got}"
            if addr is not None:
                if addr not in wal or wal.position_of(addr, last) != (b, i):
                    return f"after {after}: address {addr} of {b}/{i} is no longer recognised"
                inf = wal.address_info(addr)
                if (inf.branch, inf.index, inf.address) != (b, i, addr):
                    return f"after {after}: ledger entry of {addr} is {inf}"
                ok, why = _addr_network_ok(addr, s, wal.network)
                if not ok:
                    return f"after {after}: {addr} does not name {s.hex()} on {wal.network}: {why}"
        return None
    for op in w["ops"]:
        try:
            if op[0] == "spk":
                err = note(op[1], op[2])
            elif op[0] == "addr":
                a = wal.address(op[1], op[2])
                nxt[op[1]] = max(nxt.get(op[1], 0), op[2] + 1)
                err = note(op[1], op[2], a)
                if not err and wal.address(op[1], op[2]) != a:
                    err = f"address({op[1]},{op[2]}) is not idempotent"
            elif op[0] == "next":
                i = nxt.get(op[1], 0)
                a = wal.next_address(op[1])
                nxt[op[1]] = i + 1
                err = note(op[1], i, a)
                if not err and wal.address_info(a).index != i:
                    err = f"next_address({op[1]}) handed out index {wal.address_info(a).index}, expected {i}"
            elif op[0] == "pos":
                s = wal.script_pub_key(op[1], op[2]).script
                got = wal.position_of(s, last)
                err = None if got == (op[1], op[2]) else f"position_of(script_pub_key({op[1]},{op[2]})) = {got}"
            elif op[0] == "add":
                before = wal.script_type
                a = wal.add(bytes.fromhex(op[1]), op[2])
                err = None
                if wal.script_type != before:
                    err = f"add(key, {op[2]!r}) changed the wallet's script_type from {before!r} to {wal.script_type!r}"
                elif wal.address_info(a).script_type != (op[2] or before):
                    err = f"the added key is recorded as {wal.address_info(a).script_type}"
                else:
                    added[a] = op[2] or before
                    k_ = KeySpec("hex", op[1], sec=bytes.fromhex(op[1]))
                    spec_ = {"p2pkh": ("pkh", k_), "p2wpkh-p2sh": ("sh", ("wpkh", k_)), "p2wpkh": ("wpkh", k_),
                             "p2tr": ("tr", k_, None)}[op[2] or before]
                    ok_, why_ = _addr_network_ok(a, hand_scripts(spec_, 0, wal.network)[0], wal.network)
                    if not ok_:
                        err = f"add(key, {op[2]!r}) handed out {a}: {why_}"
            else:
                err = f"unknown op {op}"
        except BTClibValueError as e:
            err = None if op[0] in ("spk", "addr", "pos") and op[2] > last else f"{op} raised {e}"
        err = err or verify(op)
        if err:
            return False, f"{w['kind']} wallet, ops {w['ops']}: {err}"
    return True, f"{len(w['ops'])} operations, {len(handed)} positions handed out"


def _o_checksum_ref(w):
    """btclib's checksum is the BIP380 reference's (verbatim copy above), and what it appends the reference's
    descsum_check accepts."""
    t = w["text"]
    want = descsum_create(t)
    try:
        got = D.checksum(t)
    except BTClibValueError:
        return want is None, "refused"
    if want is None or got != want[-8:]:
        return False, f"checksum({t!r}) = {got}, BIP380 reference says {None if want is None else want[-8:]}"
    full = D.add_checksum(t) if "#" not in t else None
    if full is not None and not descsum_check(full):
        return False, f"add_checksum({t!r}) = {full!r} fails the reference descsum_check"
    return True, "equal"


def _o_wallet_agree(w):
    """the BIP32 key wallet and the descriptor wallet of the same account hand out the same scripts and addresses,
    and those are the hand-derived key's own encoding."""
    a = BIP32KeyWallet(w["xkey"], w["path"], w.get("script_type"))
    d = DescriptorWallet.from_account(w["xkey"], w["path"], w.get("fp"), w.get("script_type"))
    for b, i in w["ask"]:
        sa, sd = a.script_pub_key(b, i).script, d.script_pub_key(b, i).script
        if sa != sd or a.address(b, i) != d.address(b, i):
            return False, f"key wallet and descriptor wallet differ at {b}/{i}"
        if sa.hex() != w["expect"][f"{b}/{i}"]:
            return False, f"{b}/{i}: {sa.hex()} is not the hand-assembled {w['expect'][f'{b}/{i}']}"
    return True, "agree"


def _o_opaque_roundtrip(w):
    """musig() / miniscript descriptors: text round trip and index_of inverse only."""
    d = _parse(w["text"], w["network"], {})
    s1 = str(d)
    d2 = _parse(D.add_checksum(s1), w["network"], {})
    if d2 != d or str(d2) != s1:
        return False, f"round trip failed for {w['text']!r}"
    for i in (w["indexes"] if d.is_ranged else [0]):
        s = d.script_pub_key(i).script
        got = d.index_of(s, max(w["indexes"]))
        if got is None or d.script_pub_key(got).script != s or got > i:
            return False, f"index_of(script at {i}) = {got}"
    return True, "round trip"


def _o_int_digits(w):
    """a descriptor holding a long run of decimal digits is read or refused with BTClibValueError — never left
    through int()'s own ValueError (CPython's 4300-digit limit)."""
    try:
        D.parse(w["text"])
    except BTClibValueError:
        return True, "refused"
    except Exception as e:  # noqa: BLE001
        return False, f"left through {type(e).__name__}: {str(e)[:80]}"
    return True, "read"


def _o_brackets(w):
    """a descriptor text whose bracket kinds do not match (`)` closed by `}` or the reverse) is outside the
    grammar: parse refuses it, checksummed by add_checksum or not."""
    try:
        d = D.parse(w["text"], w["network"])
    except BTClibValueError:
        return True, "refused"
    return False, f"accepted {w['text']!r} and wrote it back as {str(d)!r}"


def _o_wallet_labels(w):
    """DescriptorWallet over a mapping with arbitrary labels, on the real code alone: `branches` is the labels in
    ascending order; for every chain, the script at (label, index) is recognised, at a position that derives it and
    that is not after (label, index) in (ascending label, index) order; a label that is not a branch is refused."""
    try:
        parsed = {b_: D.parse(t_, n_) for b_, n_, t_ in w["items"]}
    except BTClibValueError:
        return True, "not parsed"
    try:
        wal = DescriptorWallet(parsed)
    except BTClibValueError:
        bad = (any(b_ < 0 for b_ in parsed) or any(isinstance(d_, D.ComboDescriptor) for d_ in parsed.values())
               or len({d_.network for d_ in parsed.values()}) != 1)
        if bad:
            return True, "refused: negative label / combo / networks"
        first = parsed[min(parsed)]
        try:
            first.script_pub_key(0)
        except BTClibValueError:
            return True, "refused: first chain underivable"
        return False, "a well-formed mapping was refused"
    if wal.branches != tuple(sorted(parsed)):
        return False, f"branches {wal.branches} are not the sorted labels {sorted(parsed)}"
    last = w["last"]
    for b_ in wal.branches:
        i_ = last if wal.descriptor(b_).is_ranged else 0
        try:
            q = wal.script_pub_key(b_, i_).script
        except BTClibValueError:
            continue
        try:
            got = wal.position_of(q, last)
        except BTClibValueError:
            continue     # an earlier chain cannot be derived: the raise is wallet.raise's business
        if got is None or got[0] not in wal.branches:
            return False, f"position_of(script_pub_key({b_}, {i_})) = {got}: not a position under the labels {wal.branches}"
        if wal.script_pub_key(*got).script != q or got > (b_, i_):
            return False, f"position_of(script_pub_key({b_}, {i_})) = {got}"
    for b_ in (min(parsed) + 1, max(parsed) + 1, -1):
        if b_ in parsed:
            continue
        try:
            wal.script_pub_key(b_, 0)
            return False, f"script_pub_key({b_}, 0) answered for a label the wallet does not hold"
        except BTClibValueError:
            pass
    return True, f"{len(parsed)} chains"


# ------------------------------------------------------------------ core_import: requests to and replies of a node
def jtok(v) -> str:
    """a decoded JSON value on the op line (see Driver/C14Main.lean `parseJ`)."""
    if v is None:
        return "N"
    if isinstance(v, bool):
        return "T" if v else "F"
    if isinstance(v, int):
        return f"I{v};"
    if isinstance(v, float):
        return f"W{int(v)};" if v.is_integer() else "X"
    if isinstance(v, str):
        return "S" + ".".join(str(ord(c)) for c in v) + ";"
    if isinstance(v, list):
        return "A" + "".join(jtok(x) for x in v) + "]"
    if isinstance(v, dict):
        return "O" + "".join(jtok(str(k)) + jtok(x) for k, x in v.items()) + "}"
    raise TypeError(type(v).__name__)


_J_SCALARS = [None, True, False, 0, 1, 5, -1, 999, 1000, 2 ** 31 - 1, 2 ** 31, 10 ** 30, -(10 ** 30), 1.0, 3.0, -0.0, 1.5,
              float("inf"), float("nan"), 1e30, "", "5", "-3", "+7", "007", "abc", "1.0", "0x10", "-", "+", "12a",
              "9" * 4300, "9" * 4301, "9" * 5000, "-" + "1" * 4300, "0" * 4301]


def rand_json(rng, depth=2):
    r = rng.random()
    if depth == 0 or r < 0.55:
        return rng.choice(_J_SCALARS)
    if r < 0.8:
        return [rand_json(rng, depth - 1) for _ in range(rng.choice([0, 1, 2, 2, 3]))]
    return {rng.choice(["desc", "range", "success", "error", "descriptors", "k"]): rand_json(rng, depth - 1)
            for _ in range(rng.choice([0, 1, 2]))}


def _core_call(fn, *a, **kw):
    try:
        v = fn(*a, **kw)
    except Exception as e:  # noqa: BLE001
        return _err(e)
    if v is None:
        return "ok None"
    if isinstance(v, tuple):
        return "ok " + " ".join(str(x) for x in v)
    return "ok"


def _o_core_hostile(w):
    """watched_range / assert_imported on ANY Python value in place of a node's reply (JSON shapes and others: tuples,
    sets, bytes, objects): they answer or leave through a BTClib exception, never a foreign one."""
    from btclib import core_import as CI
    val = eval(w["value"], {"inf": float("inf"), "nan": float("nan"), "object": object})  # noqa: S307 - harness literal
    outs = [_core_call(CI.watched_range, "pk(x)", val), _core_call(CI.watched_range, "pk(x)", {"descriptors": val}),
            _core_call(CI.watched_range, "pk(x)", {"descriptors": [val]}),
            _core_call(CI.watched_range, "pk(x)", {"descriptors": [{"desc": "pk(x)", "range": val}]}),
            _core_call(CI.watched_range, "pk(x)", {"descriptors": [{"desc": val}]}),
            _core_call(CI.assert_imported, val, val), _core_call(CI.assert_imported, [val], [val]),
            _core_call(CI.assert_imported, [{}], [val]), _core_call(CI.assert_imported, [{"desc": val}], [{"error": val}])]
    bad = [o for o in outs if o.startswith("err foreign")]
    return not bad, f"{bad[:2]}" if bad else "answered or refused with the library's exceptions"


def core_import_batch(ctx):
    from btclib import core_import as CI
    rng = ctx.rng
    lines = []
    g = Gen(rng, "mainnet")
    bodies = []
    for _ in range(6):
        k = g.xkey(allow_hardened=True, canonical=True, ranged=True)
        bodies.append("wpkh(" + k.text + ")")
    bodies += ["pk(x)", "tr([aabbccdd/86'/0'/0']xpubQ/0/*)", "raw(00)"]

    def spell(body):
        b = body
        if rng.random() < 0.5:
            b = b.replace("h", "'") if rng.random() < 0.5 else b.replace("'", "h")
        if rng.random() < 0.6:
            b += "#" + "".join(rng.choice(D.CHECKSUM_CHARSET) for _ in range(8))
        return b

    def good_range():
        a = rng.choice([0, 0, 5, 1000, 2 ** 31 - 10])
        return [a, a + rng.choice([0, 1, 999, 5000])]

    def bad_range():
        return rng.choice([[1], [], [1, 2, 3], "12", {"a": 1}, None, [True, 2], ["9" * 5000, "5"], ["9" * 4300, 1],
                           [1.5, 2], [float("inf"), 1], [2.0, 5.0], ["3", "7"], [[1], 2], [None, 1], [3, "x"], 7,
                           [float("nan"), float("nan")], ["-2", "+9"], [10 ** 30, -(10 ** 30)], rand_json(rng, 2)])

    # ---- watched_range: well-typed replies, then replies with one hostile spot, then anything
    for _ in range(ctx.n(120, 1500)):
        body = rng.choice(bodies)
        entries = []
        for _e in range(rng.choice([0, 1, 2, 3, 4])):
            eb = body if rng.random() < 0.6 else rng.choice(bodies)
            e = {"desc": spell(eb)}
            if rng.random() < 0.75:
                e["range"] = good_range()
            if rng.random() < 0.3:
                e["active"] = rng.random() < 0.5
            entries.append(e)
        reply = {"wallet_name": "w", "descriptors": entries}
        mode = rng.random()
        if mode < 0.45 and entries:
            e = rng.choice(entries)
            what = rng.random()
            if what < 0.6:
                e["range"] = bad_range()
            elif what < 0.75:
                e["desc"] = rng.choice([None, 5, ["pk(x)"], {"a": 1}, True, 1.0])
            elif what < 0.85:
                del e["desc"]
            else:
                entries[entries.index(e)] = rng.choice([None, "pk(x)", 5, [], [e], True])
        elif mode < 0.55:
            reply = rng.choice([{"descriptors": rand_json(rng, 1)}, {}, {"descriptor": entries}, rand_json(rng, 2)])
        d = spell(body)
        lines.append((f"core.watched {T(d)} {jtok(reply)}", _core_call(CI.watched_range, d, reply)))
        ctx.count("core.watched", "well-typed" if mode >= 0.55 else "hostile")
    # ---- assert_imported
    for _ in range(ctx.n(60, 600)):
        n_ = rng.choice([0, 1, 2, 3])
        rq = [{"desc": "pk(x)#" + "q" * 8} for _ in range(n_)]
        an = [{"success": rng.choice([True, True, True, False, 1, 0, "yes", "", None, 1.0, 0.0, [], [0], {}])}
              if rng.random() < 0.9 else {"error": {"code": -4}} for _ in range(n_)]
        mode = rng.random()
        if mode < 0.15:
            an = an[:-1] if an else [{}]
        elif mode < 0.3:
            (rq if rng.random() < 0.5 else an).insert(rng.randrange(n_ + 1), rand_json(rng, 1))
            (an if len(an) < len(rq) else rq).append({"success": True}) if len(an) != len(rq) and rng.random() < 0.7 else None
        elif mode < 0.4:
            if rng.random() < 0.5:
                rq = rand_json(rng, 1)
            else:
                an = rand_json(rng, 1)
        lines.append((f"core.imported {jtok(rq)} {jtok(an)}",
                      _core_call(CI.assert_imported, rq, an).replace("ok None", "ok")))
    # ---- widened_range / import_request guards / _comparable
    vals = [0, 1, 5, 999, 1000, 10 ** 6 - 1, 10 ** 6, 2 ** 31 - 1, 2 ** 31, -1, 2 ** 31 - 10 ** 6]
    for _ in range(ctx.n(60, 600)):
        w = (rng.choice(vals), rng.choice(vals))
        wd = None if rng.random() < 0.4 else (rng.choice(vals), rng.choice(vals))
        lines.append((f"core.widen {w[0]},{w[1]} " + ("-" if wd is None else f"{wd[0]},{wd[1]}"),
                      _core_call(CI.widened_range, w, wd)))
    texts = [D.add_checksum(b) for b in bodies[:6]] + [D.add_checksum("wpkh(" + g.fixed_key(
        xonly_ok=False, uncompressed_ok=False, canonical=True).text + ")") for _ in range(3)]
    for _ in range(ctx.n(80, 800)):
        t_ = rng.choice(texts)
        ranged = D.parse(t_).is_ranged
        active, internal = rng.random() < 0.5, rng.random() < 0.4
        label = rng.choice(["", "", "savings"])
        kr = rng.choice([None, (0, 999), (5, 3), (0, 2 ** 31), (0, 10 ** 6), (0, 10 ** 6 - 1), (-1, 5), (7, 7),
                         (2 ** 31 - 5, 2 ** 31 - 1)])
        nx = rng.choice([None, None, 0, 7, 999, 1000, -1, 2 ** 31 - 1])
        out = _core_call(CI.import_request, t_, internal=internal, active=active, key_range=kr, next_index=nx, label=label)
        lines.append((f"core.request {int(ranged)} {int(active)} {int(internal)} {int(bool(label))} "
                      + ("-" if kr is None else f"{kr[0]},{kr[1]}") + " " + ("-" if nx is None else str(nx)), out))
    for body in bodies:
        for _ in range(3):
            t_ = spell(body)
            lines.append((f"core.comparable {T(t_)}", "ok " + T(CI._comparable(t_))))
    for ln, out in lines:
        _SCAN_CTX[ln] = out
    stream(ctx, "core.import", [ln for ln, _ in lines], key="core_import.model")
    # ---- any Python value where a reply is expected: never a foreign exception (real code alone)
    for v in ["None", "5", "'abc'", "b'ab'", "(1, 2)", "{1, 2}", "object()", "[1]", "{}", "{'desc': 1}", "1.5", "inf",
              "['9' * 5000, '5']", "[(1, 2)]", "{'range': None}", "[[[[[1]]]]]", "{'descriptors': {'desc': 'pk(x)'}}",
              "bytearray(b'x')", "range(3)", "iter([1, 2])", "frozenset()", "lambda: 1", "[inf, -inf]", "[nan, 1]",
              "('9' * 4301, 1)", "[True, False]", "{'success': object()}"]:
        ctx.check("core.hostile", {"value": v}, key="core_import.foreign_exception")


ORACLES = {
    "derive": _o_derive, "corrupt": _o_corrupt, "roundtrip": _o_roundtrip, "atindex": _o_atindex,
    "multipath": _o_multipath, "index_of": _o_index_of, "wallet": _o_wallet, "wallet.agree": _o_wallet_agree, "wallet.raise": _o_wallet_raise, "wallet.address": _o_wallet_address,
    "wallet.ops": _o_wallet_ops, "checksum.reference": _o_checksum_ref,
    "opaque.roundtrip": _o_opaque_roundtrip, "brackets": _o_brackets, "int_digits": _o_int_digits,
    "wallet.labels": _o_wallet_labels, "core.hostile": _o_core_hostile, "normalized": _o_normalized,
}


# ------------------------------------------------------------------ batches
def _expected(spec, index, network):
    return [s.hex() for s in hand_scripts(spec, index, network)]


def _odd_wif_in_tr(spec):
    """a WIF written where only x-only keys are written, whose public key has odd y (regression of the repaired
    finding `roundtrip.xonly_wif_odd_y`: the parsed object kept the 03… bytes, the written text re-read as 02…)."""
    return spec[0] in ("tr", "rawtr") and any(k.kind == "wif" and k.sec[0] == 3 for k in spec_keys(spec))


def _ranged(spec):
    return any(k.ranged for k in spec_keys(spec))


def _flip_indexes(spec, limit=64):
    """indexes (below `limit`) at which the sorted order of a sortedmulti's derived keys differs from the order
    at index 0: the generator's search for 'the order flips'."""
    node = spec
    while node[0] in ("sh", "wsh"):
        node = node[1]
    if node[0] != "sortedmulti" or not _ranged(spec) or any(k.wildcard == H for k in node[2]):
        return []

    def order(i):
        ks = [k.derive(i) for k in node[2]]
        return sorted(range(len(ks)), key=lambda j: ks[j])
    o0 = order(0)
    return [i for i in range(1, limit) if order(i) != o0][:3]


def checksum_batch(ctx):
    rng = ctx.rng
    lines = []
    for _ in range(ctx.n(60, 600)):
        n = rng.choice([0, 1, 2, 3, 8, 9, 20, 64])
        lines.append("polymod " + nums(rng.choice([rng.randrange(32), rng.randrange(1 << 40)]) for _ in range(n)))
    stream(ctx, "polymod", lines)
    bodies = ["", "a", "ab", "abc", "abcd", "raw(deadbeef)", "pk(0279be667ef9dcbbac55a06295ce870b07029bfcdb2dce28d959f2815b16f81798)"]
    for _ in range(ctx.n(60, 600)):
        n = rng.choice([1, 2, 3, 4, 5, 6, 7, 30, 31, 32, 100, 250])
        s = "".join(rng.choice(IC) for _ in range(n))
        if rng.random() < 0.15:
            p = rng.randrange(len(s))
            s = s[:p] + rng.choice("éÿ\x7f\x00\tÀ") + s[p + 1:]
        bodies.append(s)
    stream(ctx, "expand", ["expand " + T(s) for s in bodies])
    stream(ctx, "csum", ["csum " + T(s) for s in bodies])
    lines = []
    for s in bodies:
        try:
            full = D.add_checksum(s.replace("#", ""))
        except BTClibValueError:
            full = s + "#qqqqqqqq"
        lines.append("strip " + T(full))
        lines.append("strip " + T(s))
        p = rng.randrange(len(full))
        lines.append("strip " + T(full[:p] + rng.choice(IC) + full[p + 1:]))
        lines.append("strip " + T(full + rng.choice(["#", "#abc", "q", ""])))
        lines.append("strip " + T(full[:-rng.randint(1, 9)]))
        lines.append("add " + T(s))
        lines.append("add " + T(full))
        lines.append("add " + T(full[:-1] + rng.choice(D.CHECKSUM_CHARSET)))
    stream(ctx, "strip_add", lines)


def checksum_reference_batch(ctx, texts):
    """btclib's checksum against the verbatim BIP380 reference on every length class mod 3 x charset group of the
    last characters (the tail-group rule of the expansion is where a slip hides)."""
    rng = ctx.rng
    groups = [IC[0:32], IC[32:64], IC[64:]]
    cases = [t.partition("#")[0] for t in texts]
    for r in range(3):
        for g1 in range(3):
            for g2 in range(3):
                for _ in range(ctx.n(2, 12)):
                    n = 3 * rng.randint(1, 30) + r
                    body = "".join(rng.choice(IC.replace("#", "")) for _ in range(max(n - 3, 0)))
                    t = (body + rng.choice(groups[g1]) + rng.choice(groups[g2]) + ")")[-n:] if n >= 3 else \
                        (rng.choice(groups[g1]) + rng.choice(groups[g2]))[:n]
                    cases.append(t.replace("#", "q"))
    g = Gen(rng, "mainnet")
    for _ in range(ctx.n(6, 40)):   # pkh(xpub…): length 2 mod 3 happens with a last key character of any group
        k = g.xkey(allow_hardened=False, canonical=True, ranged=False)
        for f in ("pkh", "wpkh", "tr", "pk"):
            cases.append(f"{f}({k.xpub})")
            cases.append(f"{f}({k.text})")
    for t in cases:
        if t and len(t) >= 2:
            cls = f"len%3={len(t) % 3},groups={IC.find(t[-2]) >> 5 if t[-2] in IC else 'x'}{IC.find(t[-1]) >> 5 if t[-1] in IC else 'x'}"
            ctx.count("checksum.reference", cls)
        ctx.check("checksum.reference", {"text": t}, key="checksum.reference")


def split_batch(ctx, texts):
    rng = ctx.rng
    lines = []
    for s in texts:
        body = s.partition("#")[0]
        lines.append("splitfn " + T(body))
        if "(" in body:
            lines.append("split " + T(body[body.find("(") + 1:-1]))
    for _ in range(ctx.n(150, 2000)):
        n = rng.randint(0, 14)
        s = "".join(rng.choice("(){},,ab") for _ in range(n))
        lines.append("split " + T(s))
        lines.append("splitfn " + T(s))
    stream(ctx, "split", lines)


def position_lines(ctx):
    """every function in every position, with every kind of fixed key: the position rules of `_PARSERS` and the
    x-only / compressed flags each reader passes to `_parse_key`."""
    rng = ctx.rng
    g = Gen(rng, "mainnet")
    q = 1 + rng.randrange(secp256k1.n - 1)
    P = mult(q)
    comp = (bytes([2 + (P[1] & 1)]) + P[0].to_bytes(32, "big")).hex()
    unc = (b"\x04" + P[0].to_bytes(32, "big") + P[1].to_bytes(32, "big")).hex()
    xonly = P[0].to_bytes(32, "big").hex()
    hybrid = "06" + unc[2:]
    wif_c = b58.wif_from_prv_key(q, "mainnet", True)
    wif_u = b58.wif_from_prv_key(q, "mainnet", False)
    xpub = g.roots[0][1] + "/0/*"
    keys = [comp, unc, xonly, hybrid, wif_c, wif_u, xpub, f"[aabbccdd/1h]{comp}", f"musig({comp},{xpub})"]
    addr = b32.address_from_witness(0, bytes(20), "mainnet")
    lines = []
    for k in keys:
        inners = [f"pk({k})", f"pkh({k})", f"wpkh({k})", f"combo({k})", f"multi(1,{k})", f"sortedmulti(1,{k},{comp})",
                  f"tr({k})", f"rawtr({k})", f"tr({xonly},pk({k}))", f"tr({xonly},multi_a(1,{k}))",
                  f"tr({xonly},{{pk({k}),sortedmulti_a(1,{k},{xonly})}})", f"multi_a(1,{k})", f"musig({k})",
                  f"tr({xonly},pkh({k}))", f"tr({xonly},wpkh({k}))", f"tr({xonly},sh(pk({k})))"]
        for inner in inners:
            for wrap in ["{}", "sh({})", "wsh({})", "sh(wsh({}))", "wsh(sh({}))", "sh(sh({}))", "wsh(wsh({}))"]:
                lines.append(wrap.format(inner))
    for wrap in ["{}", "sh({})", "wsh({})", "sh(wsh({}))"]:
        lines += [wrap.format(f"addr({addr})"), wrap.format("raw(51)"), wrap.format(f"sh(pk({comp}))"),
                  wrap.format(f"wsh(pk({comp}))"), wrap.format(f"pk({comp},{comp})"), wrap.format("pk()"),
                  wrap.format(f"multi(1)"), wrap.format(f"multi(x,{comp})"), wrap.format(f"multi(,{comp})")]
    lines += [f"tr({xonly},{xonly},{xonly})", f"tr()", f"tr({xonly},)", f"tr({xonly},{{pk({xonly})}})",
              f"tr({xonly},{{pk({xonly}),pk({xonly}),pk({xonly})}})", f"tr({xonly},{{}})", f"tr({xonly},{{)",
              "raw()", "raw(zz)", "raw(5)", "raw(51 52)", "raw( 5152 )", "raw(5 1)", "addr()", "addr(x)", "pk", "pk(", "(",
              ")", "", "pk)(", f"pk({comp})x", f"xpk({comp})", f"PK({comp})"]
    # digit runs: a threshold is at most ten digits; int() has a 4300-digit limit of its own that nothing may reach
    for n in (9, 10, 11, 4300, 4301, 10 ** 4):
        for run in ("9" * n, "0" * (n - 1) + "1"):
            lines += [f"multi({run},{comp})", f"wsh(sortedmulti({run},{comp},{comp}))", f"tr({xonly},multi_a({run},{xonly}))",
                      f"tr({xonly},{{pk({xonly}),sortedmulti_a({run},{xonly})}})",
                      f"wpkh({g.roots[0][1]}/{run}/*)", f"wpkh({g.roots[0][1]}/{run}h)", f"pkh([aabbccdd/{run}']{comp})"]
    for t_ in lines[-84:]:
        ctx.check("int_digits", {"text": t_}, key="parse.int_max_str_digits")
    for n in (11, 4300, 4301, 10 ** 4):
        for t_ in (f"wsh(and_v(v:pk({comp}),older({'1' * n})))", f"wsh(and_v(v:pk({comp}),after({'0' * n}5)))",
                   f"wsh(thresh({'2' * n},pk({comp}),s:pk({comp})))", f"tr({xonly},and_v(v:pk({xonly}),older({'7' * n})))"):
            ctx.check("int_digits", {"text": t_}, key="parse.int_max_str_digits")
    deep = f"pk({xonly})"
    for _ in range(130):
        deep = "{" + deep + f",pk({xonly})" + "}"
        if _ in (0, 1, 126, 127, 128, 129):
            lines.append(f"tr({xonly},{deep})")
    ctx.count("parse", "position-matrix", len(lines))
    return [f"parse {atoms_for(t)} {T(t)}" for t in lines]


MUTATION_CHARS = "(){}[],/*h'#<>; 0129afAFxz"


def mutate(rng, s):
    body = s.partition("#")[0]
    c = rng.random()
    if not body:
        return body
    p = rng.randrange(len(body))
    if c < 0.45:
        return body[:p] + rng.choice(MUTATION_CHARS) + body[p + 1:]
    if c < 0.6:
        return body[:p] + rng.choice(MUTATION_CHARS) + body[p:]
    if c < 0.75:
        return body[:p] + body[p + 1:]
    if c < 0.85:
        # swap one bracket for the other kind
        idx = [i for i, ch in enumerate(body) if ch in "(){}"]
        if idx:
            i = rng.choice(idx)
            return body[:i] + {"(": "{", ")": "}", "{": "(", "}": ")"}[body[i]] + body[i + 1:]
        return body
    if c < 0.93:
        return body[:p]
    return body + rng.choice([")", "}", ",", "/", "/*", " "])


def run(ctx):  # noqa: PLR0912, PLR0915
    rng = ctx.rng
    checksum_batch(ctx)

    # ---- descriptor structures: text, hand-assembled scripts
    specs = []
    for net in NETS:
        g = Gen(rng, net)
        for _ in range(ctx.n(24, 160)):
            canonical = rng.random() < 0.5
            spec = g.script_expr("top", canonical)
            specs.append((net, spec, canonical))
    texts = []
    n_flip = 0
    spk_lines = []
    norm_lines = []
    for net, spec, canonical in specs:
        text = spec_text(spec)
        if rng.random() < 0.5:
            text = D.add_checksum(text)
        texts.append(text)
        ctx.count("functions", spec[0])
        prv = prv_keys_of(spec)
        needs = any(k.needs_prv for k in spec_keys(spec))
        ranged = _ranged(spec)
        idxs = indexes_for(rng, ranged) + _flip_indexes(spec)
        n_flip += len(idxs) - len(indexes_for(rng, ranged)) if ranged else 0
        prv_tok = ";".join(f"{T(a)}={T(b)}" for a, b in prv.items()) if prv else "_"
        at = atoms_for(text)
        for i in idxs:
            use_prv = needs or rng.random() < 0.3
            ctx.check("derive", {"text": text, "network": net, "prv": prv if use_prv else None,
                                 "index": i, "expect": _expected(spec, i, net)})
            if len(spk_lines) < ctx.n(260, 2500) and (i in (0, 1, H - 1) or rng.random() < 0.35):
                spk_lines.append(f"desc.spk {at} {prv_tok if use_prv else '_'} {T(text)} {i} {net}")
        if rng.random() < 0.3:   # refusals: index out of range, another network, hardened without the keys
            spk_lines.append(f"desc.spk {at} _ {T(text)} {rng.choice([H, 1])} {net}")
            spk_lines.append(f"desc.spk {at} _ {T(text)} 0 {rng.choice(NETS)}")
        if not ranged:
            ctx.check("derive", {"text": text, "network": net, "prv": None, "index": 1, "expect": None})
        ctx.check("derive", {"text": text, "network": net, "prv": prv, "index": H, "expect": None})
        if needs:  # hardened steps without the private keys: refused, never a wrong script
            ctx.check("derive", {"text": text, "network": net, "prv": None, "index": 0, "expect": None})
        canon = canonical and not any(k.private for k in spec_keys(spec))
        odd = _odd_wif_in_tr(spec)
        ctx.check("roundtrip", {"text": text, "network": net, "canonical": canon},
                  key="roundtrip.xonly_wif_odd_y" if odd else None)
        ctx.check("atindex", {"text": text, "network": net, "prv": prv,
                              "index": rng.choice([0, 1, H - 1]) if ranged else 0},
                  key="roundtrip.xonly_wif_odd_y" if odd else None)
        rer = sum(1 for k in spec_keys(spec) if k.kind == "x" and k.wildcard != H and any(i >= H for i in k.path))
        ctx.count("normalized", "re-rooted-keys" if rer else "symbol-only")
        ctx.check("normalized", {"text": text, "network": net, "prv": prv, "indexes": indexes_for(rng, ranged)},
                  key="roundtrip.xonly_wif_odd_y" if odd else None)
        if rer:
            ctx.check("normalized", {"text": text, "network": net, "prv": None, "indexes": [0]})
        if len(norm_lines) < ctx.n(200, 1500):
            norm_lines.append(f"desc.norm {at} {prv_tok} {T(text)} {net}")
            if rer and rng.random() < 0.5:
                norm_lines.append(f"desc.norm {at} _ {T(text)} {net}")
        if odd:
            ctx.count("roundtrip", "wif-odd-y-in-taproot-position")
    ctx.count("sortedmulti", "flip-indexes", n_flip)
    stream(ctx, "desc.spk", spk_lines)
    stream(ctx, "desc.norm", norm_lines)

    # ---- sortedmulti with many keys: flips are certain
    g = Gen(rng, "mainnet")
    for _ in range(ctx.n(4, 40)):
        keys = [g.xkey(allow_hardened=False, canonical=True, ranged=True) for _ in range(rng.choice([3, 5, 8]))]
        spec = (rng.choice(["wsh", "sh"]), ("sortedmulti", rng.randint(1, len(keys)), keys))
        text = spec_text(spec)
        flips = _flip_indexes(spec)
        ctx.count("sortedmulti", "searched")
        for i in flips + [0]:
            ctx.check("derive", {"text": text, "network": "mainnet", "prv": None, "index": i,
                                 "expect": _expected(spec, i, "mainnet")})
        ctx.count("sortedmulti", "flip-indexes", len(flips))

    # ---- parse / str / at_index / key streams (model vs implementation)
    lines = []
    for text in texts:
        lines.append(f"parse {atoms_for(text)} {T(text)}")
    for text in texts:
        for _ in range(ctx.n(3, 12)):
            m = mutate(rng, text)
            if any(ord(c) > 126 or ord(c) < 32 for c in m):
                continue
            lines.append(f"parse {atoms_for(m)} {T(m)}")
    lines += position_lines(ctx)
    ms_parse, ms_spk = miniscript_lines(ctx)
    lines += ms_parse
    stream(ctx, "parse", lines)
    stream(ctx, "desc.spk.miniscript", ms_spk)
    lines = []
    for text in texts:
        i = rng.choice([0, 0, 1, 5, H - 1, H])
        lines.append(f"atindex {atoms_for(text)} {T(text)} {i}")
    stream(ctx, "atindex", lines)
    lines = []
    for net, spec, _ in specs:
        for k in spec_keys(spec)[:3]:
            for m in [k.text] + [mutate(rng, k.text) for _ in range(ctx.n(2, 8))]:
                x, c, mu = rng.choice("01"), rng.choice("01"), rng.choice("01")
                lines.append(f"key {atoms_for(m)} {x} {c} {mu} {T(m)}")
    stream(ctx, "key", lines)
    split_batch(ctx, texts)
    checksum_reference_batch(ctx, texts)

    # ---- bracket kinds (grammar strictness without a checksum to hide behind)
    nb = 0
    for text in texts:
        body = text.partition("#")[0]
        idx = [i for i, ch in enumerate(body) if ch in ")}"]
        for i in idx[:ctx.n(3, 40)]:
            bad = body[:i] + {")": "}", "}": ")"}[body[i]] + body[i + 1:]
            if body.startswith("addr(") or body.startswith("raw("):
                continue
            nb += 1
            ctx.check("brackets", {"text": bad, "network": "mainnet"}, key="parse.tr_leaf_closing_bracket_kind")
    ctx.count("brackets", "swapped", nb)

    # ---- single-character corruption of checksummed descriptors
    pool = [t for t in texts if not t.startswith("addr(") and (ctx.tier == "thorough" or len(t) < 420)]
    rng.shuffle(pool)
    for text in pool[:30]:
        s = text if "#" in text else D.add_checksum(text)
        if ctx.tier == "thorough":
            edits = [(p, IC) for p in range(len(s))]
        else:
            edits = []
            for p in range(len(s)):
                k = (p * 7 + len(s)) % len(IC)
                repl = IC[k] + IC[(k + 41) % len(IC)]
                if s[p] in "()[]{},/#*h'":
                    repl += "(){},#/"
                edits.append((p, repl))
            for p in rng.sample(range(len(s)), min(4, len(s))):
                edits.append((p, IC))
        ctx.check("corrupt", {"s": s, "edits": edits})

    # ---- multipath
    for net in NETS[:3]:
        g = Gen(rng, net)
        for _ in range(ctx.n(6, 60)):
            _multipath_case(ctx, g, net)

    lines = []
    for text in _MP_TEXTS + texts[:10]:
        lines.append("multipath " + T(text))
        for _ in range(ctx.n(3, 10)):
            body = text.partition("#")[0]
            p_ = rng.randrange(len(body))
            m = body[:p_] + rng.choice("<>;;<>0/") + body[p_ + rng.choice([0, 1]):]
            lines.append("multipath " + T(m))
    lines += ["multipath " + T(x) for x in ["", "<>", "<;>", "a<b<c;d>e", "a<b>c", "<0;1><2;3>", "x<0;1>y<2>", "x<0;1>>y",
                                             "x<<0;1>y", "x<0;1", "x0;1>", "pk(<;>)", "a<0;1>b<2;3>c<4;5>d", "<0;1;2>#", "é<0;1>"]]
    _MP_TEXTS.clear()
    stream(ctx, "multipath", lines)

    # ---- index_of and the scans
    scan_lines = []
    for net, spec, _ in rng.sample(specs, min(len(specs), ctx.n(25, 200))):
        if spec[0] == "addr":
            continue
        text = spec_text(spec)
        prv = prv_keys_of(spec)
        last = rng.choice([0, 3, 7])
        ask = [0, last, rng.randint(0, last)]
        foreign = [common.rand_bytes(rng, 22).hex(), serialize(["OP_0", common.rand_bytes(rng, 20)]).hex()]
        ctx.check("index_of", {"text": text, "network": net, "prv": prv, "last": last, "ask": ask,
                               "foreign": foreign, "beyond": last + 1})
        try:
            d = D.parse(text, net)
            rows = [[s.script for s in d.script_pub_keys(i, prv)] for i in range((last if d.is_ranged else 0) + 1)]
        except BTClibValueError:
            continue
        ids = {}
        for row in rows:
            for s in row:
                ids.setdefault(s, len(ids) + 1)
        rows_tok = ";".join(",".join(str(ids[s]) for s in row) if row else "-" for row in rows)
        for q in [rows[0][0], rows[-1][-1], bytes.fromhex(foreign[0])]:
            qid = ids.get(q, 10 ** 6)
            ln = f"scan.index {1 if d.is_ranged else 0} {last} {qid} {rows_tok}"
            got = d.index_of(q, last, prv)
            _SCAN_CTX[ln] = f"ok {got}"
            scan_lines.append(ln)
    stream(ctx, "scan.index", scan_lines)

    wallet_batch(ctx)
    wallet_labels_batch(ctx)
    core_import_batch(ctx)
    opaque_batch(ctx)


_MP_TEXTS: list = []


def _multipath_case(ctx, g, net):
    rng = ctx.rng
    n_alt = rng.choice([2, 2, 3])
    n_keys = rng.choice([1, 2])
    keys = []
    for _ in range(n_keys):
        xprv, xpub = rng.choice(g.roots)
        pre = [rng.randrange(5) for _ in range(rng.choice([0, 1]))]
        alts = rng.sample(range(10), n_alt)
        post_wild = rng.random() < 0.7
        keys.append((xpub, pre, alts, post_wild))
    f = rng.choice(["wpkh", "pkh", "wsh-multi", "tr"])
    if f in ("wpkh", "pkh", "tr"):
        keys = keys[:1]

    def ktext(k, j):
        xpub, pre, alts, wild = k
        step = ("<" + ";".join(str(a) for a in alts) + ">") if j is None else str(alts[j])
        return xpub + "".join(f"/{i}" for i in pre) + "/" + step + ("/*" if wild else "")

    def kspec(k, j):
        xpub, pre, alts, wild = k
        return KeySpec("x", ktext(k, j), xpub=xpub, path=pre + [alts[j]], wildcard=0 if wild else None)

    def whole(j):
        if f == "wsh-multi":
            return "wsh(multi(1," + ",".join(ktext(k, j) for k in keys) + "))"
        return f"{f}({ktext(keys[0], j)})"

    def spec(j):
        if f == "wsh-multi":
            return ("wsh", ("multi", 1, [kspec(k, j) for k in keys]))
        if f == "tr":
            return ("tr", kspec(keys[0], j), None)
        return (f, kspec(keys[0], j))
    text = whole(None)
    bad = rng.random() < 0.25
    if bad:
        c = rng.random()
        if c < 0.4 and len(keys) > 1:   # steps of different length
            xpub, pre, alts, wild = keys[1]
            keys[1] = (xpub, pre, alts + [11], wild)
            text = whole(None)
        elif c < 0.7:                   # a single alternative
            text = text.replace(";".join(str(a) for a in keys[0][2]), str(keys[0][2][0]), 1)
        else:
            bad = False
    _MP_TEXTS.append(text)
    if bad and "<" in text:
        ctx.check("multipath", {"text": text, "network": net, "expect": None})
        return
    if rng.random() < 0.5:
        text = D.add_checksum(text)
    scripts = []
    for j in range(n_alt):
        s = spec(j)
        scripts.append([(i, _expected(s, i, net)) for i in ([0, 1, H - 1] if _ranged(s) else [0])])
    ctx.check("multipath", {"text": text, "network": net, "expect": [whole(j) for j in range(n_alt)],
                            "scripts": scripts})
    # the checksum of a MULTIPATH descriptor is verified before it is expanded: one changed character of the body
    # (inside or outside a `<a;b>` step) or of the checksum, a truncated checksum, a character outside the charset
    good = D.add_checksum(text.partition("#")[0])
    body, _, cs = good.partition("#")
    k = rng.randrange(len(body))
    lt = body.index("<")
    for bad_text in [
        body[:k] + rng.choice([c for c in "0123456789abcdefgh" if c != body[k]]) + body[k + 1:] + "#" + cs,
        body[:lt + 1] + rng.choice([c for c in "0123456789" if c != body[lt + 1]]) + body[lt + 2:] + "#" + cs,
        body + "#" + cs[:3] + rng.choice([c for c in D.CHECKSUM_CHARSET if c != cs[3]]) + cs[4:],
        body + "#" + cs[:-1],
        body.replace("(", "(\u00e9", 1) + "#" + cs,
    ]:
        ctx.check("multipath", {"text": bad_text, "network": net, "expect": None}, key="multipath.checksum_not_verified")


TYPES4 = ["p2pkh", "p2wpkh-p2sh", "p2wpkh", "p2tr"]


def _ops_for(rng, last, adds):
    """a random interleaving of address / script_pub_key / next_address / position_of on both chains, with the
    loose-key adds spread through it."""
    ops = []
    for _ in range(rng.choice([6, 9])):
        b, i = rng.choice([0, 1]), rng.randint(0, last)
        ops.append(rng.choice([("addr", b, i), ("spk", b, i), ("next", b), ("pos", b, i), ("next", b)]))
    for a in adds:
        ops.insert(rng.randint(1, len(ops)), a)
    return ops + [("pos", 0, 0), ("next", 0), ("next", 1)]


def wallet_ops_batch(ctx, wlines):
    """op sequences on the four wallet kinds; and every wallet kind x template x network: the addresses."""
    rng = ctx.rng
    for net in NETS:
        g = Gen(rng, net)
        coin = 0 if net == "mainnet" else 1
        loose = [g.fixed_key(xonly_ok=False, uncompressed_ok=False, canonical=True).sec.hex() for _ in range(3)]
        for t1 in TYPES4:
            xprv, _ = rng.choice(g.roots)
            purpose = {"p2pkh": 44, "p2wpkh-p2sh": 49, "p2wpkh": 84, "p2tr": 86}[t1]
            path = f"m/{purpose}h/{coin}h/{rng.randrange(3)}h"
            acct = bip32.derive(xprv, path)
            xkey = rng.choice([acct, bip32.xpub_from_xprv(acct)])
            last = rng.choice([2, 4])
            for t2 in TYPES4:        # every (wallet type, added key type) pair
                if net != "mainnet" and rng.random() < 0.6 and ctx.tier != "thorough":
                    continue
                adds = [("add", loose[0], t2), ("add", loose[1], None)]
                w = {"kind": "bip32", "xkey": xkey, "path": path, "script_type": t1, "last": last,
                     "ops": _ops_for(rng, last, adds)}
                ctx.check("wallet.ops", w, key="wallet.ops.bip32")
                ctx.count("wallet.ops", f"bip32:{t1}+{t2}")
                # the same through the model: the wallet AFTER the adds still derives what its source says
                wal = _build_wallet(w)
                xt = T(wal._xkey.b58encode())
                for a in adds:
                    wal.add(bytes.fromhex(a[1]), a[2])
                for b, i in [(0, 0), (1, last)]:
                    _ctx_line(wlines, f"w.bip32 {t1} {xt} {b} {i}", lambda b=b, i=i: wal.script_pub_key(b, i).script)
                    q = _SCAN_CTX[wlines[-1]]
                    if q.startswith("ok "):
                        sc = bytes.fromhex(q[3:])
                        # the wallet's network is the extended key's own (a tpub says testnet, whatever chain it is used on)
                        _ctx_line(wlines, f"addr {wal.network} {hx(sc)}", lambda b=b, i=i: [T(wal.address(b, i))])
                        _ctx_line(wlines, f"w.bip32.pos {t1} {xt} {last} {hx(sc)}", lambda sc=sc: wal.position_of(sc, last))
            # loose-key wallets: every pair again
            for t2 in TYPES4:
                w = {"kind": "key", "script_type": t1, "network": net, "keys": [loose[2]], "last": 0,
                     "ops": [("add", loose[0], t2), ("add", loose[1], None), ("add", loose[0], t1)]}
                ctx.check("wallet.ops", w, key="wallet.ops.key")
                ctx.count("wallet.ops", "key")
            # account descriptor wallet and descriptor-text wallet
            w = {"kind": "account", "xkey": xkey, "path": path, "fp": bip32.fingerprint(xprv).hex(), "last": last,
                 "ops": _ops_for(rng, last, [])}
            ctx.check("wallet.ops", w, key="wallet.ops.descriptor")
            ctx.check("wallet.address", dict(w, ask=[(0, 0), (1, last)]), key="wallet.address.network")
            ctx.check("wallet.address", {"kind": "bip32", "xkey": xkey, "path": path, "script_type": t1,
                                         "ask": [(0, 0), (1, last)]}, key="wallet.address.network")
            ctx.count("wallet.ops", "descriptor(account)")
        for f in ["pkh", "wpkh", "sh-wpkh", "tr", "wsh-multi", "sh-multi", "sh-wsh-multi", "rawtr", "pk"]:
            k = g.xkey(allow_hardened=False, canonical=True, ranged=False)
            k2 = g.xkey(allow_hardened=False, canonical=True, ranged=False)

            def mp(kk):
                return KeySpec("x", kk.text + "/<0;1>/*", xpub=kk.xpub, path=list(kk.path), wildcard=0)
            a_, b_ = mp(k), mp(k2)
            text = {"pkh": f"pkh({a_.text})", "wpkh": f"wpkh({a_.text})", "sh-wpkh": f"sh(wpkh({a_.text}))",
                    "tr": f"tr({a_.text})", "wsh-multi": f"wsh(multi(1,{a_.text},{b_.text}))",
                    "sh-multi": f"sh(sortedmulti(2,{a_.text},{b_.text}))",
                    "sh-wsh-multi": f"sh(wsh(multi(2,{a_.text},{b_.text})))", "rawtr": f"rawtr({a_.text})",
                    "pk": f"pk({a_.text})"}[f]
            last = 2
            w = {"kind": "desc", "text": text, "network": net, "prv": None, "last": last, "ops": _ops_for(rng, last, [])}
            if f != "pk":
                ctx.check("wallet.ops", w, key="wallet.ops.descriptor")
            else:   # no address: script_pub_key / position_of only
                ctx.check("wallet.ops", dict(w, ops=[("spk", 0, 1), ("pos", 1, 2), ("spk", 1, 0), ("pos", 0, 1)]),
                          key="wallet.ops.descriptor")
            ctx.check("wallet.address", dict(w, ask=[(0, 0), (1, last)]), key="wallet.address.network")
            ctx.count("wallet.ops", f"descriptor:{f}")
        # script-template wallets: every embedding x every order x both shapes
        for stype in ["p2sh", "p2wsh", "p2sh-p2wsh"]:
            for order in ["none", "account", "derived"]:
                accts = []
                for _ in range(2):
                    a = bip32.derive(rng.choice(g.roots)[0], f"m/48h/{coin}h/{rng.randrange(50)}h")
                    accts.append(rng.choice([a, bip32.xpub_from_xprv(a)]))
                shape = rng.choice(["plain", "timelock"])
                tmpl = [{"k": rng.randint(1, 2), "keys": accts}] if shape == "plain" else \
                    ["OP_IF", {"k": 2, "keys": accts}, "OP_ELSE", "hex:9000", "OP_CHECKSEQUENCEVERIFY", "OP_DROP",
                     {"k": 1, "keys": accts[:1]}, "OP_ENDIF"]
                last = 2
                w = {"kind": "script", "template": tmpl, "script_type": stype, "order": order, "network": net,
                     "last": last, "ops": _ops_for(rng, last, [])}
                ctx.check("wallet.ops", w, key="wallet.ops.script")
                ctx.check("wallet.address", dict(w, ask=[(0, 0), (1, last)]), key="wallet.address.network")
                ctx.count("wallet.ops", f"script:{stype}")
                wal = _build_wallet(w)
                for b, i in [(0, 0), (1, last)]:
                    sc = wal.script_pub_key(b, i).script
                    _ctx_line(wlines, f"addr {wal.network} {hx(sc)}", lambda b=b, i=i: [T(wal.address(b, i))])


def _ctx_line(lines, ln, fn):
    """a wallet op line answered by the real wallet object (kept in _SCAN_CTX for impl())."""
    try:
        v = fn()
        out = "ok None" if v is None else ("ok " + (hx(v) if isinstance(v, bytes) else " ".join(str(x) for x in v)))
    except Exception as e:  # noqa: BLE001
        out = _err(e)
    _SCAN_CTX[ln] = out
    lines.append(ln)


def _atoms_join(texts):
    """atoms of several descriptor texts (each judged on its own: an addr() argument is one atom)."""
    seen, out = set(), []
    for t_ in texts:
        a = atoms_for(t_)
        if a == "_":
            continue
        for e in a.split(";"):
            if e not in seen:
                seen.add(e)
                out.append(e)
    return ";".join(out) if out else "_"


def wallet_labels_batch(ctx):
    """DescriptorWallet(Mapping[int, Descriptor]): arbitrary labels (sparse, large, written in any order), the
    constructor's refusals (negative label, combo(), descriptors of different networks, a first chain that cannot be
    derived), position_of answering the LABEL in ascending-label search order, script_pub_key of a label the wallet
    holds / does not hold.  Model: descWalletNew / walletChains / chainsPositionOf / chainsScriptPubKey."""
    rng = ctx.rng
    lines = []
    kinds = ["wpkh", "tr", "pkh", "sh-wpkh", "wsh-multi", "rawtr", "pk", "fixed-pkh", "raw"]
    for net in NETS[:3]:
        g = Gen(rng, net)
        other = rng.choice([n_ for n_ in NETS if NETWORKS[n_].hrp != NETWORKS[net].hrp] or [net])
        for _ in range(ctx.n(14, 120)):
            def chain(kind):
                k = g.xkey(allow_hardened=False, canonical=True, ranged=True)
                k2 = g.xkey(allow_hardened=False, canonical=True, ranged=True)
                if kind == "fixed-pkh":
                    return ("pkh", g.fixed_key(xonly_ok=False, uncompressed_ok=False, canonical=True))
                if kind == "raw":
                    return None
                return {"wpkh": ("wpkh", k), "tr": ("tr", k, None), "pkh": ("pkh", k), "sh-wpkh": ("sh", ("wpkh", k)),
                        "wsh-multi": ("wsh", ("multi", 1, [k, k2])), "rawtr": ("rawtr", k), "pk": ("pk", k)}[kind]
            n_ch = rng.choice([1, 2, 2, 3, 4])
            labels = rng.sample([0, 1, 2, 3, 5, 7, 11, 100, 65535, 65536, 2 ** 31 - 1, 2 ** 31, 2 ** 40], n_ch)
            texts_, nets_ = [], []
            for _k in range(n_ch):
                kind = rng.choice(kinds)
                sp = chain(kind)
                texts_.append("raw(" + common.rand_bytes(rng, rng.choice([1, 22, 34])).hex() + ")" if sp is None
                              else spec_text(sp))
                nets_.append(net)
            mode = rng.random()
            if mode < 0.10:
                labels[rng.randrange(n_ch)] = -rng.choice([1, 2, 2 ** 31])
            elif mode < 0.18:
                texts_[rng.randrange(n_ch)] = "combo(" + g.xkey(allow_hardened=False, canonical=True, ranged=True).text + ")"
            elif mode < 0.28 and other != net:
                # an addr() of another network among the chains (its network is its address's), or a chain parsed for another
                j = rng.randrange(n_ch)
                if rng.random() < 0.5:
                    texts_[j] = "addr(" + ScriptPubKey(serialize(["OP_0", common.rand_bytes(rng, 20)]), other).address + ")"
                else:
                    nets_[j] = other
            elif mode < 0.36:
                # the chain under the SMALLEST label cannot be derived without private keys: refused at construction
                j = labels.index(min(labels))
                k = g.xkey(allow_hardened=False, canonical=True, ranged=True)
                texts_[j] = "wpkh(" + k.xpub + "/*h)"
            order = list(range(n_ch))
            rng.shuffle(order)
            items = [(labels[j], nets_[j], texts_[j]) for j in order]
            try:
                parsed = [(b_, D.parse(t_, n_)) for b_, n_, t_ in items]
            except BTClibValueError:
                continue
            at = _atoms_join(texts_)
            itok = ";".join(f"{b_}@{n_}@{T(t_)}" for b_, n_, t_ in items)
            last = rng.choice([0, 1, 3])
            try:
                wal = DescriptorWallet(dict(parsed))
            except BTClibValueError:
                wal = None
            ctx.count("wallet.labels", "refused" if wal is None else f"{n_ch} chains")
            foreign = common.rand_bytes(rng, 23)
            qs = [foreign]
            ctx.check("wallet.labels", {"items": [list(x) for x in items], "last": last},
                      key="wallet.labels")
            if wal is not None:
                for b_ in wal.branches:
                    try:
                        qs.append(wal.script_pub_key(b_, last if wal.descriptor(b_).is_ranged else 0).script)
                    except BTClibValueError:
                        continue
            for q in qs:
                _ctx_line(lines, f"w.desc.map {at} _ {last} {hx(q)} {itok}",
                          (lambda q=q: wal.position_of(q, last)) if wal is not None
                          else (lambda: DescriptorWallet(dict(parsed))))
            asks = [(rng.choice(labels), rng.choice([0, last])), (rng.choice([0, 1, 4, 6, 2 ** 31 + 1, -1]), 0)]
            for b_, i_ in asks:
                def spk(b_=b_, i_=i_):
                    w_ = DescriptorWallet(dict(parsed))
                    head = ",".join(str(x) for x in w_.branches)
                    try:
                        return (head, w_.script_pub_key(b_, i_).script.hex())
                    except BTClibValueError:
                        return (head, "err")
                _ctx_line(lines, f"w.desc.mapspk {at} _ {itok} {b_} {i_}", spk)
    stream(ctx, "wallet.labels", lines)


def wallet_batch(ctx):
    rng = ctx.rng
    scan_lines = []
    wlines = []
    for net in NETS:
        g = Gen(rng, net)
        coin = 0 if net == "mainnet" else 1
        for purpose, stype in [(44, "p2pkh"), (49, "p2wpkh-p2sh"), (84, "p2wpkh"), (86, "p2tr")]:
            xprv, xpub = rng.choice(g.roots)
            path = f"m/{purpose}h/{coin}h/{rng.randrange(3)}h"
            acct_prv = bip32.derive(xprv, path)
            acct_pub = bip32.xpub_from_xprv(acct_prv)
            last = rng.choice([2, 5])
            ask = [(0, 0), (1, 0), (rng.choice([0, 1]), rng.randint(0, last)), (1, last)]
            foreign = [serialize(["OP_0", common.rand_bytes(rng, 20)]).hex(), common.rand_bytes(rng, 25).hex()]
            xkey = rng.choice([xprv, acct_prv, acct_pub])
            fp = bip32.fingerprint(xprv).hex()
            w1 = {"kind": "bip32", "xkey": xkey, "path": path, "last": last, "ask": ask, "foreign": foreign,
                  "beyond": True}
            ctx.check("wallet", w1)
            ctx.count("wallet", "bip32")
            kw_ = _build_wallet(w1)
            xt = T(kw_._xkey.b58encode())
            for b, i in ask + [(0, 0xFFFF), (0, 0x10000), (2, 0)]:
                _ctx_line(wlines, f"w.bip32 {stype} {xt} {b} {i}", lambda b=b, i=i: kw_.script_pub_key(b, i).script)
            own = kw_.script_pub_key(1, last).script
            for q in (own, kw_.script_pub_key(0, 0).script, bytes.fromhex(foreign[0])):
                _ctx_line(wlines, f"w.bip32.pos {stype} {xt} {last} {hx(q)}", lambda q=q: kw_.position_of(q, last))
            for b, i in [(0, H - 1), (0, H), (H, 0), (1, 0xFFFF)]:
                _ctx_line(wlines, f"w.bip32 {stype} {xt} {b} {i}", lambda b=b, i=i: kw_.script_pub_key(b, i).script)
            if purpose == 84:
                # last_index past what an account wallet derives: a match found first is answered ...
                q3 = kw_.script_pub_key(0, 3).script
                _ctx_line(wlines, f"w.bip32.pos {stype} {xt} {0x10000} {hx(q3)}", lambda: kw_.position_of(q3, 0x10000))
                ctx.check("wallet.raise", {"kind": "bip32", "xkey": xkey, "path": path, "last": 0x10000,
                                           "own": q3.hex(), "own_pos": [0, 3], "raises": []})
                if ctx.tier == "thorough" and net == "mainnet":
                    # ... and the scan of branch 0 runs into index 65536 before it reaches (1, 0): raise
                    q10 = kw_.script_pub_key(1, 0).script
                    _ctx_line(wlines, f"w.bip32.pos {stype} {xt} {0x10000} {hx(q10)}", lambda: kw_.position_of(q10, 0x10000))
                    ctx.check("wallet.raise", {"kind": "bip32", "xkey": xkey, "path": path, "last": 0x10000,
                                               "own": q3.hex(), "own_pos": [0, 3], "raises": [q10.hex()]})
            w2 = {"kind": "account", "xkey": xkey, "path": path, "fp": fp, "last": last, "ask": ask,
                  "foreign": foreign, "beyond": True}
            ctx.check("wallet", w2)
            ctx.count("wallet", "descriptor(account)")
            expect = {}
            for b, i in ask:
                ks = KeySpec("x", "", xpub=acct_pub, path=[b, i])
                spec = {"p2pkh": ("pkh", ks), "p2wpkh-p2sh": ("sh", ("wpkh", ks)), "p2wpkh": ("wpkh", ks),
                        "p2tr": ("tr", ks, None)}[stype]
                expect[f"{b}/{i}"] = _expected(spec, 0, net)[0]
            ctx.check("wallet.agree", {"xkey": xkey, "path": path, "fp": fp, "ask": ask, "expect": expect})
        # descriptor wallets from text (multipath and single chain)
        for _ in range(ctx.n(2, 12)):
            spec = g.script_expr("top", True)
            if spec[0] in ("combo", "addr"):
                continue
            text = spec_text(spec)
            prv = prv_keys_of(spec)
            if any(k.needs_prv for k in spec_keys(spec)) is False:
                prv = {}
            last = rng.choice([0, 2, 4])
            ranged = _ranged(spec)
            ask = [(0, 0), (0, last if ranged else 0)]
            foreign = [serialize(["OP_1", common.rand_bytes(rng, 32)]).hex()]
            ctx.check("wallet", {"kind": "desc", "text": text, "network": net, "prv": prv, "last": last if ranged else 0,
                                 "ask": ask, "foreign": foreign, "beyond": ranged})
            ctx.count("wallet", "descriptor(text)")
        # script template wallets
        for _ in range(ctx.n(2, 10)):
            n = rng.choice([2, 3])
            accts = []
            for _ in range(n):
                xprv, _ = rng.choice(g.roots)
                a = bip32.derive(xprv, f"m/48h/{coin}h/{rng.randrange(50)}h")
                accts.append(rng.choice([a, bip32.xpub_from_xprv(a)]))
            k = rng.randint(1, n)
            order = rng.choice(["none", "account", "derived"])
            stype = rng.choice(["p2sh", "p2wsh", "p2sh-p2wsh"])
            shape = rng.choice(["plain", "timelock"])
            if shape == "plain":
                tmpl = [{"k": k, "keys": accts}]
            else:
                rec = bip32.xpub_from_xprv(bip32.derive(rng.choice(g.roots)[0], f"m/48h/{coin}h/99h"))
                tmpl = ["OP_IF", {"k": k, "keys": accts}, "OP_ELSE", "hex:9000", "OP_CHECKSEQUENCEVERIFY", "OP_DROP",
                        {"k": 1, "keys": [rec]}, "OP_ENDIF"]
            last = rng.choice([2, 4])
            ask = [(0, 0), (1, 1), (rng.choice([0, 1]), last)]
            w = {"kind": "script", "template": tmpl, "script_type": stype, "order": order, "network": net,
                 "last": last, "ask": ask, "foreign": [serialize(["OP_0", common.rand_bytes(rng, 32)]).hex()],
                 "beyond": True}
            ctx.check("wallet", w)
            ctx.count("wallet", "script")
            # the scan itself, against the model
            wal = _build_wallet(w)
            toks = []
            for c in wal.template:
                if isinstance(c, KeyGroup):
                    toks.append(f"g:{c.threshold}:{1 if c.verify else 0}:" + "+".join(T(k.b58encode()) for k in c.keys))
                else:
                    toks.append("b:" + hx(serialize([c])))
            tm = ";".join(toks)
            for b, i in ask + [(0, 0xFFFF), (1, 0x10000)]:
                _ctx_line(wlines, f"w.script {stype} {order} {tm} {b} {i}",
                          lambda b=b, i=i: wal.script_pub_key(b, i).script)
            for q in (wal.script_pub_key(1, last).script, bytes.fromhex(w["foreign"][0])):
                _ctx_line(wlines, f"w.script.pos {stype} {order} {tm} {last} {hx(q)}", lambda q=q: wal.position_of(q, last))
            table = [[wal.script_pub_key(b, i).script for i in range(last + 1)] for b in wal.branches]
            ids = {}
            for row in table:
                for s in row:
                    ids.setdefault(s, len(ids) + 1)
            tok = "|".join(",".join(str(ids[s]) for s in row) for row in table)
            for q in [table[1][last], table[0][0], bytes.fromhex(w["foreign"][0])]:
                ln = f"scan.pos {last} {ids.get(q, 10 ** 6)} {tok}"
                got = wal.position_of(q, last)
                _SCAN_CTX[ln] = "ok None" if got is None else f"ok {wal.branches.index(got[0])} {got[1]}"
                scan_lines.append(ln)
    stream(ctx, "scan.pos", scan_lines)

    # descriptor wallets with several chains of mixed rangedness: DescriptorWallet.position_of vs the model
    lines = []
    g = Gen(rng, "mainnet")
    for _ in range(ctx.n(8, 60)):
        chains = []
        for _ in range(rng.choice([1, 2, 3])):
            spec = g.script_expr("top", True)
            while spec[0] in ("combo", "addr") or any(k.needs_prv for k in spec_keys(spec)):
                spec = g.script_expr("top", True)
            chains.append(D.parse(spec_text(spec), "mainnet"))
        wal = DescriptorWallet(chains)
        last = rng.choice([0, 2, 3])
        table = [[[s.script for s in d.script_pub_keys(i)] for i in range((last if d.is_ranged else 0) + 1)]
                 for d in chains]
        ids = {}
        for br in table:
            for row in br:
                for s in row:
                    ids.setdefault(s, len(ids) + 1)
        tok = "|".join(";".join(",".join(str(ids[s]) for s in row) for row in br) for br in table)
        flags = ",".join("1" if d.is_ranged else "0" for d in chains)
        for q in [table[-1][-1][0], table[0][0][0], common.rand_bytes(rng, 30)]:
            ln = f"scan.dpos {last} {ids.get(q, 10 ** 6)} {flags} {tok}"
            got = wal.position_of(q, last)
            _SCAN_CTX[ln] = "ok None" if got is None else f"ok {wal.branches.index(got[0])} {got[1]}"
            lines.append(ln)
    stream(ctx, "scan.dpos", lines)

    # the scan order itself: scripts that repeat across positions, chains that repeat
    from btclib.wallet.wallet import RangedWallet

    class TableWallet(RangedWallet):
        """RangedWallet over a table of scripts: the base class's own position_of, scripts repeating."""

        def __init__(self, table):
            super().__init__("mainnet")
            self.table = table
            self.script_type = "table"

        @property
        def branches(self):
            return tuple(range(len(self.table)))

        @property
        def is_watch_only(self):
            return True

        def _script_pub_key(self, branch, index):
            return ScriptPubKey(self.table[branch][index], "mainnet", check_validity=False)

    lines = []
    pool = [serialize(["OP_0", bytes([i]) * 20]) for i in range(5)]
    for _ in range(ctx.n(40, 400)):
        nb, last = rng.choice([1, 2, 3]), rng.choice([0, 1, 3])
        table = [[rng.choice(pool[:4]) for _ in range(last + 1)] for _ in range(nb)]
        wal = TableWallet(table)
        ids = {p_: i + 1 for i, p_ in enumerate(pool)}
        tok = "|".join(",".join(str(ids[s_]) for s_ in row) for row in table)
        for q in pool:
            ln = f"scan.pos {last} {ids[q]} {tok}"
            got = wal.position_of(q, last)
            _SCAN_CTX[ln] = "ok None" if got is None else f"ok {got[0]} {got[1]}"
            lines.append(ln)
    stream(ctx, "scan.pos.table", lines)

    class HoleWallet(TableWallet):
        """a position the table marks None cannot be derived: the BTClibValueError a real wallet raises there."""

        def _script_pub_key(self, branch, index):
            if index >= len(self.table[branch]) or self.table[branch][index] is None:
                raise BTClibValueError(f"invalid index: {index}")
            return super()._script_pub_key(branch, index)

    lines = []
    for _ in range(ctx.n(60, 600)):
        nb, ln = rng.choice([1, 2, 3]), rng.choice([1, 2, 4])
        last = rng.choice([0, ln - 1, ln, ln + 3])
        table = [[(None if rng.random() < 0.2 else rng.choice(pool[:4])) for _ in range(ln)] for _ in range(nb)]
        wal = HoleWallet(table)
        ids = {p_: i + 1 for i, p_ in enumerate(pool)}
        tok = "|".join(",".join("x" if s_ is None else str(ids[s_]) for s_ in row) for row in table)
        for q in pool:
            _ctx_line(lines, f"scan.posE {last} {ids[q]} {tok}", lambda q=q: wal.position_of(q, last))
    stream(ctx, "scan.posE", lines)
    lines = []
    for _ in range(ctx.n(10, 80)):
        spec = g.script_expr("top", True)
        while spec[0] in ("combo", "addr") or any(k.needs_prv for k in spec_keys(spec)):
            spec = g.script_expr("top", True)
        d0 = D.parse(spec_text(spec), "mainnet")
        chains = [d0, d0] if rng.random() < 0.5 else [d0, D.parse(spec_text(g.script_expr("top", True)).replace("combo", "pkh"), "mainnet"), d0]
        try:
            wal = DescriptorWallet(chains)
        except BTClibValueError:
            continue
        last = rng.choice([0, 2])
        try:
            table = [[[s_.script for s_ in d.script_pub_keys(i)] for i in range((last if d.is_ranged else 0) + 1)]
                     for d in chains]
        except BTClibValueError:
            continue
        ids = {}
        for br in table:
            for row in br:
                for s_ in row:
                    ids.setdefault(s_, len(ids) + 1)
        tok = "|".join(";".join(",".join(str(ids[s_]) for s_ in row) for row in br) for br in table)
        flags = ",".join("1" if d.is_ranged else "0" for d in chains)
        for q in [table[-1][-1][0], table[0][0][0]]:
            if not q:
                continue
            ln = f"scan.dpos {last} {ids[q]} {flags} {tok}"
            got = wal.position_of(q, last)
            _SCAN_CTX[ln] = "ok None" if got is None else f"ok {wal.branches.index(got[0])} {got[1]}"
            lines.append(ln)
    stream(ctx, "scan.dpos.repeated", lines)

    # descriptor wallets of mixed script types, and chains that cannot be derived without the private keys
    for net in NETS[:2]:
        g = Gen(rng, net)
        for _ in range(ctx.n(8, 60)):
            def chain(kind, hardened=False):
                k = g.xkey(allow_hardened=False, canonical=True, ranged=True)
                if hardened:   # `/*h` with the xpub written: underivable without prv_keys
                    k = KeySpec("x", k.xpub + "/*h", xprv=k.xprv, xpub=k.xpub, path=[], wildcard=H)
                k2 = g.xkey(allow_hardened=False, canonical=True, ranged=True)
                return {"wpkh": ("wpkh", k), "tr": ("tr", k, None), "pkh": ("pkh", k), "sh-wpkh": ("sh", ("wpkh", k)),
                        "wsh-multi": ("wsh", ("multi", 1, [k, k2])), "rawtr": ("rawtr", k), "pk": ("pk", k)}[kind]
            kinds = rng.sample(["wpkh", "tr", "pkh", "sh-wpkh", "wsh-multi", "rawtr", "pk"], rng.choice([2, 3]))
            specs_ = [chain(k_) for k_ in kinds]
            texts_ = [spec_text(sp) for sp in specs_]
            last = rng.choice([1, 3])
            ask = [(b, i) for b in range(len(texts_)) for i in (0, last)]
            ctx.check("wallet", {"kind": "descs", "texts": texts_, "network": net, "last": last, "ask": ask,
                                 "foreign": [serialize(["OP_1", common.rand_bytes(rng, 32)]).hex()], "beyond": True},
                      key="wallet.descriptor.mixed_types")
            ctx.count("wallet", "descriptor(mixed types)")
            at = atoms_for(",".join(texts_))
            wal = DescriptorWallet([D.parse(t_, net) for t_ in texts_])
            for b, i in ask[-2:]:
                q = wal.script_pub_key(b, i).script
                _ctx_line(wlines, f"w.desc.pos {at} _ {net} {last} {hx(q)} " + ";".join(T(t_) for t_ in texts_),
                          lambda q=q: wal.position_of(q, last))
            # a later chain that needs private keys nobody gave: found-before is answered, anything else raises
            hard = chain(rng.choice(["wpkh", "tr"]), hardened=True)
            texts_h = [texts_[0], spec_text(hard)]
            try:
                walh = DescriptorWallet([D.parse(t_, net) for t_ in texts_h])
            except BTClibValueError:
                continue
            own = walh.script_pub_key(0, last).script
            foreign = common.rand_bytes(rng, 23)
            ctx.check("wallet.raise", {"kind": "descs", "texts": texts_h, "network": net, "last": last,
                                       "own": own.hex(), "own_pos": [0, last], "raises": [foreign.hex()]})
            ath = atoms_for(",".join(texts_h))
            for q in (own, foreign):
                _ctx_line(wlines, f"w.desc.pos {ath} _ {net} {last} {hx(q)} " + ";".join(T(t_) for t_ in texts_h),
                          lambda q=q: walh.position_of(q, last))
            prvh = {hard[1].xpub: hard[1].xprv}
            walp = DescriptorWallet([D.parse(t_, net) for t_ in texts_h], prvh)
            ptok = ";".join(f"{T(a)}={T(b)}" for a, b in prvh.items())
            qh = walp.script_pub_key(1, last).script
            for q in (qh, foreign):
                _ctx_line(wlines, f"w.desc.pos {ath} {ptok} {net} {last} {hx(q)} " + ";".join(T(t_) for t_ in texts_h),
                          lambda q=q: walp.position_of(q, last))

    # descriptor wallets end to end: parse + derive + scan, all in the model
    g = Gen(rng, "mainnet")
    for _ in range(ctx.n(8, 60)):
        ctexts, prv = [], {}
        for _ in range(rng.choice([1, 2])):
            spec = g.script_expr("top", True)
            while spec[0] in ("combo", "addr", "raw"):
                spec = g.script_expr("top", True)
            ctexts.append(spec_text(spec))
            if any(k.needs_prv for k in spec_keys(spec)):
                prv.update(prv_keys_of(spec))
        try:
            wal = DescriptorWallet([D.parse(t_, "mainnet") for t_ in ctexts], prv or None)
        except BTClibValueError:
            continue
        last = rng.choice([0, 1, 2])
        prv_tok = ";".join(f"{T(a)}={T(b)}" for a, b in prv.items()) if prv else "_"
        at = atoms_for("|".join(ctexts).replace("|", ","))
        b_ = wal.branches[-1]
        d_ = wal.descriptor(b_)
        try:
            own = wal.script_pub_key(b_, last if d_.is_ranged else 0).script
        except BTClibValueError:
            continue
        for q in (own, common.rand_bytes(rng, 22)):
            _ctx_line(wlines, f"w.desc.pos {at} {prv_tok} mainnet {last} {hx(q)} " + ";".join(T(t_) for t_ in ctexts),
                      lambda q=q: wal.position_of(q, last))
    wallet_ops_batch(ctx, wlines)
    stream(ctx, "wallet.model", wlines)

    # loose keys: a KeyWallet hands out one address per key and remembers it
    for net in NETS[:2]:
        g = Gen(rng, net)
        for stype in ["p2pkh", "p2wpkh", "p2wpkh-p2sh", "p2tr"]:
            k = g.fixed_key(xonly_ok=False, uncompressed_ok=False, canonical=True)
            kw = KeyWallet([k.sec], stype, net)
            (addr,) = kw.addresses
            spec = {"p2pkh": ("pkh", k), "p2wpkh-p2sh": ("sh", ("wpkh", k)), "p2wpkh": ("wpkh", k),
                    "p2tr": ("tr", k, None)}[stype]
            ok = ScriptPubKey.from_address(addr).script.hex() == _expected(spec, 0, net)[0] and addr in kw and \
                _addr_network_ok(addr, bytes.fromhex(_expected(spec, 0, net)[0]), net)[0]
            ctx.oracle("wallet.key", ok, f"KeyWallet {stype} address {addr}",
                       witness={"oracle": "wallet.key", "witness": {"sec": k.sec.hex(), "type": stype, "network": net}})
            ctx.count("wallet", "key")
            _ctx_line(wlines, f"w.key {stype} {hx(k.sec)}", lambda addr=addr: ScriptPubKey.from_address(addr).script)


_MS_WSH = [
    "and_v(v:pk(@0),older(144))", "or_d(pk(@0),and_v(v:pkh(@1),after(500000)))", "thresh(2,pk(@0),s:pk(@1),s:pk(@2))",
    "andor(pk(@0),older(10),pk(@1))", "and_v(v:multi(1,@0,@1),sha256(#))", "or_i(and_v(v:pk(@0),after(7)),pk(@1))",
    "and_v(v:pk(@0),pk(@1))", "c:pk_k(@0)", "and_b(pk(@0),s:pk(@1))", "t:or_c(pk(@0),v:pk(@1))",
    # refused by _assert_sane / typing
    "older(144)", "or_b(pk(@0),pk(@1))", "and_v(v:pk(@0),0)", "and_v(v:pk(@0),pk(@0))", "thresh(1,pk(@0))",
]
_MS_TAP = [
    "and_v(v:pk(%0),older(10))", "or_d(pk(%0),and_v(v:pk(%1),after(100)))", "and_v(v:multi_a(1,%0,%1),older(5))",
    "c:pk_k(%0)", "older(5)", "and_v(v:pk(%0),pk(%0))",
]


def miniscript_lines(ctx):
    """miniscripts over raw keys (C15's model inside this one): parse + str, derivation, mutations."""
    rng = ctx.rng
    secs = []
    for _ in range(3):
        P = mult(1 + rng.randrange(secp256k1.n - 1))
        secs.append(bytes([2 + (P[1] & 1)]) + P[0].to_bytes(32, "big"))
    digest = common.rand_bytes(rng, 32).hex()
    parse_lines, spk_lines = [], []

    def fill(t):
        for i, k in enumerate(secs):
            t = t.replace(f"@{i}", k.hex()).replace(f"%{i}", k[1:].hex())
        return t.replace("#", digest)
    texts = [f"wsh({fill(m)})" for m in _MS_WSH] + [f"sh(wsh({fill(_MS_WSH[0])}))", fill(_MS_WSH[0]), f"sh({fill(_MS_WSH[0])})"]
    x = secs[0][1:].hex()
    texts += [f"tr({x},{fill(m)})" for m in _MS_TAP] + [f"tr({x},{{{fill(_MS_TAP[0])},pk({secs[1][1:].hex()})}})"]
    for t in texts:
        at = atoms_for(t)
        parse_lines.append(f"parse {at} {T(t)}")
        spk_lines.append(f"desc.spk {at} _ {T(t)} 0 mainnet")
        for _ in range(ctx.n(4, 20)):
            m = mutate(rng, t)
            parse_lines.append(f"parse {atoms_for(m)} {T(m)}")
    ctx.count("parse", "miniscript-raw-keys", len(texts))
    return parse_lines, spk_lines


_MS = [
    "wsh(and_v(v:pk(@0/*),older(144)))",
    "wsh(or_d(pk(@0/0/*),and_v(v:pkh(@1/0/*),after(500000))))",
    "wsh(thresh(2,pk(@0/*),s:pk(@1/*),s:pk(@2/*)))",
    "tr(@0/*,and_v(v:pk(@1/*),older(10)))",
    "tr(@0/*,{pk(@1/*),multi_a(2,@1/1/*,@2/1/*)})",
]
_MUSIG = [
    "tr(musig(@0,@1)/0/*)",
    "tr(musig(@0/0/*,@1/0/*))",
    "rawtr(musig(@0,@1,@2)/1/*)",
    "tr(@0/*,pk(musig(@1,@2)/0/*))",
]


def musig_lines(ctx):
    """`_parse_musig` on musig() key expressions built from generated participants, and mutations."""
    rng = ctx.rng
    g = Gen(rng, "mainnet")
    lines = []
    for _ in range(ctx.n(40, 300)):
        n = rng.choice([1, 2, 3])
        derives = rng.random() < 0.5
        ks = []
        for _ in range(n):
            if derives:
                k = g.xkey(allow_hardened=False, canonical=rng.random() < 0.7, ranged=False if rng.random() < 0.9 else True)
            else:
                k = g.key(canonical=rng.random() < 0.7, allow_hardened=False)
            ks.append(k.text)
        text = "musig(" + ",".join(ks) + ")"
        if derives:
            text += "".join(f"/{rng.choice([0, 1, 7, H - 1, H])}" for _ in range(rng.choice([0, 1, 2])))
            text += rng.choice(["", "/*", "/*", "/*h", "/1h"])
        for m in [text] + [mutate(rng, text) for _ in range(2)]:
            if m.startswith("musig("):
                lines.append(f"musig {atoms_for(m)} {T(m)}")
    lines += [f"musig _ {T(x)}" for x in ["musig()", "musig(", "musig()/0", "musig(,)", "musig())", "musig()x"]]
    return lines


def musig_derive_batch(ctx):
    """tr / rawtr / pk(musig()) leaves with 1, 2, 3 participants and duplicates: the scripts are those of the
    BIP327 aggregate (hand KeyAgg above) — a single participant is NOT its own aggregate."""
    rng = ctx.rng
    for net in ["mainnet", "testnet"]:
        g = Gen(rng, net)
        for _ in range(ctx.n(7, 60)):
            n = rng.choice([1, 1, 2, 3])
            agg_derives = rng.random() < 0.4
            parts = []
            for _ in range(n):
                if agg_derives:
                    parts.append(g.xkey(allow_hardened=False, canonical=True, ranged=False))
                elif rng.random() < 0.5:
                    parts.append(g.xkey(allow_hardened=False, canonical=True, ranged=rng.random() < 0.6))
                else:
                    parts.append(g.fixed_key(xonly_ok=False, uncompressed_ok=False, canonical=True))
            if n > 1 and rng.random() < 0.3:
                parts[-1] = parts[0]                    # a duplicate participant
            if agg_derives:
                m = MusigSpec(parts, [rng.randrange(50) for _ in range(rng.choice([0, 1, 2]))],
                              0 if rng.random() < 0.7 else None, net)
                if not m.path and m.wildcard is None:
                    m = MusigSpec(parts, [3], None, net)
            else:
                m = MusigSpec(parts, network=net)
            shape = rng.choice(["tr", "rawtr", "leaf", "multi_a"])
            other = g.fixed_key(xonly_ok=True, uncompressed_ok=False, canonical=True)
            spec = {"tr": ("tr", m, None), "rawtr": ("rawtr", m), "leaf": ("tr", other, ("pk", m)),
                    "multi_a": ("tr", other, ("branch", ("multi_a", 1, [m, other]), ("pk", m)))}[shape]
            text = spec_text(spec)
            ctx.count("musig", f"{n}-participants")
            for i in ([0, 1, H - 1] if _ranged(spec) else [0]):
                ctx.check("derive", {"text": text, "network": net, "prv": None, "index": i,
                                     "expect": _expected(spec, i, net)}, key="derive.musig")


def opaque_batch(ctx):
    rng = ctx.rng
    stream(ctx, "musig", musig_lines(ctx))
    musig_derive_batch(ctx)
    g = Gen(rng, "mainnet")
    xpubs = [bip32.xpub_from_xprv(bip32.derive(r[0], f"m/86h/0h/{i}h")) for i, r in enumerate(g.roots)]
    for tmpl in _MS + _MUSIG:
        text = tmpl
        for i, x in enumerate(xpubs):
            text = text.replace(f"@{i}", x)
        ctx.check("opaque.roundtrip", {"text": text, "network": "mainnet", "indexes": [0, 1, rng.randrange(50)]})
        ctx.count("opaque", "musig" if "musig" in tmpl else "miniscript")
