"""C15 solver oracle: the PSBT-side glue of btclib's miniscript support, on the real code alone.

What is exercised (btclib/descriptors/descriptors.py): `miniscript_solver`, `miniscript_sizer`,
`satisfaction_sizer`, each through the public entry point btclib documents for it:

    descriptors.parse("wsh(EXPR)")                      the descriptor of the output being spent
    Descriptor.update_psbt_input(psbt, 0)               BIP174 Updater: the witness script
    psbt.finalize(psbt, solver=miniscript_solver)       BIP174 Finalizer, the solver asked first
    psbt.extract_tx(final)                              BIP174 Extractor
    script.engine.verify_transaction([prevout], tx)     the judge
    psbt.estimated_input_sizes(psbt_in, tx_in, sizer=miniscript_sizer | satisfaction_sizer(keys))
    Psbt.weight_estimate(miniscript_sizer)              the number a fee is computed from

The psbt is what a real flow leaves before finalization: the unsigned transaction carrying
avail's version / nLockTime / nSequence, witness_utxo, the witness script and one key origin per
key of the expression (what an Updater writes, and what a pkh() needs to be readable at all),
partial_sigs holding REAL ECDSA signatures by exactly the available keys over the BIP143 sighash
of that very transaction, and the four BIP174 preimage maps holding the available preimages.

Property (oracle_solver):
  1. finalized  =>  the engine accepts the extracted transaction;
  2. c15_spend.condition false under avail  =>  not finalized.  The solver reads the spend
     context from the transaction it finalizes -- nLockTime, the input's nSequence AND the
     version: an older() in a version-1 transaction is not met (BIP68) -- so it must refuse
     rather than hand out a witness the engine rejects;
  3. the sizer bounds what was built.  What a SolutionSizer answers is the list of the byte
     length of every element of the witness stack, the witness script (last) included, WITHOUT
     the stack's count and WITHOUT the per-element length prefixes.  miniscript_sizer's list is
     Miniscript.max_witness_stack (the heaviest satisfaction, every signature 72 bytes =
     DER + sighash byte at its largest low-s size, every preimage 32) + len(witness_script); it
     reads neither signatures nor lock times, so it is a bound whatever avail is.  Compared like
     with like: both lists are put through the same function `wit_bytes` (the BIP144
     serialization size: varint(count) + sum(varint(len)+len)), and `sizer` >= `witness_size`
     is required; the last elements (the script's length) must be equal; and, at the level a fee
     is paid at, Psbt.weight_estimate(miniscript_sizer) >= the extracted transaction's weight.
     satisfaction_sizer(the keys that signed) is measured the same way (`sat_sizer`): it sizes
     the branch those keys build with 72-byte filler signatures, the input's preimages and the
     input's nSequence, but its SolutionSizer signature (psbt_in, tx_in) gives it neither the
     transaction's nLockTime (documented: after() is answered unmet) nor its VERSION
     (undocumented: SpendContext.version defaults to 2, so an older() in a version-1 transaction
     is sized as met).  Its clause `sat_sizer >= witness_size` is therefore enforced for
     version >= 2 only unless SAT_SIZER_STRICT is set; under version 1 an under-estimate is
     reported in the result (`sat_sizer_under`) and in the oracle's message, not failed.

Tapscript: miniscript_solver answers None for a taproot input (it reads PsbtIn.witness_script
and reads it in the P2WSH dialect; a tr() input has no witness script), and the generic
finalizer spends single-key leaves only.  solver_check builds the real tr(INTERNAL,EXPR) psbt
(leaf script, control block, PSBT_IN_TAP_SCRIPT_SIG with real BIP340 signatures, preimages),
asks the solver, and returns {"skipped": reason} while the answer is None; should a later
btclib answer, the same finalize / extract / verify path and the same clauses 1-2 apply.

`miniscript_solver` and the sizers are looked up on the module at every call, so an in-process
mutant installed on btclib.descriptors.descriptors is what gets run (see `mutant_no_version`).

Run `python -m harness.c15_solver` (cwd /verif) for the self test: the six reference
expressions under every c15_spend.all_avail assignment plus version-1 twins, timing, and the
seeded defect (SpendContext built without the transaction version).
"""
from __future__ import annotations

import contextlib
import inspect
import re
import sys
import time

import btclib.descriptors as _desc_pkg
from btclib.bip32.key_origin import BIP32KeyOrigin
from btclib.descriptors import descriptors as _desc
from btclib.exceptions import BTClibValueError
from btclib.psbt.psbt import Psbt, extract_tx, finalize
from btclib.psbt.psbt_size import estimated_input_sizes
from btclib.script.engine import verify_transaction
from btclib.var_int import serialize as _var_int

from harness import c15_spend as S
from harness.c15_spend import P2WSH, TAPSCRIPT

__all__ = ["solver_check", "oracle_solver", "ORACLES", "expand", "wit_bytes", "mutant_no_version"]

# enforce the satisfaction_sizer clause under version 1 too (see the module docstring)
SAT_SIZER_STRICT = False
# compare Psbt.weight_estimate(miniscript_sizer) with the extracted transaction's weight
CHECK_WEIGHT = True

_FINGERPRINT = "c15c15c1"
_TOKEN = re.compile(r"(?<=[(,])([KD])(\d+)(?=[,)])")
_HASH_BEFORE = re.compile(r"(sha256|hash256|ripemd160|hash160)\($")


def expand(expr: str, context: str = P2WSH) -> str:
    """K<i> -> the i-th pool key in the context's spelling, D<i> -> the i-th digest of the
    hash fragment it is the argument of.  An expression holding neither comes back unchanged."""
    if "K" not in expr and "D" not in expr:
        return expr

    def sub(m: re.Match) -> str:
        kind, i = m.group(1), int(m.group(2))
        if kind == "K":
            pool = S.XONLY if context == TAPSCRIPT else S.SEC
            return pool[i] if i < len(pool) else m.group(0)
        h = _HASH_BEFORE.search(expr[: m.start()])
        if h is None or i >= S.N_PRE:
            return m.group(0)
        return S.DIGEST[h.group(1)][i]

    return _TOKEN.sub(sub, expr)


def wit_bytes(sizes) -> int:
    """BIP144 serialization size of a witness stack whose elements have these lengths."""
    return len(_var_int(len(sizes))) + sum(len(_var_int(n)) + n for n in sizes)


# ------------------------------------------------------------------ what depends on (expr, context) alone
class _Static:
    __slots__ = ("p", "descriptor", "updater", "origins", "refused")


_STATIC: dict[tuple[str, str], _Static] = {}


def _static(expr: str, context: str) -> _Static:
    key = (expr, context)
    s = _STATIC.get(key)
    if s is not None:
        return s
    s = _Static()
    s.p = S._prepare(expr, context)            # raises what parse raises
    s.refused = ""
    text = f"tr({S.XONLY[S._INTERNAL]},{expr})" if context == TAPSCRIPT else f"wsh({expr})"
    try:
        s.descriptor = _desc.parse(text)
        s.updater = "descriptor"
        spk = s.descriptor.script_pub_key().script
        if spk != s.p.prevout.script_pub_key.script:
            raise AssertionError(f"descriptor pays to {spk.hex()}, c15_spend to "
                                 f"{s.p.prevout.script_pub_key.script.hex()}")
    except BTClibValueError as e:
        # a descriptor holds sane expressions only; the solver reads any witness script, so an
        # expression the descriptor refuses is still put to it, the Updater's part done by hand
        s.descriptor = None
        s.updater = "manual"
        s.refused = str(e)[:200]
    s.origins = {}
    if context != TAPSCRIPT:
        for j, k in enumerate(s.p.node.key_expressions):
            s.origins.setdefault(k.sec(), BIP32KeyOrigin(_FINGERPRINT, [j]))
    if len(_STATIC) > 4096:
        _STATIC.clear()
    _STATIC[key] = s
    return s


def _preimage_maps(avail) -> dict[str, dict[bytes, bytes]]:
    maps: dict[str, dict[bytes, bytes]] = {name: {} for name in S._HASHES}
    for i in dict.fromkeys(avail.get("preimages", ())):
        if 0 <= i < S.N_PRE:
            for name in S._HASHES:
                maps[name][bytes.fromhex(S.DIGEST[name][i])] = S.PREIMAGES[i]
    return maps


def _build_psbt(s: _Static, context: str, tx, avail) -> Psbt:
    p = s.p
    psbt = Psbt.from_tx(tx)
    psbt.inputs[0].witness_utxo = p.prevout
    if s.descriptor is not None:
        psbt = s.descriptor.update_psbt_input(psbt, 0)
    psbt_in = psbt.inputs[0]
    signatures = S._signatures(p, context, tx, avail)
    if context == TAPSCRIPT:
        if s.descriptor is None:
            psbt_in.taproot_internal_key = bytes.fromhex(S.XONLY[S._INTERNAL])
            psbt_in.taproot_merkle_root = p.leaf
            psbt_in.taproot_leaf_scripts = {p.control: (p.script, S._LEAF_VERSION)}
        # BIP371: keyed by the x-only key and the leaf hash the signature commits to
        psbt_in.taproot_script_spend_signatures = {pub + p.leaf: sig for pub, sig in signatures.items()}
    else:
        if s.descriptor is None:
            psbt_in.witness_script = p.script
        psbt_in.hd_key_paths = {**psbt_in.hd_key_paths, **s.origins}
        psbt_in.partial_sigs = signatures
    maps = _preimage_maps(avail)
    psbt_in.sha256_preimages = maps["sha256"]
    psbt_in.hash256_preimages = maps["hash256"]
    psbt_in.ripemd160_preimages = maps["ripemd160"]
    psbt_in.hash160_preimages = maps["hash160"]
    return psbt


def _refusal_kind(msg: str) -> str:
    if msg.startswith("no satisfaction of"):
        return "none"
    if msg.startswith("no non-malleable satisfaction of"):
        return "malleable"
    return "other"


def _sizes(psbt_in, tx_in, sizer):
    """estimated_input_sizes' witness list with this sizer, None where it has no estimate."""
    try:
        script_sig, witness = estimated_input_sizes(psbt_in, tx_in, sizer=sizer)
    except BTClibValueError:
        return None
    if script_sig:
        raise AssertionError(f"a native p2wsh input is estimated a script_sig of {script_sig} bytes")
    return list(witness)


def solver_check(expr: str, context: str, avail: dict) -> dict:
    """Finalize a psbt spending wsh(expr) / tr(K,expr) with what `avail` offers, through
    psbt.finalize(solver=miniscript_solver), and let the real engine judge what is extracted."""
    expr = expand(expr, context)
    s = _static(expr, context)
    p = s.p
    locktime = int(avail.get("locktime", 0))
    sequence = int(avail.get("sequence", 0))
    version = int(avail.get("version", 2))
    tx = S._tx(locktime, sequence, version)
    psbt = _build_psbt(s, context, tx, avail)
    psbt_in = psbt.inputs[0]
    unsigned = psbt.tx
    if (unsigned.version, unsigned.lock_time, unsigned.vin[0].sequence) != (version, locktime, sequence):
        raise AssertionError("the psbt's transaction does not carry avail's version/locktime/sequence")

    res = {
        "expr": expr, "context": context, "updater": s.updater, "descriptor_refusal": s.refused,
        "version": version, "locktime": locktime, "sequence": sequence,
        "n_signatures": len(psbt_in.partial_sigs) + len(psbt_in.taproot_script_spend_signatures),
        "solver_answered": None, "finalized": False, "refusal": None, "refusal_msg": "",
        "engine_ok": None, "engine_err": "",
        "witness": [], "witness_items": None, "witness_size": None,
        "sizer_items": None, "sizer": None, "sat_sizer_items": None, "sat_sizer": None,
        "sat_sizer_under": False, "weight": None, "weight_estimate": None,
        "cond": S.condition(p.node, context, avail),
    }

    answers: list = []

    def solver(a_psbt, vin_i):
        # the module attribute, read now: an in-process mutant is what runs
        answer = _desc.miniscript_solver(a_psbt, vin_i)
        answers.append(answer is not None)
        return answer

    if context == TAPSCRIPT:
        try:
            probe = _desc.miniscript_solver(psbt, 0)
        except BTClibValueError as e:
            probe = e
        if probe is None:
            res["solver_answered"] = False
            res["skipped"] = ("miniscript_solver answers None for a taproot script-path input: it reads "
                              "PsbtIn.witness_script in the P2WSH dialect only, and psbt.finalize's own "
                              "taproot path spends single-key leaves")
            return res
    else:
        res["sizer_items"] = _sizes(psbt_in, unsigned.vin[0], _desc.miniscript_sizer)
        if res["sizer_items"] is not None:
            res["sizer"] = wit_bytes(res["sizer_items"])
            if CHECK_WEIGHT:
                res["weight_estimate"] = psbt.weight_estimate(_desc.miniscript_sizer)
        signers = list(psbt_in.partial_sigs)
        res["sat_sizer_items"] = _sizes(psbt_in, unsigned.vin[0], _desc.satisfaction_sizer(signers))
        if res["sat_sizer_items"] is not None:
            res["sat_sizer"] = wit_bytes(res["sat_sizer_items"])

    try:
        final = finalize(psbt, solver=solver)
    except BTClibValueError as e:
        msg = str(e)
        res["solver_answered"] = answers[-1] if answers else None
        res["refusal_msg"] = msg[:300]
        res["refusal"] = _refusal_kind(msg)
        return res
    res["solver_answered"] = answers[-1] if answers else None
    res["finalized"] = True
    spending = extract_tx(final)
    stack = [bytes(e) for e in spending.vin[0].script_witness.stack]
    res["witness"] = [e.hex() for e in stack]
    res["witness_items"] = [len(e) for e in stack]
    res["witness_size"] = wit_bytes(res["witness_items"])
    if res["witness_size"] != len(spending.vin[0].script_witness.serialize()):
        raise AssertionError("wit_bytes disagrees with Witness.serialize")
    res["weight"] = spending.weight
    if res["sat_sizer"] is not None and res["sat_sizer"] < res["witness_size"]:
        res["sat_sizer_under"] = True
    try:
        verify_transaction([p.prevout], spending)
        res["engine_ok"] = True
    except Exception as e:  # noqa: BLE001 - the text is the observation
        res["engine_ok"] = False
        res["engine_err"] = f"{type(e).__name__}: {e}"[:400]
    return res


# ------------------------------------------------------------------ oracle
def _judge(r: dict) -> tuple[bool, str]:
    if "skipped" in r:
        return True, f"skipped: {r['skipped']}"
    fails, notes = [], []
    if r["refusal"] == "other":
        fails.append(f"finalize refused with an unexpected message: {r['refusal_msg']}")
    if r["solver_answered"] is False:
        # the witness script IS a miniscript and every key of it has an origin in the input
        notes.append("miniscript_solver answered None (the generic finalizer took the input)")
    if r["finalized"]:
        if not r["engine_ok"]:
            fails.append(f"finalized but engine rejects: {r['engine_err']}")
        if not r["cond"]:
            fails.append("condition is false under avail (version/locktime/sequence included), yet the input was finalized")
        if r["solver_answered"]:
            if r["sizer"] is not None:
                if r["sizer"] < r["witness_size"]:
                    fails.append(f"miniscript_sizer {r['sizer_items']} = {r['sizer']} bytes serialized < the witness "
                                 f"built {r['witness_items']} = {r['witness_size']} bytes")
                if r["sizer_items"][-1] != r["witness_items"][-1]:
                    fails.append(f"miniscript_sizer's witness script is {r['sizer_items'][-1]} bytes, the real one "
                                 f"{r['witness_items'][-1]}")
                if r["weight_estimate"] is not None and r["weight_estimate"] < r["weight"]:
                    fails.append(f"weight_estimate(miniscript_sizer)={r['weight_estimate']} < weight {r['weight']}")
            else:
                fails.append("miniscript_sizer has no estimate for an input the solver finalized")
            if r["sat_sizer_under"]:
                text = (f"satisfaction_sizer(signers) {r['sat_sizer_items']} = {r['sat_sizer']} bytes < the witness "
                        f"built {r['witness_items']} = {r['witness_size']} bytes (version {r['version']})")
                if r["version"] >= 2 or SAT_SIZER_STRICT:
                    fails.append(text)
                else:
                    notes.append(text + ": the sizer cannot read the transaction version")
    elif r["cond"] is False and r["refusal"] is None:
        fails.append("not finalized and no refusal recorded")
    if fails:
        return False, "; ".join(fails) + f" | witness={r['witness']}"
    tail = ("; " + "; ".join(notes)) if notes else ""
    if r["finalized"]:
        return True, (f"finalized, engine ok, witness {r['witness_size']} <= sizer {r['sizer']} "
                      f"(sat_sizer {r['sat_sizer']}), weight {r['weight']} <= {r['weight_estimate']}{tail}")
    return True, f"refused ({r['refusal']}), cond={r['cond']}{tail}"


def oracle_solver(w) -> tuple[bool, str]:
    try:
        expr, context, avail = w["expr"], w["context"], w["avail"]
        try:
            _static(expand(expr, context), context)
        except BTClibValueError as e:
            return True, f"not parsed: {e}"[:300]
        return _judge(solver_check(expr, context, avail))
    except Exception as e:  # noqa: BLE001
        return False, f"oracle crashed: {type(e).__name__}: {e}"[:400]


ORACLES = {"solver": oracle_solver}


# ------------------------------------------------------------------ seeded defect (in-process, /repo untouched)
@contextlib.contextmanager
def mutant_no_version():
    """miniscript_solver building its SpendContext without the transaction version (which then
    defaults to 2): source text of the real function, the `version=` argument dropped, compiled
    into the module's own namespace and registered wherever the function object is referenced."""
    original = _desc.miniscript_solver
    source = inspect.getsource(original)
    wanted = "        version=tx.version,\n"
    if source.count(wanted) != 1:
        raise RuntimeError("miniscript_solver's source has no single `version=tx.version,` line")
    namespace = _desc.__dict__
    exec(compile(source.replace(wanted, ""), _desc.__file__, "exec"), namespace)  # noqa: S102
    mutant = namespace["miniscript_solver"]
    patched = []
    for module in list(sys.modules.values()):
        d = getattr(module, "__dict__", None)
        if not d or module is sys.modules[__name__]:
            continue
        for name, value in list(d.items()):
            if value is original:
                d[name] = mutant
                patched.append((d, name))
    try:
        yield mutant
    finally:
        for d, name in patched:
            d[name] = original
        namespace["miniscript_solver"] = original


REFERENCE = (
    "and_v(v:pk(K0),older(36))",
    "or_d(pk(K0),and_v(v:pk(K1),older(144)))",
    "andor(pk(K0),older(10),and_v(v:pk(K1),after(500000100)))",
    "thresh(2,pk(K0),s:pk(K1),sln:older(50))",
    "and_v(v:pk(K0),sha256(D0))",
    "or_i(and_v(v:pkh(K0),older(4194305)),pk(K1))",
)


def reference_avails(expr: str, context: str = P2WSH) -> list[dict]:
    """c15_spend.all_avail, and a version-1 twin of every version-2 assignment: the sequence
    that meets the older() under version 2 is exactly what must NOT open it under version 1."""
    out: list[dict] = []
    for a in S.all_avail(expand(expr, context), context):
        for b in (a, dict(a, version=1)):
            if b not in out:
                out.append(b)
    return out


def _selftest() -> int:
    bad = 0
    n = finalized = refused = v1 = under = 0
    t0 = time.perf_counter()
    for expr in REFERENCE:
        for a in reference_avails(expr):
            ok, msg = oracle_solver({"expr": expr, "context": P2WSH, "avail": a})
            n += 1
            v1 += a["version"] == 1
            finalized += msg.startswith("finalized")
            refused += msg.startswith("refused")
            under += "cannot read the transaction version" in msg
            if not ok:
                bad += 1
                print("FAIL", expr, a, msg)
    dt = time.perf_counter() - t0
    print(f"unchanged /repo: {n} checks ({v1} under version 1), {finalized} finalized, {refused} refused, "
          f"{bad} failures, {under} satisfaction_sizer under-estimates under version 1 (noted), "
          f"{1000 * dt / max(n, 1):.2f} ms per call")
    tap = solver_check(REFERENCE[0], TAPSCRIPT, {"keys": [0], "preimages": [], "locktime": 0, "sequence": 36, "version": 2})
    print("tapscript:", tap.get("skipped", "NOT skipped: " + str({k: tap[k] for k in ("finalized", "engine_ok")})))
    w = {"expr": REFERENCE[0], "context": P2WSH,
         "avail": {"keys": [0], "preimages": [], "locktime": 0, "sequence": 36, "version": 1}}
    print("v1, sequence 36, real code:", oracle_solver(w))
    with mutant_no_version():
        ok, msg = oracle_solver(w)
        print("v1, sequence 36, mutant   :", (ok, msg[:260]))
        caught = (not ok) and "finalized but engine rejects" in msg
        killed = 0
        total = 0
        for expr in REFERENCE:
            for a in reference_avails(expr):
                total += 1
                killed += not oracle_solver({"expr": expr, "context": P2WSH, "avail": a})[0]
        print(f"mutant: {killed}/{total} reference checks fail")
    if not caught:
        bad += 1
        print("FAIL: the seeded defect is not caught")
    ok, msg = oracle_solver(w)
    if not ok or _desc.miniscript_solver is not _desc_pkg.miniscript_solver:
        bad += 1
        print("FAIL: the real solver is not restored", msg)
    return 1 if bad else 0


if __name__ == "__main__":
    raise SystemExit(_selftest())
