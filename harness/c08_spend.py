"""C08: the engine's entry points, the signature oracle of the Core transcription, Core's vectors, and the
spend-form generator (real signatures made by btclib's signing primitives)."""
from __future__ import annotations

import json
import os

from btclib.curves import mult, secp256k1 as ec
from btclib.curves.sec_point import point_from_octets
from btclib.ecc import dsa, ssa
from btclib.exceptions import BTClibValueError
from btclib.hashes import hash160, sha256, tagged_hash
from btclib.script import ScriptPubKey, sig_hash
from btclib.script import engine as E
from btclib.script.engine import script as ES
from btclib.script.engine import tapscript as TS
from btclib.script.engine.flags import NO_FLAGS, ScriptFlag
from btclib.script.script import BYTE_FROM_OP_CODE_NAME
from btclib.script.witness import Witness
from btclib.tx.out_point import OutPoint
from btclib.tx.tx import Tx
from btclib.tx.tx_in import TxIn
from btclib.tx.tx_out import TxOut

from . import c08_gen as G
from . import common
from .common import hx, unhx

N = ec.n
ERRNAME = {"NULLFAIL": "SIG_NULLFAIL"}
EVAL_FLAGS = ["MINIMALDATA", "MINIMALIF", "DISCOURAGE_UPGRADABLE_NOPS", "CHECKLOCKTIMEVERIFY", "CHECKSEQUENCEVERIFY",
              "NULLDUMMY", "NULLFAIL", "STRICTENC", "DERSIG", "LOW_S", "CONST_SCRIPTCODE", "WITNESS_PUBKEYTYPE",
              "DISCOURAGE_UPGRADABLE_PUBKEYTYPE", "DISCOURAGE_OP_SUCCESS"]
ALL_NAMES = [m.name for m in ScriptFlag]


def flags_of(names: str) -> ScriptFlag:
    f = NO_FLAGS
    if names != "-":
        for n in names.split(","):
            f |= ScriptFlag[n]
    return f


def hexlist(items) -> str:
    return ",".join(hx(x) for x in items) if items else "-"


def unhexlist(s: str):
    return [] if s == "-" else [unhx(x) for x in s.split(",")]


PREV_TXID = bytes(range(32))


def mk_tx(script_sig: bytes, witness, lock_time: int, sequence: int, version: int, amount: int, spk: bytes):
    prevout = TxOut(amount, ScriptPubKey(spk, check_validity=False), check_validity=False)
    vin = TxIn(prev_out=OutPoint(PREV_TXID, 0), script_sig=script_sig, sequence=sequence,
               script_witness=Witness(list(witness)))
    tx = Tx(version=version, lock_time=lock_time, vin=[vin],
            vout=[TxOut(amount, ScriptPubKey(b"", check_validity=False), check_validity=False)], check_validity=False)
    return tx, [prevout]


LAST_ERR = [""]


def _refusal(e: BaseException, short: bool) -> str:
    LAST_ERR[0] = f"{type(e).__name__}: {e}"
    c = common.err_class(e)
    if c in ("script", "value"):
        return "err" if short else "err script"
    return "err " + c


# ------------------------------------------------------------------ the real engine
def impl_eval(t):
    op, sv, flags, script, stack, lt, seq, ver, weight, _oracle = t
    fl = flags_of(flags)
    sc = unhx(script)
    st = unhexlist(stack)
    tx, prevouts = mk_tx(b"", [], int(lt), int(seq), int(ver), 0, b"\x51")
    try:
        if op == "eval":
            ES.verify_script(sc, st, 0, tx, 0, fl, sv == "v0", False)
            return "ok " + hexlist(st)
        if sv == "tapscript":
            TS.verify_script_path_vc0(sc, st, prevouts, tx, 0, b"", int(weight), fl)
        else:
            E._verify_witness_v0("p2wsh", sha256(sc), Witness([*st, sc]), prevouts, tx, 0, fl, None, None)
        return "ok"
    except Exception as e:  # noqa: BLE001
        return _refusal(e, op != "eval")


def impl_verify(t):
    _op, flags, ss, spk, wit, lt, seq, ver, amount, _oracle = t
    tx, prevouts = mk_tx(unhx(ss), unhexlist(wit), int(lt), int(seq), int(ver), int(amount), unhx(spk))
    try:
        E.verify_input(prevouts, tx, 0, flags_of(flags))
    except Exception as e:  # noqa: BLE001
        return _refusal(e, True)
    return "ok"


# ------------------------------------------------------------------ the oracle of the transcription
def der_lax(b: bytes):
    """secp256k1's ecdsa_signature_parse_der_lax (contrib/lax_der_parsing.c): (r, s) or None; overflow -> (0, 0)"""
    n = len(b)
    pos = 0
    if pos == n or b[pos] != 0x30:
        return None
    pos += 1
    if pos == n:
        return None
    lenbyte = b[pos]
    pos += 1
    if lenbyte & 0x80:
        lenbyte -= 0x80
        if lenbyte > n - pos:
            return None
        pos += lenbyte
    vals = []
    for _ in range(2):
        if pos == n or b[pos] != 0x02:
            return None
        pos += 1
        if pos == n:
            return None
        lenbyte = b[pos]
        pos += 1
        if lenbyte & 0x80:
            lenbyte -= 0x80
            if lenbyte > n - pos:
                return None
            while lenbyte > 0 and b[pos] == 0:
                pos += 1
                lenbyte -= 1
            if lenbyte >= 8:
                return None
            ln = 0
            while lenbyte > 0:
                ln = (ln << 8) + b[pos]
                pos += 1
                lenbyte -= 1
        else:
            ln = lenbyte
        if ln > n - pos:
            return None
        vals.append(b[pos:pos + ln])
        pos += ln
    out = []
    overflow = False
    for v in vals:
        v = v.lstrip(b"\x00")
        if len(v) > 32:
            overflow = True
            out.append(0)
        else:
            x = int.from_bytes(v, "big")
            overflow |= x >= N
            out.append(x)
    return (0, 0) if overflow else (out[0], out[1])


def check_ecdsa(sig: bytes, key: bytes, code: bytes, sv: str, tx, amount: int, i: int = 0) -> bool:
    """GenericTransactionSignatureChecker::CheckECDSASignature, from sig_hash + dsa (never the engine)."""
    want = {2: 33, 3: 33, 4: 65, 6: 65, 7: 65}.get(key[0], 0) if key else 0
    if want == 0 or len(key) != want or not sig:
        return False
    ht = sig[-1]
    rs = der_lax(sig[:-1])
    if rs is None or rs[0] == 0 or rs[1] == 0:
        return False
    try:
        q = point_from_octets(key, hybrid=True)
    except BTClibValueError:
        return False
    h = sig_hash.legacy(code, tx, i, ht) if sv == "base" else sig_hash.segwit_v0(code, tx, i, ht, amount)
    r, s = rs
    try:
        sg = dsa.Sig(r, s if s <= N // 2 else N - s)
    except BTClibValueError:
        return False  # r is not the x-coordinate of a point: no key verifies it
    return bool(dsa.verify_(h, q, sg))


def check_schnorr(sig: bytes, key: bytes, sv: str, pos: int, tx, prevouts, annex: bytes, leaf_script, i: int = 0):
    """CheckSchnorrSignature: '1' or the script error name"""
    if len(sig) not in (64, 65):
        return "SCHNORR_SIG_SIZE"
    ht = 0
    if len(sig) == 65:
        ht = sig[64]
        sig = sig[:64]
        if ht == 0:
            return "SCHNORR_SIG_HASHTYPE"
    if not (ht <= 3 or 0x81 <= ht <= 0x83):
        return "SCHNORR_SIG_HASHTYPE"
    if ht & 3 == 3 and len(tx.vout) <= i:
        return "SCHNORR_SIG_HASHTYPE"
    if sv == "taproot":
        h = sig_hash.taproot(tx, i, prevouts, ht, 0, annex, b"")
    else:
        leaf = tagged_hash(b"TapLeaf", b"\xc0" + G_varint(len(leaf_script)) + leaf_script)
        h = sig_hash.taproot(tx, i, prevouts, ht, 1, annex, leaf + b"\x00" + pos.to_bytes(4, "little"))
    return "1" if ssa.verify_(h, key, sig) else "SCHNORR_SIG"


def G_varint(n: int) -> bytes:
    if n < 253:
        return bytes([n])
    if n <= 0xFFFF:
        return b"\xfd" + n.to_bytes(2, "little")
    return b"\xfe" + n.to_bytes(4, "little")


def witness_size(stack) -> int:
    """GetSerializeSize(witness.stack)"""
    return len(G_varint(len(stack))) + sum(len(G_varint(len(e))) + len(e) for e in stack)


def lift_x(x: bytes):
    xi = int.from_bytes(x, "big")
    if xi >= ec.p:
        return None
    try:
        return (xi, ec.y_even_var(xi))
    except BTClibValueError:
        return None


def tweak(px: bytes, root: bytes):
    """(output key x, parity, tweak) of internal x-only key px"""
    t = int.from_bytes(tagged_hash(b"TapTweak", px + root), "big")
    p = lift_x(px)
    if p is None or t >= N:
        return None
    q = ec.add_var(p, mult(t))
    if q[1] == 0:
        return None
    return q[0].to_bytes(32, "big"), q[1] & 1, t


def check_commitment(control: bytes, program: bytes, leaf_hash: bytes) -> bool:
    """VerifyTaprootCommitment"""
    k = leaf_hash
    for j in range((len(control) - 33) // 32):
        node = control[33 + 32 * j:65 + 32 * j]
        k = tagged_hash(b"TapBranch", min(k, node) + max(k, node))
    r = tweak(control[1:33], k)
    return r is not None and r[0] == program and r[1] == control[0] & 1


def bt_as_eval(line: str) -> str:
    """a `bteval` line as the `eval` line on the same program (same engine call, same oracle table)"""
    t = line.split(" ")
    if t[0] == "bttap":
        return " ".join(["execwit", "tapscript", *t[1:]])
    return " ".join(["eval", *t[1:8], "0", t[8] if len(t) > 8 else "deny"])


def answer(line: str, query: str, vec=None) -> str:
    t = line.split(" ")
    if t[0] == "bteval":
        return " ".join(t[:8]) + " " + answer(bt_as_eval(line), query).split(" ")[-1]
    if t[0] == "bttap":
        return " ".join(t[:8]) + " " + answer(bt_as_eval(line), query).split(" ")[-1]
    if t[0] in ("eval", "evalx", "execwit", "execwitx"):
        # EvalScript / ExecuteWitnessScript level: the transaction impl_eval builds (amount 0, prevout script 51, no annex);
        # in tapscript the leaf is the script under evaluation
        _op, _sv, _flags, script, _stack, lt, seq, ver, _w, _o = t
        tx, prevouts = mk_tx(b"", [], int(lt), int(seq), int(ver), 0, b"\x51")
        q = query.split(":")
        if q[0] == "e":
            v = "1" if check_ecdsa(unhx(q[1]), unhx(q[2]), unhx(q[3]), q[4], tx, 0, 0) else "0"
        elif q[0] == "s":
            v = check_schnorr(unhx(q[1]), unhx(q[2]), q[3], int(q[4]), tx, prevouts, b"", unhx(script), 0)
        else:
            raise common.HarnessError("unknown oracle query " + query[:80])
        return line + ";" + query + "=" + v
    _op, _flags, ss, spk, wit, lt, seq, ver, amount, _o = t
    witness = unhexlist(wit)
    tx, prevouts = mk_tx(unhx(ss), witness, int(lt), int(seq), int(ver), int(amount), unhx(spk))
    idx = 0
    if vec is not None:
        tx, prevouts, idx = vec["tx"], vec["prevouts"], vec.get("i", 0)
    q = query.split(":")
    if q[0] == "e":
        v = "1" if check_ecdsa(unhx(q[1]), unhx(q[2]), unhx(q[3]), q[4], tx, int(amount), idx) else "0"
    elif q[0] == "s":
        st = list(witness)
        annex = b""
        if len(st) >= 2 and st[-1][:1] == b"\x50":
            annex = st.pop()
        leaf_script = st[-2] if len(st) >= 2 else b""
        v = check_schnorr(unhx(q[1]), unhx(q[2]), q[3], int(q[4]), tx, prevouts, annex, leaf_script, idx)
    elif q[0] == "c":
        v = "1" if check_commitment(unhx(q[1]), unhx(q[2]), unhx(q[3])) else "0"
    else:
        raise common.HarnessError("unknown oracle query " + query[:80])
    return line + ";" + query + "=" + v


# ------------------------------------------------------------------ Core's vectors
def _push_int64(n: int) -> bytes:
    if n == -1 or 1 <= n <= 16:
        return bytes([n + 0x50])
    if n == 0:
        return b"\x00"
    return G.push(G.enc(n))


_OPNAMES = None


def _opnames():
    global _OPNAMES
    if _OPNAMES is None:
        m = {}
        for name, b in BYTE_FROM_OP_CODE_NAME.items():
            if b[0] < 0x61 and name != "OP_RESERVED":
                continue
            m[name] = b
            m[name[3:]] = b
        for alias, code in (("NOP2", 0xB1), ("NOP3", 0xB2), ("CHECKSIGADD", 0xBA)):
            m.setdefault(alias, bytes([code]))
            m.setdefault("OP_" + alias, bytes([code]))
        _OPNAMES = m
    return _OPNAMES


def parse_core_script(s: str) -> bytes:
    """core_read.cpp ParseScript"""
    out = b""
    for w in s.split():
        body = w[1:] if w.startswith("-") and len(w) > 1 else w
        if body.isdigit() and body.isascii():
            out += _push_int64(int(w))
        elif w.startswith("0x") and len(w) > 2:
            out += bytes.fromhex(w[2:])
        elif len(w) >= 2 and w[0] == "'" and w[-1] == "'":
            out += G.push(w[1:-1].encode())
        elif w in _opnames():
            out += _opnames()[w]
        else:
            raise common.HarnessError(f"script_tests.json: cannot parse token {w!r}")
    return out


NUMS = bytes.fromhex("50929b74c1a04954b78b4b6035e97a5e078a5a0f28ec96d547bfee9ace803ac0")


def core_script_vectors():
    path = "/repo/tests/script_engine/_data/script_tests.json"
    if not os.path.exists(path):
        raise common.HarnessError("Core's script_tests.json is not vendored under /repo/tests")
    data = json.load(open(path))
    out = []
    for index, x in enumerate(data):
        if len(x) == 1:
            continue
        amount = 0
        wit = []
        i = 0
        if not isinstance(x[0], str):
            i = 1
            wit = list(x[0][:-1])
            amount = int(round(x[0][-1] * 10**8))
        spk_text = x[i + 1]
        # taproot placeholders (script_tests.cpp): #SCRIPT# <asm>, #CONTROLBLOCK#, #TAPROOTOUTPUT#
        stack = []
        q = b""
        for el in wit:
            if el.startswith("#SCRIPT#"):
                stack.append(parse_core_script(el[8:]))
            elif el == "#CONTROLBLOCK#":
                leaf = tagged_hash(b"TapLeaf", b"\xc0" + G_varint(len(stack[-1])) + stack[-1])
                q, parity, _ = tweak(NUMS, leaf)
                stack.append(bytes([0xC0 + parity]) + NUMS)
            else:
                stack.append(bytes.fromhex(el))
        spk = parse_core_script(spk_text.replace("#TAPROOTOUTPUT#", "0x" + q.hex()))
        ss = parse_core_script(x[i])
        flags = x[i + 2]
        flags = "-" if flags in ("", "NONE") else flags
        # BuildCreditingTransaction / BuildSpendingTransaction
        credit = Tx(version=1, lock_time=0,
                    vin=[TxIn(prev_out=OutPoint(), script_sig=b"\x00\x00", sequence=0xFFFFFFFF)],
                    vout=[TxOut(amount, ScriptPubKey(spk, check_validity=False), check_validity=False)], check_validity=False)
        spend = Tx(version=1, lock_time=0,
                   vin=[TxIn(prev_out=OutPoint(credit.id, 0), script_sig=ss, sequence=0xFFFFFFFF,
                             script_witness=Witness(stack))],
                   vout=[TxOut(amount, ScriptPubKey(b"", check_validity=False), check_validity=False)], check_validity=False)
        line = f"verifyx {flags} {hx(ss)} {hx(spk)} {hexlist(stack)} 0 4294967295 1 {amount} ask"
        out.append({"index": index, "line": line, "expect": x[i + 3], "comment": x[i + 4] if len(x) > i + 4 else "",
                    "tx": spend, "prevouts": [credit.vout[0]], "flags": flags})
    return out


def core_tx_vectors():
    """Core's tx_valid.json / tx_invalid.json: one op line per input.  A valid vector holds under every flag but the
    ones it lists; an invalid one fails under the flags it lists (BADTX = CheckTransaction, not a script matter)."""
    out = []
    for fname, valid in (("tx_valid.json", True), ("tx_invalid.json", False)):
        path = "/repo/tests/script_engine/_data/" + fname
        if not os.path.exists(path):
            raise common.HarnessError(f"Core's {fname} is not vendored under /repo/tests")
        for index, x in enumerate(json.load(open(path))):
            if len(x) == 1 and isinstance(x[0], str):
                continue
            if x[2] == "BADTX":
                continue
            try:
                tx = Tx.parse(x[1], check_validity=False)
            except Exception:  # noqa: BLE001
                try:
                    tx = Tx.parse(x[1])
                except Exception:  # noqa: BLE001
                    continue
            listed = [] if x[2] in ("", "NONE") else x[2].split(",")
            names = [n for n in ALL_NAMES if n not in listed] if valid else listed
            flags = ",".join(names) if names else "-"
            pmap = {}
            for p in x[0]:
                pmap[(p[0].lower(), p[1] & 0xFFFFFFFF)] = (parse_core_script(p[2]), p[3] if len(p) > 3 else 0)
            prevouts = []
            ok = True
            for vin in tx.vin:
                h = vin.prev_out.tx_id
                h = h.hex() if isinstance(h, (bytes, bytearray)) else str(h)
                ent = pmap.get((h, vin.prev_out.vout)) or pmap.get((bytes.fromhex(h)[::-1].hex(), vin.prev_out.vout))
                if ent is None:
                    ok = False
                    break
                prevouts.append(TxOut(ent[1], ScriptPubKey(ent[0], check_validity=False), check_validity=False))
            if not ok:
                continue
            for i, vin in enumerate(tx.vin):
                spk = prevouts[i].script_pub_key.script
                line = (f"verify {flags} {hx(vin.script_sig)} {hx(spk)} {hexlist(list(vin.script_witness.stack))} "
                        f"{tx.lock_time} {vin.sequence} {tx.version} {prevouts[i].value} ask")
                out.append({"file": fname, "index": index, "i": i, "valid": valid, "line": line, "tx": tx,
                            "prevouts": prevouts, "flags": flags})
    return out


# ------------------------------------------------------------------ invariants on the real engine
def o_engine_invariants(w):
    """T4 on the real code: whatever the program, a refusal is the library's error; an accepted run leaves
    at most 1000 elements; a disabled op code anywhere (at an op-code boundary) refuses; an over-long script refuses."""
    sc = bytes.fromhex(w["script"])
    st = [bytes.fromhex(x) for x in w["stack"]]
    fl = flags_of(w["flags"])
    tx, _ = mk_tx(b"", [], 0, 0xFFFFFFFE, 2, 0, b"\x51")
    try:
        ES.verify_script(sc, st, 0, tx, 0, fl, w["segwit"], False)
        ok = True
    except Exception as e:  # noqa: BLE001
        c = common.err_class(e)
        if c not in ("script", "value"):
            return False, f"foreign exception {type(e).__name__}: {e}"
        ok = False
    if not ok:
        return True, "refused"
    from btclib.script.script import op_code_spans
    spans = list(op_code_spans(sc))
    if len(st) > 1000:
        return False, f"accepted with {len(st)} stack elements"
    if len(sc) > 10000:
        return False, "accepted a script over 10000 bytes"
    if spans and spans[-1][2] != len(sc) or (not spans and sc):
        return False, "accepted a script with an unreadable tail"
    if any(o in G.DISABLED for o, _, _ in spans):
        return False, "accepted a script holding a disabled op code"
    if any(e - s > 520 + 5 for _, s, e in spans):
        return False, "accepted a push over 520 bytes"
    if sum(1 for o, _, _ in spans if o > 0x60) > 201:
        return False, "accepted more than 201 op codes"
    depth = 0
    for o, _, _ in spans:
        depth += (o in (0x63, 0x64)) - (o == 0x68)
        if depth < 0:
            return False, "accepted an OP_ENDIF without OP_IF"
    if depth:
        return False, "accepted an unbalanced conditional"
    return True, "accepted"


# ------------------------------------------------------------------ layer 4 driver
KNOWN_CLASSES = {"const_scriptcode_findanddelete_order", "strictenc_pubkey_unchecked_for_empty_sig",
                 "witness_pubkeytype_unchecked", "dersig_structurally_valid_sig_refused", "lax_der_signature_refused",
                 "strictenc_hashtype_zero_accepted"}


def _driver(line: str) -> str:
    import subprocess
    return subprocess.run([os.path.join(common.BIN, "drv_c08")], input=(line + "\n").encode(),
                          stdout=subprocess.PIPE, check=False).stdout.decode().strip()


def resolve_model(line: str) -> str:
    """the model's answer to one line, signature oracle answered on the way"""
    for _ in range(64):
        r = _driver(line)
        if not r.startswith("need "):
            return r
        line = answer(line, r[5:])
    raise common.HarnessError("oracle protocol did not converge")


def _impl(t) -> str:
    return (impl_eval if t[0] in ("eval", "execwit") else impl_verify)(t)


def _der_strict_encode(r: int, s: int) -> bytes:
    def enc(v):
        b = v.to_bytes((v.bit_length() + 7) // 8 or 1, "big")
        if b[0] & 0x80:
            b = b"\x00" + b
        return b"\x02" + bytes([len(b)]) + b
    body = enc(r) + enc(s)
    return b"\x30" + bytes([len(body)]) + body


def _strict_der(sig: bytes) -> bool:
    """IsValidSignatureEncoding"""
    n = len(sig)
    if n < 9 or n > 73 or sig[0] != 0x30 or sig[1] != n - 3:
        return False
    lr = sig[3]
    if 5 + lr >= n:
        return False
    ls = sig[5 + lr]
    if lr + ls + 7 != n or sig[2] != 2 or lr == 0 or sig[4] & 0x80:
        return False
    if lr > 1 and sig[4] == 0 and not sig[5] & 0x80:
        return False
    if sig[lr + 4] != 2 or ls == 0 or sig[lr + 6] & 0x80:
        return False
    return not (ls > 1 and sig[lr + 6] == 0 and not sig[lr + 7] & 0x80)


def _pushes(script: bytes):
    from btclib.script.script import op_code_spans
    for o, a, b in op_code_spans(script):
        if o == 0:
            yield b""
        if 0 < o <= 78:
            w = 0 if o < 76 else 1 << (o - 76)
            yield script[a + 1 + w:b]


def _elements(t):
    """every byte string of an op line that could be taken for a signature or a key"""
    if t[0] in ("eval", "execwit"):
        scripts, items = [unhx(t[3])], unhexlist(t[4])
    else:
        scripts, items = [unhx(t[2]), unhx(t[3])], unhexlist(t[4])
    out = list(items)
    for sc in scripts + items:
        for d in _pushes(sc):
            out.append(d)
            if len(d) > 40:
                out.extend(_pushes(d))
    return out


def classify_named(ln, io, mo):
    """a stable key for a divergence from Core.  A *known* class is named only when a predicate on the input
    says it is that class: Core's error code (asked of the transcription), what btclib said, the shape of the
    elements involved, and engine and transcription agreeing again once the flag in question is dropped."""
    t = ln.split(" ")
    named = _driver(" ".join([t[0] + "x"] + t[1:]))
    core = named.split(" ")[1] if named.startswith("err ") else "OK"
    LAST_ERR[0] = ""
    _impl(t)
    msg = LAST_ERR[0]
    accepted = io.startswith("ok")
    fi = 2 if t[0] in ("eval", "execwit") else 1
    flags = [] if t[fi] == "-" else t[fi].split(",")
    strict = any(f in flags for f in ("DERSIG", "LOW_S", "STRICTENC"))

    def agree_without(drop):
        t2 = list(t)
        keep = [f for f in flags if f not in drop]
        t2[fi] = ",".join(keep) if keep else "-"
        t2[-1] = t2[-1].split(";")[0]
        i2, line2, m2 = _impl(t2), " ".join(t2), ""
        for _ in range(64):
            m2 = _driver(line2)
            if not m2.startswith("need "):
                break
            line2 = answer(line2, m2[5:])
        # agreeing again, or left with a divergence of another known class (two classes can meet in one program); the
        # nested classification gets the line WITH its oracle answers (it asks the transcription for Core's error name)
        return i2 == m2 or classify_named(line2, i2, m2) in KNOWN_CLASSES

    els = _elements(t)
    if core == "SIG_FINDANDDELETE" and "CONST_SCRIPTCODE" in flags and "found in the script code" not in msg \
            and agree_without({"CONST_SCRIPTCODE"}):
        return "const_scriptcode_findanddelete_order"
    if core == "PUBKEYTYPE" and accepted and "STRICTENC" in flags and b"" in els and agree_without({"STRICTENC"}):
        return "strictenc_pubkey_unchecked_for_empty_sig"
    if core == "WITNESS_PUBKEYTYPE" and accepted and agree_without({"WITNESS_PUBKEYTYPE"}):
        return "witness_pubkeytype_unchecked"
    if core == "OK" and not accepted and strict and ("valid x-coordinate" in msg or "not in 1..n-1" in msg) \
            and any(_strict_der(e) for e in els) and agree_without({"DERSIG", "LOW_S", "STRICTENC"}):
        return "dersig_structurally_valid_sig_refused"
    # at EvalScript level the refused signature shows as a different final stack (false pushed where Core pushes true)
    if core == "OK" and io != mo and not strict \
            and any(len(e) > 8 and e[0] == 0x30 and not _strict_der(e) and der_lax(e[:-1]) is not None for e in els):
        return "lax_der_signature_refused"
    # the same class seen through a negation (`<sig> <key> CHECKSIG NOT`: Core's check succeeds, so Core says EVAL_FALSE
    # where btclib, whose check failed, accepts) or any other use of the check's answer: named only when spelling every
    # lax signature on the stack strictly (same r, s and hash type) makes engine and transcription agree again
    if io != mo and not strict and t[0] in ("eval", "execwit"):
        stack = unhexlist(t[4])
        respelt, n_lax = [], 0
        for e in stack:
            rs = der_lax(e[:-1]) if len(e) > 8 and e[0] == 0x30 and not _strict_der(e) else None
            if rs is not None and rs[0] > 0 and rs[1] > 0:
                respelt.append(_der_strict_encode(*rs) + e[-1:])
                n_lax += 1
            else:
                respelt.append(e)
        if n_lax:
            t2 = list(t)
            t2[4] = hexlist(respelt)
            t2[-1] = t2[-1].split(";")[0]
            if _impl(t2) == resolve_model(" ".join(t2)):
                return "lax_der_signature_refused"
    if core == "SIG_HASHTYPE" and accepted and "STRICTENC" in flags \
            and any(_strict_der(e) and e[-1] & 0x7F == 0 for e in els) and agree_without({"STRICTENC"}):
        return "strictenc_hashtype_zero_accepted"
    if core == "OK" and not accepted and t[0] == "verify" and "witness stack element longer" in msg:
        wit = unhexlist(t[4])
        if wit and wit[-1][:1] == b"\x50" and len(wit) >= 2:
            wit = wit[:-1]
        from btclib.script.script import op_code_spans
        if len(wit) >= 2 and any(len(e) > 520 for e in wit[:-2]) and any(
                o in (80, 98) or 126 <= o <= 129 or 131 <= o <= 134 or 137 <= o <= 138 or 141 <= o <= 142
                or 149 <= o <= 153 or 187 <= o <= 254 for o, _, _ in op_code_spans(wit[-2])):
            return "op_success_oversized_witness_element_refused"
    if core == "SCHNORR_SIG_SIZE" and accepted:
        return "schnorr_sig_size_accepted"
    what = "accepts" if accepted else "refuses"
    return f"{t[0]}:{what}_where_core_says_{core}"


def classify_vector(ln, io, mo, vec):
    """classification of a multi-input vector: the generic classes are recognised on the single-input rebuild only when
    that rebuild shows the same disagreement; otherwise the key names the vector"""
    t = ln.split(" ")
    try:
        if _impl(t) == io and resolve_model(" ".join(t[:-1] + ["ask"])) == mo:
            return classify_named(ln, io, mo)
    except Exception:  # noqa: BLE001
        pass
    named = _driver(" ".join([t[0] + "x"] + t[1:]))
    core = named.split(" ")[1] if named.startswith("err ") else "OK"
    return f"tx_vector:{vec['file']}#{vec['index']}:{'accepts' if io == 'ok' else 'refuses'}_where_core_says_{core}"


def classify_eval(ln, io, mo):
    if "foreign" in io or not (io.startswith("ok") or io.startswith("err")):
        return "foreign_exception"
    return classify_named(ln, io, mo)


G_KEY = "0279be667ef9dcbbac55a06295ce870b07029bfcdb2dce28d959f2815b16f81798"
# one deterministic witness per known divergence class (known_findings.json keys)
KNOWN_EVAL = [
    ("base", "DERSIG", "09" + "300602010502010501" + "21" + G_KEY + "ac91", []),       # dersig_structurally_valid_sig_refused
    ("base", "CONST_SCRIPTCODE", "0021" + G_KEY + "ac", []),                            # const_scriptcode_findanddelete_order
    ("base", "STRICTENC", "000105ac", []),                                              # strictenc_pubkey_unchecked_for_empty_sig
    ("v0", "WITNESS_PUBKEYTYPE", "000105ac", []),                                       # witness_pubkeytype_unchecked
]
CORPUS_EVAL = [
    # (sv, flags, script hex, stack) — fixed cases kept from past disagreements and from the design notes
    ("tapscript", "-", "0063ff6851", []), ("tapscript", "-", "ff50", []), ("tapscript", "-", "50ff", []),
    ("tapscript", "-", "ff", []), ("tapscript", "-", "51ff", []), ("tapscript", "-", "516300ff68", []),
    ("tapscript", "-", "51", []), ("tapscript", "-", "4c", []), ("tapscript", "-", "4c50", []), ("tapscript", "-", "504c", []),
]


def signed_eval_lines(rng, n):
    """EvalScript-level programs whose CHECKSIG / CHECKMULTISIG / CHECKSIGADD success paths are real: signatures made by
    btclib's signing primitives over the transaction impl_eval builds, handed in on the initial stack; oracle `ask`"""
    from . import c08_forms as F
    lines, wit = [], []
    # the first programs are fixed: every signature op code once with valid signatures, consensus-neutral flags and weight
    # to spare, in each signature version it exists in -- so that every SUCCESS path is reached whatever the seed
    fixed = [("pk", False), ("pk", True), ("pkv", False), ("pkv", True), ("ms", False), ("ms", True), ("msv", False),
             ("msv", True), ("pkh", False), ("codesep", False), ("tap0", False), ("tap1", False), ("tap2", False), ("tapadd", False)]
    for j in range(n):
        lt, seq, ver = rng.choice([(0, 0xFFFFFFFF, 1), (0, 0xFFFFFFFE, 2), (10, 5, 2)])
        sp = F.Spend(rng, lt, seq, ver, 0)
        sp.spk = b"\x51"
        fl = rng.choice(["-", "-", "NULLFAIL", "DERSIG", "DERSIG,NULLDUMMY,NULLFAIL", "LOW_S", "MINIMALDATA",
                         "STRICTENC", "WITNESS_PUBKEYTYPE", "CONST_SCRIPTCODE", "DERSIG,LOW_S,STRICTENC,NULLFAIL,NULLDUMMY"])
        kind = rng.choice(["pk", "pk", "pkh", "ms", "ms", "msv", "pkv", "codesep", "notsig", "tap", "tap", "tapadd"])
        fx = j < len(fixed)
        if fx:
            kind, fl = fixed[j][0], "NULLFAIL"
        if kind[:3] == "tap":
            k1, k2 = F.KEYS[0], F.KEYS[1]
            if kind != "tapadd":
                leaves = [G.push(F.xonly(k1)) + b"\xac", G.push(F.xonly(k1)) + b"\xad\x51",
                          b"\x51\x75\xab" + G.push(F.xonly(k1)) + b"\xac"]
                leaf = leaves[int(kind[3])] if fx else rng.choice(leaves)
                pos = 2 if leaf[:1] == b"\x51" and leaf[2:3] == b"\xab" else 0xFFFFFFFF
                ext = F.tap_leaf(leaf) + b"\x00" + pos.to_bytes(4, "little")
                st = [sp.schnorr(k1, 1, b"", ext, "valid" if fx else rng.choice(F.SCHNORR_MUTS))]
            else:
                leaf = G.push(F.xonly(k1)) + b"\xac" + G.push(F.xonly(k2)) + b"\xba" + (b"\x52" if fx else rng.choice([b"\x52", b"\x51"])) + b"\x87"
                ext = F.tap_leaf(leaf) + b"\x00" + (0xFFFFFFFF).to_bytes(4, "little")
                st = [sp.schnorr(k2, 1, b"", ext, "valid" if fx else rng.choice(F.SCHNORR_MUTS)),
                      sp.schnorr(k1, 1, b"", ext, "valid" if fx else rng.choice(F.SCHNORR_MUTS))]
            tfl = rng.choice(["-", "DISCOURAGE_UPGRADABLE_PUBKEYTYPE", "MINIMALDATA", "NULLFAIL"])
            wit.append(f"execwit tapscript {tfl} {hx(leaf)} {hexlist(st)} {lt} {seq} {ver} {1000 if fx else rng.choice([49, 50, 99, 100, 1000])} ask")
            continue
        segwit = fixed[j][1] if fx else rng.random() < 0.4
        sv = "v0" if segwit else "base"
        q = F.KEYS[0]
        mut = "valid" if fx else rng.choice(F.SIG_MUTS)
        if kind == "pk":
            sc = F.p2pk(q, rng.random() < 0.8)
            st = [sp.ecdsa(q, sc, segwit, mut)]
        elif kind == "pkv":
            sc = G.push(F.pub(q)) + b"\xad\x51"
            st = [sp.ecdsa(q, sc, segwit, mut)]
        elif kind == "notsig":
            sc = G.push(F.pub(q)) + b"\xac\x91"
            st = [sp.ecdsa(q, sc, segwit, mut)]
        elif kind == "pkh":
            sc = F.p2pkh(q)
            st = [sp.ecdsa(q, sc, segwit, mut), F.pub(q)]
        elif kind == "codesep":
            tail = F.p2pk(q)
            sc = b"\x51\x75\xab" + tail
            st = [sp.ecdsa(q, sc if segwit and rng.random() < 0.3 else tail, segwit, mut)]
        else:
            qs = F.KEYS[:3]
            sc = F.multisig(2, qs) if kind == "ms" else F.multisig(2, qs)[:-1] + b"\xaf\x51"
            order = rng.choice([(0, 1), (0, 2), (1, 2), (1, 0)])
            muts = ["valid", mut] if rng.random() < 0.6 else [rng.choice(F.SIG_MUTS), mut]
            if fx:
                order, muts = (0, 1), ["valid", "valid"]
            st = [b"" if fx or rng.random() < 0.85 else b"\x01"] + [sp.ecdsa(qs[i], sc, segwit, m) for i, m in zip(order, muts)]
        lines.append(f"eval {sv} {fl} {hx(sc)} {hexlist(st)} {lt} {seq} {ver} 0 ask")
        if segwit and (fx or rng.random() < 0.5):
            wit.append(f"execwit v0 {fl} {hx(sc)} {hexlist(st)} {lt} {seq} {ver} 0 ask")
    return lines, wit


def run_eval(ctx, spec):
    rng = ctx.rng
    lines = []
    wit_lines = []
    fsets = G.flag_sets(rng, 64, EVAL_FLAGS)
    for sv, fl, sc, st in KNOWN_EVAL:
        lines.append(f"eval {sv} {fl} {sc} {hexlist(st)} 0 4294967295 1 0 deny")
    for sv, fl, sc, st in CORPUS_EVAL:
        wit_lines.append(f"execwit {sv} {fl} {sc} {hexlist(st)} 0 4294967295 1 1000 deny")
    for _ in range(ctx.n(1500, 40000)):
        sv = rng.choice(["base", "base", "v0"])
        st = G.init_stack(rng)
        sc = G.program(rng, False, [G.N if len(x) <= 4 else G.A for x in st])
        fl = rng.choice(fsets)
        lt, seq, ver = rng.choice([(0, 0xFFFFFFFF, 1), (0, 0xFFFFFFFF, 1), (100, 5, 2), (500000001, 0x400005, 2), (7, 0x80000001, 3),
                                   (rng.choice(G.LOCKTIMES), rng.choice(G.SEQUENCES), rng.choice(G.VERSIONS))])
        ln = f"eval {sv} {fl} {hx(sc)} {hexlist(st)} {lt} {seq} {ver} 0 deny"
        lines.append(ln)
        if rng.random() < 0.25:
            ctx.check("engine.invariants", {"script": sc.hex(), "stack": [x.hex() for x in st], "flags": fl, "segwit": sv == "v0"})
        if rng.random() < 0.15:
            wit_lines.append(f"execwit v0 {fl} {hx(sc)} {hexlist(st)} {lt} {seq} {ver} 0 deny")
    for sc, st, label in G.limit_programs(rng):
        for sv in ("base", "v0"):
            for fl in ("-", "MINIMALDATA", "NULLDUMMY,NULLFAIL"):
                lines.append(f"eval {sv} {fl} {hx(sc)} {hexlist(st)} 0 4294967295 1 0 deny")
        ctx.count("eval.limit-families", label.rstrip("0123456789").split("-")[0].split("+")[0])
        ctx.check("engine.invariants", {"script": sc.hex(), "stack": [x.hex() for x in st], "flags": "-", "segwit": False})
        if len(st) <= 1000:
            wit_lines.append(f"execwit tapscript - {hx(sc)} {hexlist(st)} 0 4294967295 1 100000 deny")
    lt_flags = ["CHECKLOCKTIMEVERIFY,CHECKSEQUENCEVERIFY", "CHECKLOCKTIMEVERIFY,CHECKSEQUENCEVERIFY,MINIMALDATA"]
    lts = G.locktime_programs(rng, full=ctx.tier == "thorough")
    for k, (sc, lt, seq, ver) in enumerate(lts):
        sv = ("base", "v0")[k % 2]
        lines.append(f"eval {sv} {lt_flags[k % 7 == 0]} {hx(sc)} - {lt} {seq} {ver} 0 deny")
        if k % 5 == 0:
            wit_lines.append(f"execwit tapscript {lt_flags[0]} {hx(sc + b'\x75\x51')} - {lt} {seq} {ver} 1000 deny")
    ctx.count("eval.limit-families", "locktime", len(lts))
    for sc, w in G.budget_programs():
        for fl in ("-", "DISCOURAGE_UPGRADABLE_PUBKEYTYPE"):
            wit_lines.append(f"execwit tapscript {fl} {hx(sc)} - 0 4294967295 1 {w} deny")
    tpo = G.tap_push_orders(rng)
    for sc in (tpo if ctx.tier == "thorough" else rng.sample(tpo, 40)):
        wit_lines.append(f"execwit tapscript - {hx(sc)} - 0 4294967295 1 1000 deny")
    ctx.count("eval.limit-families", "tapscript-oversized-push-order", len(tpo) if ctx.tier == "thorough" else 40)
    for _ in range(ctx.n(500, 12000)):
        st = G.init_stack(rng)
        sc = G.program(rng, True, [G.N if len(x) <= 4 else G.A for x in st])
        fl = rng.choice(fsets)
        w = rng.choice([0, 49, 50, 99, 100, 1000, 100000])
        wit_lines.append(f"execwit tapscript {fl} {hx(sc)} {hexlist(st)} 0 4294967295 1 {w} deny")
    sl, sw = signed_eval_lines(rng, ctx.n(300, 6000))
    # which signature op codes reach their SUCCESS path on the real engine in these lines: per op code, how the program ended
    # (`true` = accepted with a true top element, i.e. every signature op code in it answered true / passed its VERIFY)
    from btclib.script.script import op_code_spans
    names = {0xAC: "OP_CHECKSIG", 0xAD: "OP_CHECKSIGVERIFY", 0xAE: "OP_CHECKMULTISIG", 0xAF: "OP_CHECKMULTISIGVERIFY", 0xBA: "OP_CHECKSIGADD"}
    for ln in sl + sw:
        t = ln.split(" ")
        io = _impl(t)
        if t[0] == "eval":
            top = unhexlist(io.split(" ")[1])[-1:] if io.startswith("ok ") and io != "ok -" else []
            verdict = "true" if top and any(top[0][:-1]) or (top and top[0] and top[0][-1] not in (0, 0x80)) else ("false" if io.startswith("ok") else "refused")
        else:
            verdict = "true" if io == "ok" else "refused"
        for o in {o for o, _, _ in op_code_spans(unhx(t[3]))} & set(names):
            ctx.count("signed." + t[0] + "." + t[1] + ".sigops", f"{names[o]}:{verdict}")
    ctx.count("core.eval.oracle", "deny", len(lines))
    ctx.count("core.eval.oracle", "ask (real signatures)", len(sl))
    ctx.count("core.execwit.oracle", "deny", len(wit_lines))
    ctx.count("core.execwit.oracle", "ask (real signatures)", len(sw))
    spec(ctx, "core.eval", lines + sl, classify_eval, nontrivial=lambda ln, io: len(ln.split(" ")[3]) <= 20000)
    spec(ctx, "core.execwit", wit_lines + sw, classify_eval)


def bt_signed_lines(rng, n):
    """legacy / v0 programs with signature op codes and real signatures (p2pk, p2pkh, 2-of-3 multisig and its VERIFY
    form, CHECKSIGVERIFY, OP_CODESEPARATOR before and between signature op codes, a BOLT3-style HTLC and to_local),
    for the btclib-shaped model with `op_checksig := sharedChecksig` over the harness-answered checker (oracle `ask`)"""
    from . import c08_forms as F
    out = []
    for _ in range(n):
        lt, seq, ver = rng.choice([(0, 0xFFFFFFFF, 1), (0, 0xFFFFFFFE, 2), (600000, 5, 2)])
        sp = F.Spend(rng, lt, seq, ver, 0)
        sp.spk = b"\x51"
        fl = rng.choice(["-", "-", "NULLFAIL", "DERSIG", "DERSIG,NULLDUMMY,NULLFAIL", "LOW_S", "MINIMALDATA", "MINIMALIF",
                         "STRICTENC", "WITNESS_PUBKEYTYPE", "CONST_SCRIPTCODE", "DERSIG,LOW_S,STRICTENC,NULLFAIL,NULLDUMMY",
                         "CHECKLOCKTIMEVERIFY,CHECKSEQUENCEVERIFY,NULLFAIL"])
        segwit = rng.random() < 0.4
        sv = "v0" if segwit else "base"
        q, q2 = F.KEYS[0], F.KEYS[1]
        mut = rng.choice(F.SIG_MUTS)
        kind = rng.choice(["pk", "pkh", "pkv", "ms", "ms", "msv", "codesep", "codesep2", "notsig", "htlc", "tolocal", "ms0"])
        if kind == "pk":
            sc = F.p2pk(q, rng.random() < 0.8)
            st = [sp.ecdsa(q, sc, segwit, mut)]
        elif kind == "pkh":
            sc = F.p2pkh(q)
            st = [sp.ecdsa(q, sc, segwit, mut), F.pub(q)]
        elif kind == "pkv":
            sc = G.push(F.pub(q)) + b"\xad\x51"
            st = [sp.ecdsa(q, sc, segwit, mut)]
        elif kind == "notsig":
            sc = G.push(F.pub(q)) + b"\xac\x91"
            st = [sp.ecdsa(q, sc, segwit, mut)]
        elif kind == "codesep":
            tail = F.p2pk(q)
            sc = b"\x51\x75\xab" + tail
            st = [sp.ecdsa(q, sc if segwit and rng.random() < 0.3 else tail, segwit, mut)]
        elif kind == "codesep2":
            # <sig2> <sig1> | <k1> CHECKSIGVERIFY CODESEPARATOR <k2> CHECKSIG : the two signatures commit to different script codes
            t2 = G.push(F.pub(q2)) + b"\xac"
            sc = G.push(F.pub(q)) + b"\xad\xab" + t2
            st = [sp.ecdsa(q2, t2 if rng.random() < 0.8 else sc, segwit, rng.choice(F.SIG_MUTS)), sp.ecdsa(q, sc, segwit, mut)]
        elif kind == "htlc":
            # BOLT3 offered HTLC, the remote-success / timeout arms
            h = hash160(b"preimage")
            sc = (b"\x76\xa9" + G.push(hash160(F.pub(q2))) + b"\x87\x63\xac\x67" + G.push(F.pub(q)) + b"\x7c\x82\x01\x20\x87\x63"
                  + b"\xa9" + G.push(h) + b"\x88\xac\x67\x75\x52\x7c" + G.push(F.pub(q2)) + b"\x52\xae\x68\x68")
            if rng.random() < 0.5:
                st = [sp.ecdsa(q, sc, segwit, mut), bytes(rng.randrange(256) for _ in range(32)) if rng.random() < 0.3 else b"preimage".ljust(32, b"\x00")]
            else:
                st = [b"", sp.ecdsa(q, sc, segwit, mut), sp.ecdsa(q2, sc, segwit, rng.choice(F.SIG_MUTS)), b""]
        elif kind == "tolocal":
            sc = b"\x63" + G.push(F.pub(q2)) + b"\x67\x55\xb2\x75" + G.push(F.pub(q)) + b"\x68\xac"
            st = [sp.ecdsa(q, sc, segwit, mut), b""] if rng.random() < 0.6 else [sp.ecdsa(q2, sc, segwit, mut), b"\x01"]
        elif kind == "ms0":
            sc = rng.choice([b"\x00\x00\xae", b"\x00" + G.push(F.pub(q)) + b"\x51\xae", b"\x4f\x4f\xae", b"\x51\x00\xae",
                             b"\x00\x00\xaf\x51", b"\x01\x15" + b"\xae"])
            st = [rng.choice([b"", b"\x01"])] + ([b""] if rng.random() < 0.5 else [])
        else:
            qs = F.KEYS[:3]
            sc = F.multisig(2, qs) if kind == "ms" else F.multisig(2, qs)[:-1] + b"\xaf\x51"
            order = rng.choice([(0, 1), (0, 2), (1, 2), (1, 0)])
            muts = ["valid", mut] if rng.random() < 0.6 else [rng.choice(F.SIG_MUTS), mut]
            st = [b"" if rng.random() < 0.85 else b"\x01"] + [sp.ecdsa(qs[i], sc, segwit, m) for i, m in zip(order, muts)]
        out.append(f"bteval {sv} {fl} {hx(sc)} {hexlist(st)} {lt} {seq} {ver} ask")
    return out


def run_bt(ctx, bt_stream):
    rng = ctx.rng
    fsets = G.flag_sets(rng, 40, [f for f in EVAL_FLAGS if f not in ("DISCOURAGE_UPGRADABLE_PUBKEYTYPE", "DISCOURAGE_OP_SUCCESS")])
    lines = []
    for _ in range(ctx.n(1500, 30000)):
        sv = rng.choice(["base", "base", "v0"])
        st = G.init_stack(rng)
        sc = G.program(rng, False, [G.N if len(x) <= 4 else G.A for x in st], nosig=True)
        lt, seq, ver = rng.choice([(0, 0xFFFFFFFF, 1), (100, 5, 2), (rng.choice(G.LOCKTIMES), rng.choice(G.SEQUENCES), rng.choice(G.VERSIONS))])
        lines.append(f"bteval {sv} {rng.choice(fsets)} {hx(sc)} {hexlist(st)} {lt} {seq} {ver}")
    for sc, st, _label in G.limit_programs(rng):
        if len(st) <= 1001:
            lines.append(f"bteval base - {hx(sc)} {hexlist(st)} 0 4294967295 1")
            lines.append(f"bteval v0 MINIMALDATA {hx(sc)} {hexlist(st)} 0 4294967295 1")
    for k, (sc, lt, seq, ver) in enumerate(G.locktime_programs(rng)):
        lines.append(f"bteval {('base', 'v0')[k % 2]} CHECKLOCKTIMEVERIFY,CHECKSEQUENCEVERIFY {hx(sc)} - {lt} {seq} {ver}")
    bt_stream(ctx, "bt.eval", lines)
    # the grammar with its signature op codes left in (keys and signatures are random bytes: the failure paths)
    lines = []
    for _ in range(ctx.n(200, 6000)):
        sv = rng.choice(["base", "v0"])
        st = G.init_stack(rng)
        sc = G.program(rng, False, [G.N if len(x) <= 4 else G.A for x in st], nosig=False)
        lines.append(f"bteval {sv} {rng.choice(fsets)} {hx(sc)} {hexlist(st)} 0 4294967295 1 ask")
    # two policy-flag divergence classes meeting in one program (empty signature, malformed key, STRICTENC and
    # WITNESS_PUBKEYTYPE together): kept from a thorough run where the nested classification lost its oracle answers
    lines.append("bteval v0 STRICTENC,WITNESS_PUBKEYTYPE 000051010551ae - 0 4294967295 1 ask")
    bt_stream(ctx, "bt.eval.sigops", lines)
    bt_stream(ctx, "bt.eval.signed", bt_signed_lines(rng, ctx.n(300, 4000)))
    # the btclib-shaped TAPSCRIPT model (Model/C08/BtclibTap.lean) against verify_script_path_vc0
    tl = []
    for sv, fl, sc, st in CORPUS_EVAL:
        tl.append(f"bttap {fl} {sc} {hexlist(st)} 0 4294967295 1 1000 ask")
    tfl = G.flag_sets(rng, 24, ["MINIMALDATA", "DISCOURAGE_UPGRADABLE_NOPS", "CHECKLOCKTIMEVERIFY", "CHECKSEQUENCEVERIFY", "NULLFAIL",
                                "DISCOURAGE_UPGRADABLE_PUBKEYTYPE", "DISCOURAGE_OP_SUCCESS", "MINIMALIF"])
    for _ in range(ctx.n(500, 5000)):
        st = G.init_stack(rng)
        sc = G.program(rng, True, [G.N if len(x) <= 4 else G.A for x in st])
        tl.append(f"bttap {rng.choice(tfl)} {hx(sc)} {hexlist(st)} 0 4294967295 1 {rng.choice([0, 49, 50, 99, 100, 1000, 100000])} ask")
    for sc, st, _label in G.limit_programs(rng):
        if len(st) <= 1000:
            tl.append(f"bttap - {hx(sc)} {hexlist(st)} 0 4294967295 1 100000 ask")
    for sc, w in G.budget_programs():
        for fl in ("-", "DISCOURAGE_UPGRADABLE_PUBKEYTYPE"):
            tl.append(f"bttap {fl} {hx(sc)} - 0 4294967295 1 {w} ask")
    for k, (sc, lt, seq, ver) in enumerate(G.locktime_programs(rng)):
        if k % 5 == 0:
            tl.append(f"bttap CHECKLOCKTIMEVERIFY,CHECKSEQUENCEVERIFY {hx(sc + b'\x75\x51')} - {lt} {seq} {ver} 1000 ask")
    tpo = G.tap_push_orders(rng)
    for sc in (tpo if ctx.tier == "thorough" else rng.sample(tpo, 40)):
        tl.append(f"bttap {rng.choice(['-', 'DISCOURAGE_OP_SUCCESS'])} {hx(sc)} - 0 4294967295 1 1000 ask")
    _sl, sw = signed_eval_lines(rng, ctx.n(150, 1500))
    for ln in sw:
        t = ln.split(" ")
        if t[1] == "tapscript":
            tl.append(" ".join(["bttap", *t[2:]]))
    bt_stream(ctx, "bt.tapscript", tl, legacy=False)


def run_verify(ctx, spec):
    from . import c08_forms as F
    F.run(ctx, spec)
