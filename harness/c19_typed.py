"""C19 typed-hostile sweep of every bool-returning public callable (AUDIT2 Top 3).

Entry points: every public function, classmethod / staticmethod AND instance method of the btclib package
whose return annotation is `bool`, found by introspection on every run, plus the engine's `verify_*`
assertions (-> None; class oracle only).  For each, every valid seed call (S.PRED + `extra_seeds`) is
repeated with ONE parameter at a time replaced by every value `variants` derives from the parameter's
DECLARED type (the annotation string):

  Octets / bytes / keys   every spelling of the same content (bytes, bytearray, memoryview read-only and
                          writable, hex str lower / upper / spaced, a bytes subclass), every wrong length
                          (empty, one short, one long, 31/32/33/64/65, 10^5 bytes), all-00 / all-ff, a non-hex str
  String                  str, ASCII bytes / bytearray / memoryview, stripped / padded / non-ASCII / lone surrogate
  int                     boundary integers, negative, 2^256, bool, an int subclass, an IntEnum member
  bool                    both values, 0 / 1
  Optional                None (and a value where the seed has None)
  Sequence[...] / Iterable  empty, a tuple instead of a list, a one-shot iterator, one short / one long, every
                          element replaced by every variant of the element type
  Point / PubKey / BIP340PubKey   tuple / list coordinates, infinity, off-curve, out-of-field, int-subclass coordinates,
                          BIP32KeyData, PreparedPoint, WIF / xpub text, x-only integers 0 / p / 2^256
  Sig | Octets            the object, its serialization in every spelling, out-of-range fields under check_validity=False
  HashF / Curve           every hashlib constructor of another digest size / other catalogue curves
then with TWO parameters replaced at once (seeded).  The oracle is c19_core.call_spec's: a foreign exception class,
a hang, a non-bool answer, and - for the anchored verifiers - raising instead of answering, are findings.
Counts per entry point go to evidence (`class_histogram["typed.calls_per_entry_point"]`, `typed.answers`).
"""
from __future__ import annotations

import importlib
import inspect
import pkgutil
import re

from . import c19_core as C
from . import c19_gen as G
from . import c19_seeds as S

B, L, T = G.B, G.L, G.T

# engine assertions (-> None) the audit names beside the boolean verifiers: driven, class oracle only
ASSERTION_EPS = ("btclib.script.engine.script.verify_script", "btclib.script.engine.verify_input",
                 "btclib.script.engine.verify_transaction", "btclib.script.engine.verify_amounts",
                 "btclib.script.engine.tapscript.verify_key_path", "btclib.script.engine.tapscript.verify_script_path_vc0")

_BEPS = None


def bool_entry_points():
    """{ep: dict(fn, sig, instance, cls)} for every public callable annotated `-> bool` (instance methods too)."""
    global _BEPS
    if _BEPS is not None:
        return _BEPS
    import btclib
    out = {}
    for ep, info in C.enumerate_entry_points().items():
        if info["bool_ret"]:
            out[ep] = {"fn": info["fn"], "sig": info["sig"], "instance": False, "cls": None}
    for mi in pkgutil.walk_packages(btclib.__path__, "btclib."):
        if any(p.startswith("_") for p in mi.name.split(".")[1:]) or mi.name.startswith(C.SKIP_MODULES):
            continue
        try:
            m = importlib.import_module(mi.name)
        except Exception:  # noqa: BLE001
            continue
        for n, o in sorted(vars(m).items()):
            if n.startswith("_") or not (inspect.isclass(o) and o.__module__ == m.__name__):
                continue
            for mn in sorted(vars(o)):
                if mn.startswith("_") and mn not in ("__contains__", "__eq__"):
                    continue
                raw = inspect.getattr_static(o, mn, None)
                fn = raw.fget if isinstance(raw, property) else raw
                if not inspect.isfunction(fn):
                    continue
                try:
                    sig = inspect.signature(fn)
                except (TypeError, ValueError):
                    continue
                if sig.return_annotation not in ("bool", bool):
                    continue
                out[f"{m.__name__}.{n}.{mn}"] = {"fn": fn, "sig": sig, "instance": True, "cls": o,
                                                "property": isinstance(raw, property)}
    for ep in ASSERTION_EPS:
        try:
            fn = C.resolve(ep)
            out[ep] = {"fn": fn, "sig": inspect.signature(fn), "instance": False, "cls": None, "assertion": True}
        except (ImportError, AttributeError):
            continue
    _BEPS = out
    return out


# ----------------------------------------------------------------------------- valid seed calls
_SEEDS = None


def _call(name, *args, **kw):
    return {"call": [name, list(args), kw]}


def seeds():
    """{ep: [(args specs, kwargs specs)]}: calls every bool entry point ANSWERS (mostly True)."""
    global _SEEDS
    if _SEEDS is not None:
        return _SEEDS
    out = {k: list(v) for k, v in S.PRED.items()}

    def add(ep, args, kwargs=None):
        out.setdefault(ep, []).append((list(args), kwargs or {}))

    for what, fn in (("anti-exfil", _seed_anti_exfil), ("commit", _seed_commit), ("psbt musig2", _seed_psbt_musig2),
                     ("filter", _seed_filter), ("curve group", _seed_curve_group), ("engine", _seed_engine),
                     ("misc", _seed_misc), ("instances", _seed_instances)):
        S._try("typed seed " + what, lambda fn=fn: fn(add))
    _SEEDS = out
    return out


def _keys():
    from btclib.to_pub_key import pub_keyinfo_from_prv_key
    return (pub_keyinfo_from_prv_key(S.K1, compressed=True)[0], pub_keyinfo_from_prv_key(S.K1, compressed=False)[0])


def _seed_anti_exfil(add):
    from btclib.ecc import dsa
    from btclib.hashes import sha256
    h = sha256(b"C19 anti-exfil")
    rho = bytes(range(32))
    commitment = dsa.anti_exfil_host_commit(rho)
    R = dsa.anti_exfil_signer_commit(h, S.K1, commitment)
    sig = dsa.anti_exfil_sign(h, S.K1, rho)
    pub33, _ = _keys()
    assert dsa.anti_exfil_host_verify(h, pub33, sig, rho, R)
    add("btclib.ecc.dsa.anti_exfil_host_verify", [B(h), B(pub33), B(sig.serialize()), B(rho), T(list(R))])
    # the same through verify_'s keyword pair
    add("btclib.ecc.dsa.verify_", [B(h), B(pub33), B(sig.serialize())], {"commit_hash": B(rho), "receipt": T(list(R))})


def _seed_commit(add):
    """sign-to-contract receipts for dsa.verify / ssa.verify / ssa.verify_ (the keyword PAIR, given together)"""
    from btclib.ecc import dsa, ssa
    from btclib.hashes import sha256
    pub33, _ = _keys()
    msg, commit = b"C19 message", b"C19 commitment"
    s, receipt = dsa.sign(msg, S.K1, grind=False, commit=commit)
    assert dsa.verify(msg, pub33, s, commit=commit, receipt=receipt)
    add("btclib.ecc.dsa.verify", [B(msg), B(pub33), B(s.serialize())], {"commit": B(commit), "receipt": T(list(receipt))})
    x, receipt = ssa.sign(msg, S.K1, commit=commit)
    assert ssa.verify(msg, pub33[1:], x, commit=commit, receipt=receipt)
    add("btclib.ecc.ssa.verify", [B(msg), B(pub33[1:]), B(x.serialize())], {"commit": B(commit), "receipt": T(list(receipt))})
    h, ch = sha256(msg), sha256(commit)
    x, receipt = ssa.sign_(h, S.K1, commit_hash=ch)
    assert ssa.verify_(h, pub33[1:], x, commit_hash=ch, receipt=receipt)
    add("btclib.ecc.ssa.verify_", [B(h), B(pub33[1:]), B(x.serialize())], {"commit_hash": B(ch), "receipt": T(list(receipt))})


_PSBT_KEYS = (0x9E3D0FD1845E73FC5EB4202C047631E9BD45AEE639C93DE0E21EF7EFE1100812,
              0x754F619CF0F5A9CCE70168BB4EA613804E53E4C2487A967D1E2564CF8007AD25, 3)
_AGG_PK = bytes.fromhex("030b58e337aa4d3852a8c29387c42408d8cfbe3a613a5e397e0a9f01a5fb7107d4")


def _seed_psbt_musig2(add):
    """BIP373's key-path vector, nonces and one partial signature added with the library's own functions"""
    import json
    from btclib.ecc import musig2
    from btclib.psbt import Psbt
    from btclib.psbt import musig2 as PM
    vec = json.load(open("/repo/tests/psbt/_data/bip373_test_vectors.json"))["valid psbts"]
    enc = next(v["encoded psbt"] for v in vec if v["description"].startswith("Spend of a Taproot output where the output key")
               and "participant pubkeys only" in v["description"])
    psbt = Psbt.b64decode(enc)
    secs = [PM.nonce_gen(psbt, 0, k, _AGG_PK) for k in _PSBT_KEYS]
    PM.partial_sign(psbt, 0, secs[0], _PSBT_KEYS[0], _AGG_PK)
    pk0 = musig2.individual_pub_key(_PSBT_KEYS[0])
    assert PM.partial_sig_verify(psbt, 0, pk0, _AGG_PK)
    pspec = {"obj": ["btclib.psbt.psbt.Psbt", psbt.serialize(check_validity=False).hex()]}
    add("btclib.psbt.musig2.partial_sig_verify", [pspec, 0, B(pk0), B(_AGG_PK)])
    add("btclib.psbt.musig2.partial_sig_verify", [pspec, 0, B(pk0), B(_AGG_PK)], {"leaf_hash": B(b"")})


def _seed_filter(add):
    from btclib.block.block_filter import BasicBlockFilter
    from btclib.block import Block
    blk = Block.parse(G.load_bin("block", "_data", "block_1.bin"))
    f = BasicBlockFilter.from_block(blk, [])
    els = [o.script_pub_key.script for t in blk.transactions for o in t.vout]
    fspec = _call("btclib.block.block_filter.BasicBlockFilter", B(f.block_hash), f.element_count, B(f.encoded_set))
    assert f.match(els[0]) and f.match_any(els)
    add("btclib.block.block_filter.BasicBlockFilter.match", [fspec, B(els[0])])
    add("btclib.block.block_filter.BasicBlockFilter.match", [fspec, B(b"\x52")])
    add("btclib.block.block_filter.BasicBlockFilter.match_any", [fspec, L(B(e) for e in els)])
    add("btclib.block.block_filter.BasicBlockFilter.match_any", [fspec, L([B(b"\x52")])])


def _seed_curve_group(add):
    from btclib.curves import mult
    p = mult(S.K1)
    ec = {"curve": "secp256k1"}
    add("btclib.curves.curve_group.CurveGroup.is_on_curve", [ec, T(list(p))])
    add("btclib.curves.curve_group.CurveGroup.is_on_curve", [{"curve": "secp256r1"}, T(list(p))])
    add("btclib.curves.curve_group.CurveGroup.is_jac_equal", [ec, T([p[0], p[1], 1]), T([p[0] * 4 % (2**256 - 2**32 - 977), p[1] * 8 % (2**256 - 2**32 - 977), 2])])
    add("btclib.curves.curve_group.CurveGroup.__eq__", [ec, ec])
    add("btclib.curves.curve_group.CurveGroup.__eq__", [ec, {"curve": "secp256r1"}])


def _seed_engine(add):
    """a p2wpkh spend the engine accepts, through every verify_* entry (assertions: answer None)"""
    from btclib.ecc import dsa
    from btclib.hashes import hash160
    from btclib.script import Witness, sig_hash
    from btclib.script.engine import verify_input
    from btclib.tx import OutPoint, Tx, TxIn, TxOut
    pub33, _ = _keys()
    spk = b"\x00\x14" + hash160(pub33)
    prev = TxOut(100_000, spk)
    vin = TxIn(OutPoint(b"\x11" * 32, 0), b"", 0xFFFFFFFE)
    tx = Tx(2, 0, [vin], [TxOut(90_000, spk)])
    h = sig_hash.from_tx([prev], tx, 0, 1)
    sig = dsa.sign_(h, S.K1).serialize() + b"\x01"
    tx.vin[0].script_witness = Witness([sig, pub33])
    verify_input([prev], tx, 0)
    pv = {"obj": ["btclib.tx.tx_out.TxOut", prev.serialize().hex()]}
    txs = {"obj": ["btclib.tx.tx.Tx", tx.serialize(include_witness=True).hex()]}
    add("btclib.script.engine.verify_input", [L([pv]), txs, 0])
    add("btclib.script.engine.verify_transaction", [L([pv]), txs])
    add("btclib.script.engine.verify_amounts", [L([pv]), txs])
    code = bytes.fromhex("76a914") + hash160(pub33) + bytes.fromhex("88ac")
    add("btclib.script.engine.script.verify_script", [B(code), L([B(sig), B(pub33)]), 100_000, txs, 0, {"flag": 0}, True])
    add("btclib.script.engine.script.verify_script", [B(b"\x51"), L([]), 0, txs, 0, {"flag": 0}, False], {"final": True})
    # taproot key path
    from btclib.ecc import ssa
    from btclib.script import taproot
    from btclib.script.script_pub_key import ScriptPubKey
    tspk = ScriptPubKey.p2tr(S.K1).script
    tprev = TxOut(100_000, tspk)
    ttx = Tx(2, 0, [TxIn(OutPoint(b"\x22" * 32, 1), b"", 0xFFFFFFFE)], [TxOut(90_000, tspk)])
    ttx.vin[0].script_witness = Witness([bytes(64)])
    th = sig_hash.from_tx([tprev], ttx, 0, 0)
    tsig = ssa.sign_(th, taproot.output_prvkey(S.K1)).serialize()
    ttx.vin[0].script_witness = Witness([tsig])
    verify_input([tprev], ttx, 0)
    tpv = {"obj": ["btclib.tx.tx_out.TxOut", tprev.serialize().hex()]}
    ttxs = {"obj": ["btclib.tx.tx.Tx", ttx.serialize(include_witness=True).hex()]}
    add("btclib.script.engine.verify_input", [L([tpv]), ttxs, 0])
    add("btclib.script.engine.tapscript.verify_key_path", [B(tspk), L([B(tsig)]), L([tpv]), ttxs, 0, B(b"")])
    # tapscript leaf `<xonly> OP_CHECKSIG` through the script path
    from btclib.script.engine.flags import ALL_FLAGS
    pub33, _ = _keys()
    leaf = b"\x20" + pub33[1:] + b"\xac"
    lspk = ScriptPubKey.p2tr(S.K2, [(0xC0, ["%s" % pub33[1:].hex(), "OP_CHECKSIG"])]).script
    lprev = TxOut(100_000, lspk)
    ltx = Tx(2, 0, [TxIn(OutPoint(b"\x33" * 32, 0), b"", 0xFFFFFFFE)], [TxOut(90_000, lspk)])
    control = None
    from btclib.to_pub_key import pub_keyinfo_from_prv_key
    internal = pub_keyinfo_from_prv_key(S.K2, compressed=True)[0][1:]
    for parity in (0, 1):
        c = bytes([0xC0 | parity]) + internal
        if taproot.check_output_pubkey(lspk[2:], leaf, c):
            control = c
    ltx.vin[0].script_witness = Witness([bytes(64), leaf, control])
    lh = sig_hash.from_tx([lprev], ltx, 0, 0)
    lsig = ssa.sign_(lh, S.K1).serialize()
    ltx.vin[0].script_witness = Witness([lsig, leaf, control])
    verify_input([lprev], ltx, 0)
    lpv = {"obj": ["btclib.tx.tx_out.TxOut", lprev.serialize().hex()]}
    ltxs = {"obj": ["btclib.tx.tx.Tx", ltx.serialize(include_witness=True).hex()]}
    add("btclib.script.engine.verify_input", [L([lpv]), ltxs, 0])
    add("btclib.script.engine.tapscript.verify_script_path_vc0", [B(leaf), L([B(lsig)]), L([lpv]), ltxs, 0, B(b""), 500, {"flag": ALL_FLAGS.value}])


def _seed_misc(add):
    add("btclib.curves.curve.is_libsecp256k1_serving", [])
    for v in (0, True, {"isub": 5}, "1", 1.0, None, B(b"\x01")):
        add("btclib.utils.is_integer", [v])
    add("btclib.b32.is_segwit_prefixed", [S.TEXT["btclib.b32.is_segwit_prefixed"][0]])
    add("btclib.b32.is_segwit_prefixed", [S.TEXT["btclib.b32.is_segwit_prefixed"][-1]])
    pub33, _ = _keys()
    add("btclib.descriptors.miniscript.reads_back", [B(bytes.fromhex("21" + pub33.hex() + "ac"))], {"context": "TAPSCRIPT"})
    add("btclib.descriptors.miniscript.reads_back", [B(bytes.fromhex("21" + pub33.hex() + "ac"))], {"key_hashes": None})


def _seed_instances(add):
    """receivers for the instance methods / properties annotated -> bool (zero further parameters, or == / in):
    hand-built ones, and every class of the C05 registry whose serializations are in S.CLASS_BIN"""
    from btclib.bip32 import bip32
    from btclib import b58
    from . import c05_oracles as O
    xpub = bip32.xpub_from_xprv(S.XPRV)
    pub33, pub65 = _keys()
    wif = b58.wif_from_prv_key(S.K1)
    xkey = lambda k: _call("btclib.bip32.bip32.BIP32KeyData.b58decode", k)  # noqa: E731
    kw = _call("btclib.wallet.key_wallet.KeyWallet", L([wif, B(pub33)]))
    acct = bip32.xpub_from_xprv(bip32.derive(S.XPRV, "m/84h/0h/0h"))
    hand = [xkey(S.XPRV), xkey(xpub),
            _call("btclib.tx.out_point.OutPoint", B(bytes(32)), 0xFFFFFFFF), _call("btclib.tx.out_point.OutPoint", B(b"\x11" * 32), 0),
            _call("btclib.key.PubKeyData", B(pub33)), _call("btclib.key.PubKeyData", B(pub65)),
            _call("btclib.descriptors.key_expression.KeyExpression", pub_key=B(pub33)),
            _call("btclib.descriptors.key_expression.KeyExpression", xkey=xpub, wildcard=0),
            kw, _call("btclib.wallet.key_wallet.KeyWallet", L([B(pub33)])), _call("btclib.wallet.key_wallet.KeyWallet"),
            _call("btclib.wallet.key_wallet.BIP32KeyWallet", S.XPRV, "m/84h/0h/0h"), _call("btclib.wallet.script_wallet.ScriptWallet", L([_call("btclib.wallet.script_wallet.KeyGroup", 1, L([acct])), "OP_CHECKSIG"])),
            _call("btclib.psbt_signer.SoftwareSigner", S.XPRV),
            _call("btclib.block.block_context.BlockContext", 500000, _call("datetime.datetime.fromtimestamp", 1700000000, _call("datetime.timezone", _call("datetime.timedelta", 0)))),
            _call("btclib.block.block_context.BlockContext", 1, _call("datetime.datetime.fromtimestamp", 1300000000, _call("datetime.timezone", _call("datetime.timedelta", 0))))]
    hand += [_call("btclib.script.script_pub_key.ScriptPubKey", B(s)) for s in S.SCRIPTS[-6:]]
    hand += [_call("btclib.descriptors.miniscript.parse", t) for t in S.TEXT["btclib.descriptors.miniscript.parse"][:8]]
    hand += [_call("btclib.descriptors.descriptors.parse", t) for t in S.TEXT["btclib.descriptors.descriptors.parse"][:10]]
    hand += [_call("btclib.wallet.descriptor_wallet.DescriptorWallet.from_descriptor", t)
             for t in S.TEXT.get("btclib.wallet.descriptor_wallet.DescriptorWallet.from_descriptor", [])[:3]]
    reg = O._registry()
    for name, seeds_ in sorted(S.CLASS_BIN.items()):
        sp = reg.get(name)
        if sp is None:
            continue
        path = f"{sp.cls.__module__}.{sp.cls.__qualname__}"
        for b, kwargs in sorted(seeds_, key=lambda t: len(t[0]))[:4]:
            if not kwargs and len(b) < 3000:
                hand.append({"obj": [path, b.hex()]})
    built = []
    for spec in hand:
        try:
            built.append((spec, G.materialize(spec)))
        except Exception as e:  # noqa: BLE001 - a receiver that cannot be built is reported, not fatal
            S.NOTES.append(f"typed receiver not built: {G.short(spec, 100)}: {type(e).__name__}: {str(e)[:80]}")
    for ep, info in bool_entry_points().items():
        if not info["instance"]:
            continue
        params = list(info["sig"].parameters.values())[1:]
        k = 0
        for spec, obj in built:
            if not isinstance(obj, info["cls"]) or k >= 10:
                continue
            k += 1
            if not params:
                add(ep, [spec])
            elif ep.endswith(".__eq__"):
                add(ep, [spec, spec])
                add(ep, [spec, 5])
            elif ep.endswith(".__contains__"):
                for a in ("bc1qw508d6qejxtdg4y5r3zarvary0c5xw7kv8f3t4", b58.p2pkh(pub33) if "KeyWallet" in str(spec) else "1BoatSLRHtKNngkdXEeobR76b53LETtpyT"):
                    add(ep, [spec, a])


# ----------------------------------------------------------------------------- typed variants
def _split_union(a):
    out, depth, cur = [], 0, ""
    for ch in a:
        if ch in "[(":
            depth += 1
        elif ch in "])":
            depth -= 1
        if ch == "|" and depth == 0:
            out.append(cur)
            cur = ""
        else:
            cur += ch
    out.append(cur)
    return [o.strip() for o in out if o.strip()]


def ann_str(p):
    a = p.annotation
    if a is inspect.Parameter.empty:
        return ""
    s = a if isinstance(a, str) else (getattr(a, "__name__", None) if not hasattr(a, "__origin__") else None) or str(a)
    return s.replace("btclib.curves.curve.", "").replace("collections.abc.", "").replace("btclib.alias.", "")


def _content(spec):
    """bytes content of a buffer spec, or None"""
    if isinstance(spec, dict) and len(spec) == 1:
        for k in ("b", "ba", "mv", "mvw", "bsub"):
            if k in spec:
                return bytes.fromhex(spec[k])
    if isinstance(spec, str):
        try:
            b = bytes.fromhex(spec)
            return b if spec else None
        except ValueError:
            return None
    return None


_P = 2**256 - 2**32 - 977
_N = 0xFFFFFFFFFFFFFFFFFFFFFFFFFFFFFFFEBAAEDCE6AF48A03BBFD25E8CD0364141
INTS = [0, 1, -1, 2, 0x7F, 0x80, 0xFF, 0x100, 2**31 - 1, 2**31, 2**32, 2**63, 2**64, _N - 1, _N, _P, 2**256, -(2**255), True, False,
        {"isub": 0}, {"isub": 1}, {"isub": -1}, {"isub": 2**64}, {"ienum": 0}, {"ienum": 1}, {"ienum": 7}]


def octets_variants(b, strict_bytes=False):
    """every spelling of b and every wrong length / content around it"""
    b = bytes(b)
    n = len(b)
    out = [("bytes", B(b)), ("bytes-subclass", {"bsub": b.hex()})]
    if not strict_bytes:
        out += [("bytearray", {"ba": b.hex()}), ("memoryview", {"mv": b.hex()}), ("memoryview-w", {"mvw": b.hex()}), ("hex", b.hex()), ("HEX", b.hex().upper()), ("hex-padded", " " + b.hex() + "\n"), ("hex-odd", b.hex()[:-1]),
                ("hex-spaced", " ".join(b.hex()[i:i + 8] for i in range(0, 2 * n, 8))), ("not-hex", "zz" * n), ("hex-0x", "0x" + b.hex()),
                ("str-nonascii", "é" * n), ("str-surrogate", "\ud800"), ("str-subclass", {"ssub": b.hex()}), ("empty-str", "")]
    lens = {0, 1, max(n - 1, 0), n + 1, 20, 31, 32, 33, 63, 64, 65, 66, 2 * n, 100_000}
    for k in sorted(lens):
        if k != n:
            out.append((f"len{k}", B((b * (k // max(n, 1) + 1))[:k] if n else bytes(k))))
    if n:
        out += [("zeros", B(bytes(n))), ("ones", B(b"\xff" * n)), ("flip-first", B(bytes([b[0] ^ 1]) + b[1:])),
                ("flip-last", B(b[:-1] + bytes([b[-1] ^ 1]))), ("flip-mid", B(b[:n // 2] + bytes([b[n // 2] ^ 0x80]) + b[n // 2 + 1:]))]
    return out


def string_variants(s):
    if not isinstance(s, str):
        c = _content(s)
        s = c.decode("ascii", "replace") if c is not None else "x"
    enc = s.encode("utf8", "surrogatepass")
    return [("str", s), ("bytes", B(enc)), ("bytearray", {"ba": enc.hex()}), ("memoryview", {"mv": enc.hex()}), ("str-subclass", {"ssub": s}),
            ("padded", " " + s + " "), ("newline", s + "\n"), ("upper", s.upper()), ("lower", s.lower()), ("empty", ""), ("nul", s + "\x00"),
            ("nonascii", s[:-1] + "é"), ("surrogate", s[:1] + "\ud800" + s[1:]), ("bytes-nonascii", B(enc + b"\xff")), ("bom", "﻿" + s),
            ("cut", s[:len(s) // 2]), ("doubled", s + s), ("long", s * 300), ("fullwidth", s.replace("1", "１"))]


def point_variants(pt=None):
    from btclib.curves import mult
    p = tuple(pt) if pt else mult(S.K1)
    x, y = p
    # inhabitants of `tuple[int, int]` only (a list, another arity, non-int coordinates are outside the declared type)
    out = [("tuple", T([x, y])), ("negated", T([x, _P - y])), ("infinity", T([5, 0])), ("inf-7", T([7, 0])),
           ("zero-zero", T([0, 0])), ("off-curve", T([x, y + 1])), ("x-out-of-field", T([x + _P, y])), ("y-out-of-field", T([x, y + _P])),
           ("negative", T([-x, y])), ("negative-y", T([x, -y])), ("huge", T([2**300, 2**300])), ("int-subclass", T([{"isub": x}, {"isub": y}])),
           ("int-enum", T([{"ienum": 1}, {"ienum": 2}])), ("bools", T([True, False])), ("bools-11", T([True, True]))]
    return out


def pubkey_variants(spec, xonly=False):
    from btclib.bip32 import bip32
    from btclib.curves import mult
    from btclib.to_pub_key import pub_keyinfo_from_prv_key
    c = _content(spec)
    pt = None
    if c is None and isinstance(spec, dict) and "t" in spec and len(spec["t"]) == 2 and all(isinstance(v, int) for v in spec["t"]):
        pt = tuple(spec["t"])
    if c is None:
        c = pub_keyinfo_from_prv_key(S.K1, compressed=True)[0]
        c = c[1:] if xonly else c
    out = [("octets:" + n, s) for n, s in octets_variants(c)]
    out += [("point:" + n, s) for n, s in point_variants(pt)]
    p = pt or mult(S.K1)
    out += [("prepared", _call("btclib.curves.curve.PreparedPoint", T(list(p)))),
            ("prepared-other-curve", _call("btclib.curves.curve.PreparedPoint", T(list(G.materialize({"curve": "secp256r1"}).G)), {"curve": "secp256r1"})),
            ("xpub", bip32.xpub_from_xprv(S.XPRV)), ("xprv", S.XPRV)]
    if not xonly:       # BIP340PubKey = int | Octets | Point | PreparedPoint: no BIP32KeyData
        out.append(("bip32keydata", _call("btclib.bip32.bip32.BIP32KeyData.b58decode", bip32.xpub_from_xprv(S.XPRV))))
    out += [
            ("compressed", B(pub_keyinfo_from_prv_key(S.K1, compressed=True)[0])), ("uncompressed", B(pub_keyinfo_from_prv_key(S.K1, compressed=False)[0])),
            ("hybrid", B(b"\x06" + pub_keyinfo_from_prv_key(S.K1, compressed=False)[0][1:])), ("x-only", B(pub_keyinfo_from_prv_key(S.K1, compressed=True)[0][1:])),
            ("prefix-00", B(b"\x00" + pub_keyinfo_from_prv_key(S.K1, compressed=True)[0][1:])), ("not-on-curve", B(b"\x02" + (5).to_bytes(32, "big")))]
    if xonly:
        out += [("int", p[0]), ("int-0", 0), ("int-p", _P), ("int-p-1", _P - 1), ("int-2^256", 2**256), ("int-negative", -p[0]), ("int-subclass", {"isub": p[0]}),
                ("int-bool", True), ("int-not-x", 5)]
    return out


def sig_variants(spec, cls):
    """`Sig | Octets`: the object, its bytes in every spelling, objects with out-of-range fields"""
    c = _content(spec)
    out = []
    if c is not None:
        out += [("octets:" + n, s) for n, s in octets_variants(c)]
        out.append(("object", {"obj": [cls, c.hex()]}))
    if cls.endswith("dsa.Sig"):
        for n, (r, s) in {"r0": (0, 1), "s0": (1, 0), "r=n": (_N, 1), "s=n": (1, _N), "neg": (-1, -1), "huge": (2**300, 1), "high-s": (1, _N - 1),
                          "isub": ({"isub": 1}, {"isub": 1}), "bool": (True, True)}.items():
            out.append(("object-" + n, _call(cls, r, s, check_validity=False)))
        out.append(("object-other-curve", _call(cls, 1, 1, {"curve": "secp256r1"}, check_validity=False)))
    elif cls.endswith("ssa.Sig"):
        for n, (r, s) in {"r0": (0, 1), "s0": (1, 0), "r=p": (_P, 1), "s=n": (1, _N), "neg": (-1, -1), "huge": (2**300, 1),
                          "isub": ({"isub": 1}, {"isub": 1}), "bool": (True, True)}.items():
            out.append(("object-" + n, _call(cls, r, s, check_validity=False)))
        out.append(("object-other-curve", _call(cls, 1, 1, {"curve": "secp256r1"}, check_validity=False)))
    return out


HFS = ["sha1", "sha224", "sha256", "sha384", "sha512", "sha3_256", "blake2b", "blake2s", "md5"]
CURVE_NAMES = ["secp256k1", "secp256r1", "secp112r1", "secp160r1", "secp192k1", "secp384r1", "secp521r1"]


def variants(ann, cur, pname, ep):
    """[(label, spec)] values of the declared type `ann` to put in place of the current spec `cur`"""
    a = ann.replace(" ", "")
    opts = _split_union(a)
    out = []
    if "None" in opts:
        out.append(("None", None))
    for o in opts:
        if o == "None":
            continue
        if o in ("Octets", "BinaryData", "Integer", "bytes|str|bytearray|memoryview"):
            c = _content(cur)
            out += octets_variants(c if c is not None else bytes(32))
        elif o == "bytes":
            c = _content(cur)
            out += octets_variants(c if c is not None else bytes(32), strict_bytes=True)
        elif o in ("String", "str"):
            if pname == "context":
                out += [(f"ctx:{v}", v) for v in ("P2WSH", "TAPSCRIPT", "P2SH", "p2wsh", "", "bogus", {"ssub": "P2WSH"})]
            else:
                out += string_variants(cur)
        elif o in ("PubKey", "Key"):
            out += pubkey_variants(cur)
        elif o == "BIP340PubKey":
            out += pubkey_variants(cur, xonly=True)
        elif o in ("Point", "tuple[int,int]"):
            pt = tuple(cur["t"]) if isinstance(cur, dict) and "t" in cur and len(cur["t"]) == 2 and all(isinstance(v, int) for v in cur["t"]) else None
            out += point_variants(pt)
        elif o == "JacPoint":
            out += [("jac:" + n, T(list(s["t"]) + [z])) for n, s in point_variants() for z in (1, 0, 2, -1, _P, True)] + [("jac-inf", T([7, 0, 0]))]
        elif o in ("int",):
            out += [(f"int:{v}", v) for v in INTS]
        elif o == "bool":
            out += [("True", True), ("False", False)]
        elif o == "Sig":
            cls = "btclib.bip322.Sig" if "bip322" in ep else ("btclib.ecc.bms.Sig" if "bms" in ep else ("btclib.ecc.dsa.Sig" if "dsa" in ep else "btclib.ecc.ssa.Sig"))
            if cls in ("btclib.bip322.Sig", "btclib.ecc.bms.Sig"):
                c = _content(cur)
                if c is not None:
                    out.append(("object", {"obj": [cls, c.hex()]}))
                elif isinstance(cur, str):
                    out.append(("object", _call(cls + ".b64decode", cur)))
            else:
                out += sig_variants(cur, cls)
        elif o == "BorromeanSig":
            pass        # the seeds carry the object form
        elif o == "HashF" or o.startswith("Callable"):
            out += [(f"hf:{h}", {"hf": h}) for h in HFS]
        elif o == "Curve":
            out += [(f"ec:{c}", {"curve": c}) for c in CURVE_NAMES]
        elif o == "ScriptFlag":
            from btclib.script.engine.flags import ALL_FLAGS
            out += [(f"flag:{v}", {"flag": v}) for v in (0, 1, ALL_FLAGS.value, 0x1F, 1 << 11, 1 << 17)]
        elif o in ("Any", "object"):
            out += [(f"any:{i}", G.json_spec(v)) for i, v in enumerate([None, True, 0, 1.5, float("nan"), "", "x", [], {}, [0], {"a": 1}])]
            out += [("any:bytes", B(b"\x00")), ("any:isub", {"isub": 3}), ("any:ienum", {"ienum": 3}), ("any:tuple", T([1, 2]))]
        elif o == "SessionContext":
            pass        # see seq/element handling: the context is rebuilt by its own constructor in the seeds
        elif re.match(r"^(Sequence|Iterable|list|Mapping)\[", o) or o in ("PubkeyRing",):
            out += seq_variants(o, cur, pname, ep)
        elif o in ("Tx", "Psbt"):
            name = "btclib.tx.tx.Tx" if o == "Tx" else "btclib.psbt.psbt.Psbt"
            for b in S.VALID.get(o, [])[:6]:
                out.append((f"{o}:{len(b)}", {"obj": [name, b.hex()]}))
    return out


def _elem_type(o):
    m = re.match(r"^(Sequence|Iterable|list)\[(.*)\]$", o)
    return m.group(2) if m else None


def seq_variants(o, cur, pname, ep):
    out = []
    if o.startswith("Mapping["):
        return [("mapping-empty", {"d": []}), ("mapping-one", {"d": [[B(bytes(20)), B(bytes(33))]]}),
                ("mapping-wrong-len", {"d": [[B(bytes(19)), B(bytes(5))]]}), ("mapping-str", {"d": [["00" * 20, "02" + "11" * 32]]})]
    et = "Sequence[Point]" if o == "Sequence[PubkeyRing]" else ("Point" if o == "PubkeyRing" else _elem_type(o))
    xs = list(cur["l"]) if isinstance(cur, dict) and "l" in cur else (list(cur["t"]) if isinstance(cur, dict) and "t" in cur else [])
    out += [("empty", L([])), ("one-short", L(xs[:-1])), ("one-long", L(xs + xs[:1])), ("reversed", L(xs[::-1])), ("doubled", L(xs + xs))]
    if not o.startswith("list["):
        out += [("tuple", T(xs)), ("empty-tuple", T([]))]        # Sequence / Iterable admit a tuple, `list[...]` does not
    if o.startswith("Iterable["):
        out += [("iterator", {"iter": xs}), ("set", {"set": [x for x in xs if isinstance(x, dict) and "b" in x]})]
    if xs:
        out.append(("first-only", L(xs[:1])))
    if et:
        for i in range(min(len(xs), 3)):
            for n, s in variants(et, xs[i], pname, ep):
                out.append((f"[{i}]{n}", L(xs[:i] + [s] + xs[i + 1:])))
    return out


# ----------------------------------------------------------------------------- the sweep
def g_typed(R, rng, n):
    """deterministic single-parameter sweep of the entry points of this task's share, then n seeded pairs"""
    eps = bool_entry_points()
    sd = seeds()
    part, parts = getattr(rng, "seed_value", 0) & 15, 16
    names = sorted(eps)
    for k, ep in enumerate(names):
        if k % parts != part:
            continue
        info = eps[ep]
        calls = sd.get(ep, [])
        if not calls:
            R.counts[("typed", ep, "undriven")] = R.counts.get(("typed", ep, "undriven"), 0) + 1
            continue
        fn = info["fn"]
        if info.get("property") or ep.endswith((".__eq__", ".__contains__")):
            fn = _instance_thunk(ep, info)
        params = [p for p in info["sig"].parameters.values() if p.kind not in (p.VAR_POSITIONAL, p.VAR_KEYWORD)]
        bool_ret = not info.get("assertion")
        per_call = []
        for args, kwargs in calls:
            _drive(R, ep, fn, args, kwargs, bool_ret, "seed")
            subs = []
            for i, p in enumerate(params):
                if info["instance"] and i == 0:
                    continue
                a = ann_str(p)
                if i < len(args):
                    cur, where = args[i], ("pos", i)
                elif p.name in kwargs:
                    cur, where = kwargs[p.name], ("kw", p.name)
                elif p.default is not inspect.Parameter.empty:
                    cur, where = None, ("kw", p.name)
                else:
                    continue
                vs = variants(a, cur, p.name, ep)
                subs.append((where, vs))
                for label, spec in vs:
                    a2, k2 = _subst(args, kwargs, where, spec)
                    k2 = _keep_pairs(ep, k2, args, kwargs)
                    _drive(R, ep, fn, a2, k2, bool_ret, label, boolint=_has_bool_int(spec) and "bool" not in a)
            per_call.append((args, kwargs, subs))
        # two parameters at once
        m = max(0, n // max(1, len(names) // parts))
        for _ in range(m):
            args, kwargs, subs = rng.choice(per_call)
            subs = [s for s in subs if s[1]]
            if len(subs) < 2:
                break
            (w1, v1), (w2, v2) = rng.sample(subs, 2)
            s1, s2 = rng.choice(v1)[1], rng.choice(v2)[1]
            a2, k2 = _subst(args, kwargs, w1, s1)
            a2, k2 = _subst(a2, k2, w2, s2)
            _drive(R, ep, fn, a2, _keep_pairs(ep, k2, args, kwargs), bool_ret, "pair", boolint=_has_bool_int(s1) or _has_bool_int(s2))


def _subst(args, kwargs, where, spec):
    a2, k2 = list(args), dict(kwargs)
    if where[0] == "pos":
        a2[where[1]] = spec
    else:
        k2[where[1]] = spec
    return a2, k2


def _keep_pairs(ep, k2, args, kwargs):
    """ASSUMPTION (harness/c19.py): commit / commit_hash and receipt are given together or not at all - one without the
    other is a documented BTClibTypeError caller error, not an invalid signature"""
    ck = "commit" if "commit" in k2 else ("commit_hash" if "commit_hash" in k2 else None)
    if ck is None:
        if k2.get("receipt") is not None:
            k2 = {k: v for k, v in k2.items() if k != "receipt"}
        return k2
    if (k2.get(ck) is None) != (k2.get("receipt") is None):
        k2 = {k: v for k, v in k2.items() if k not in (ck, "receipt")}
    return k2


def _instance_thunk(ep, info):
    name = ep.rsplit(".", 1)[1]
    if name == "__eq__":
        return lambda a, b: a == b
    if name == "__contains__":
        return lambda a, b: b in a
    return lambda a: getattr(a, name)


def _has_bool_int(spec, depth=0):
    """a bool standing where an int is declared (alone, as a coordinate, as a list element)"""
    if isinstance(spec, bool):
        return True
    if isinstance(spec, dict) and depth < 4:
        for k in ("l", "t"):
            if k in spec:
                return any(_has_bool_int(x, depth + 1) for x in spec[k])
        if "call" in spec:
            return any(_has_bool_int(x, depth + 1) for x in spec["call"][1]) or any(_has_bool_int(x, depth + 1) for x in spec["call"][2].values())
    return False


def _drive(R, ep, fn, args, kwargs, bool_ret, label, boolint=False):
    if boolint and bool_ret and C.is_verifier(ep):
        # ASSUMPTION (harness/c19.py): utils.is_integer's documented policy - a bool is not an integer - makes a bool in
        # an `int` position a BTClibTypeError caller error, also out of a verifier; anything else is still a finding
        outcome, value = C.call_spec(R, "typed", ep, args, kwargs, fn=fn, bool_ret=False, consumers=False, stream_check=False)
        if outcome == "ok" and not isinstance(value, bool):
            R.fail(f"{ep}:not-bool", "typed", f"{ep} answered {type(value).__name__}, not a bool, on {G.short({'args': args, 'kwargs': kwargs})}",
                   {"ep": ep, "args": list(args), "kwargs": kwargs})
        elif outcome not in ("ok", "type", "skipped", "hang") and not outcome.startswith("foreign"):
            R.fail(f"{ep}:raises:{outcome}", "typed", f"boolean predicate {ep} raised a {outcome}-class exception instead of answering, on "
                   f"{G.short({'args': args, 'kwargs': kwargs})}", {"ep": ep, "args": list(args), "kwargs": kwargs})
    else:
        outcome, value = C.call_spec(R, "typed", ep, args, kwargs, fn=fn, bool_ret=bool_ret, consumers=False, stream_check=False)
    if outcome == "skipped":
        return
    ans = "True" if value is True else ("False" if value is False else ("None" if outcome == "ok" else "raised:" + outcome.split(":")[0]))
    R.counts[("typed.answers", ep, ans)] = R.counts.get(("typed.answers", ep, ans), 0) + 1
    if label == "seed":
        k = ("typed.seeds", ep, "answered" if outcome == "ok" else "refused")
        R.counts[k] = R.counts.get(k, 0) + 1
